//! C01 – every commit is atomic; versions form a dense, monotone history.
//!
//! K4 crash / fault enumeration. For every cell (commit handler, pre-state, write op): the op is run
//! once un-faulted to learn the expected post snapshot, then `sched::explore` with ONE actor,
//! preemption bound 0 and deviation bound 1 (2 for a few ops in the thorough tier) enumerates one
//! execution per (mutating storage call k of the write, answer a) with a ∈ {CrashBefore, CrashAfter}
//! (quick) ∪ {FailBefore, FailAfter = reply lost} (thorough). Every mutating object-store call and
//! every external-manifest-store call of the writer is a fault point. After each execution the table
//! is *recovered*: opened through a fresh session, a fresh commit-handler instance and an un-gated
//! view of the same stores, and the oracle of DESIGN §4 C01 is evaluated.

use crate::common::*;
use serde::{Deserialize, Serialize};
use serde_json::{json, Value};
use std::collections::{BTreeMap, BTreeSet};
use std::sync::{Arc, Mutex};
use vcore::{Ctx, Outcome, Violation};
use vds::*;
use vstore::sched::{self, ActorEnd, ActorFut, ActorResult, Bounds, Exec, Gate, GateFn, Scenario};
use vstore::{Answer, Call};

#[derive(Clone, Debug, Serialize, Deserialize)]
pub struct Cell {
    pub handler: HandlerKind,
    pub pre: String,
    pub op: Op,
    pub answers: Vec<Answer>,
    /// also gate (and fail) the read calls of the writer
    pub gate_reads: bool,
    pub deviations: usize,
}

/// Build the pre-state named `pre` with handler `kind`.
pub async fn build_pre(kind: HandlerKind, pre: &str) -> lance::Result<Tbl> {
    let t = Tbl::new(kind);
    if pre == "empty" {
        return Ok(t);
    }
    apply_op(&t, &Op::Create).await?;
    apply_op(&t, &Op::Append { from: 3, n: 3, max_rows_per_file: 1000 }).await?;
    if pre == "rich" {
        // v3: deletion vector on fragment 0; v4: btree on k
        apply_op(&t, &Op::Delete("k = 0".into())).await?;
        apply_op(&t, &Op::CreateIndexBtree).await?;
    }
    if pre == "rich2" {
        // index first, then appended + deleted rows outside the index (for optimize_indices / compaction remap)
        apply_op(&t, &Op::CreateIndexBtree).await?;
        apply_op(&t, &Op::Append { from: 6, n: 2, max_rows_per_file: 1000 }).await?;
        apply_op(&t, &Op::Delete("uid = 4".into())).await?;
    }
    Ok(t)
}

pub struct FaultScn {
    pub cell: Cell,
    pub pre: TblSnap,
    pub pre_version: u64,
    pub pre_snaps: BTreeMap<u64, VersionSnap>,
    /// snapshots of the versions pre+1.. made by the un-faulted op (a compaction commits twice:
    /// ReserveFragments then Rewrite); for a detached commit: the content of the detached version
    pub posts: Vec<VersionSnap>,
    pub detached: bool,
    /// gated calls of the un-faulted run (mutating / all)
    pub n_mut: usize,
    pub n_all: usize,
    pub stats: Mutex<BTreeMap<String, u64>>,
    pub fault_cases: Mutex<BTreeSet<String>>,
}

impl FaultScn {
    pub async fn prepare(cell: Cell) -> Result<Self, String> {
        let t = build_pre(cell.handler, &cell.pre)
            .await
            .map_err(|e| format!("building pre-state {}: {e}", cell.pre))?;
        let pre = t.snapshot();
        let (pre_version, pre_snaps) = if cell.pre == "empty" {
            (0, BTreeMap::new())
        } else {
            let s = snap_all(&t).await.map_err(|e| format!("snap pre: {e}"))?;
            (*s.keys().max().unwrap(), s)
        };
        // un-faulted reference run on a private copy
        let r = Tbl::restore(cell.handler, &pre);
        r.env.store.enable_log(true);
        let ext0 = r.ext.state();
        let label = apply_op(&r, &cell.op)
            .await
            .map_err(|e| format!("un-faulted {:?} on {} failed: {e}", cell.op, cell.pre))?;
        let log = r.env.store.take_log();
        r.env.store.enable_log(false);
        let ext1 = r.ext.state();
        let n_mut = log.iter().filter(|o| o.call.verb.mutating()).count() + (ext1.n_writes - ext0.n_writes) as usize;
        let n_all = log.len() + (ext1.n_writes - ext0.n_writes + ext1.n_reads - ext0.n_reads) as usize;
        let detached = label.starts_with("detached");
        // (a panic here is the implementation's, reported by the recovery oracle, not by prepare)
        let post_v = match catch_async(r.open()).await {
            Ok(Ok(ds)) => ds.version().version,
            Ok(Err(e)) => return Err(format!("open after reference run: {e}")),
            Err(_) if detached => pre_version,
            Err(p) => return Err(format!("open after reference run panicked: {p}")),
        };
        let mut posts = vec![];
        if detached {
            // expected content of the detached version
            let dv: u64 = label.trim_start_matches("detached:").parse().unwrap();
            let d = r.open_version(dv).await.map_err(|e| format!("open detached: {e}"))?;
            posts.push(snap(&d).await.map_err(|e| e.to_string())?);
            // (latest moving here is the implementation's fault; the recovery oracle reports it)
        } else {
            if post_v < pre_version || post_v > pre_version + 2 {
                return Err(format!("reference run moved version {pre_version} -> {post_v}"));
            }
            for v in pre_version + 1..=post_v {
                let d = r.open_version(v).await.map_err(|e| format!("open post v{v}: {e}"))?;
                posts.push(snap(&d).await.map_err(|e| e.to_string())?);
            }
        }
        Ok(Self {
            cell,
            pre,
            pre_version,
            pre_snaps,
            posts,
            detached,
            n_mut,
            n_all,
            stats: Mutex::new(BTreeMap::new()),
            fault_cases: Mutex::new(BTreeSet::new()),
        })
    }
}

fn fault_of(exec: &Exec) -> Vec<(usize, Answer, Call)> {
    exec.points
        .iter()
        .enumerate()
        .filter(|(_, p)| p.answer != 0)
        .map(|(i, p)| (i, p.ans(), p.call().clone()))
        .collect()
}

fn applied(a: Answer) -> bool {
    matches!(a, Answer::Normal | Answer::FailAfter | Answer::CrashAfter | Answer::Stale)
}

impl Scenario for FaultScn {
    type World = Tbl;
    fn name(&self) -> String {
        serde_json::to_string(&self.cell).unwrap()
    }
    async fn setup(&self, gate: &Gate) -> (Tbl, Vec<ActorFut>) {
        let t = Tbl::restore(self.cell.handler, &self.pre);
        // budget: the un-faulted run's calls plus room for ~3 commit retries
        let budget = if self.cell.gate_reads { self.n_all * 2 + 60 } else { self.n_mut + 16 };
        // ... and never more than 4 publish attempts (Lance's commit back-off sleeps are real and grow
        // exponentially with the attempt number)
        let ctl = ActorCtl::new(gate, self.gate_rule()).with_budget(budget).with_attempt_budget(self.cell.handler, 4);
        let a = t.actor(0, Some(&ctl));
        let op = self.cell.op.clone();
        let fut: ActorFut = Box::pin(async move {
            tokio::select! {
                biased;
                r = apply_op(&a, &op) => match r {
                    Ok(l) => ActorResult::ok(json!(l)),
                    Err(e) => ActorResult::err(err_class(&e), json!(e.to_string())),
                },
                _ = ctl.killed() => ActorResult::err("killed-after-budget", json!(budget)),
            }
        });
        (t, vec![fut])
    }
    /// Single actor: gating only chooses where faults can be injected – every mutating call
    /// (object store and external store), optionally every read.
    fn gate_rule(&self) -> GateFn {
        let gr = self.cell.gate_reads;
        Arc::new(move |a, c: &Call| a == 0 && (gr || c.verb.mutating()))
    }
    fn deviations(&self, _actor: usize, call: &Call) -> Vec<Answer> {
        if call.verb.mutating() {
            self.cell.answers.clone()
        } else if self.cell.answers.contains(&Answer::FailBefore) {
            vec![Answer::FailBefore]
        } else {
            vec![]
        }
    }
    fn state_hash(&self, w: &Tbl) -> u64 {
        w.shape_hash()
    }
    async fn final_check(&self, w: &Tbl, exec: &Exec) -> Vec<Violation> {
        let kind = self.cell.handler;
        let faults = fault_of(exec);
        let n_published = exec
            .points
            .iter()
            .filter(|p| is_publish_call(kind, p.call()) && applied(p.ans()))
            .count() as u64;
        let published = n_published > 0;
        let end = exec.ends.first().cloned().flatten();
        let writer = match &end {
            Some(ActorEnd::Finished(r)) => r.label.clone(),
            Some(ActorEnd::Crashed) => "crashed".into(),
            Some(ActorEnd::Panicked(_)) => "panicked".into(),
            None => "unfinished".into(),
        };
        let fault_tag = faults
            .iter()
            .map(|(_, a, c)| format!("{a:?}@{:?}:{}", c.verb, path_class(c.to.as_deref().unwrap_or(&c.path))))
            .collect::<Vec<_>>()
            .join("+");
        let fault_tag = if fault_tag.is_empty() { "none".to_string() } else { fault_tag };
        let mut out: Vec<(&'static str, String)> = vec![];
        if let Some(ActorEnd::Panicked(m)) = &end {
            out.push(("writer-panic", format!("writer panicked: {m}")));
        }
        // ---- recovery: fresh session, fresh handler instance, un-gated view
        let r = w.actor(9, None);
        let mut m_after: Option<u64> = None;
        let mut dangling = ext_dangling(w);
        // root cause first: the writer got an error for a put_if_not_exists that took effect (reply
        // lost) and then deleted the staging manifest it had committed
        let lost_then_deleted = exec.points.iter().enumerate().any(|(i, p)| {
            p.call().verb == vstore::Verb::ExtPutIfNotExists
                && p.ans() == Answer::FailAfter
                && !w.ext.state().applied_puts.is_empty()
                && p.call().path.split_once('=').map(|(_, staging)| {
                    exec.points[i + 1..].iter().any(|q| q.call().verb == vstore::Verb::Delete && q.call().path == staging)
                }).unwrap_or(false)
        });
        if lost_then_deleted {
            out.push(("lost-put-reply-handled-as-conflict", format!(
                "the writer's put_if_not_exists took effect but its reply was lost; the writer then deleted the staging manifest it had committed; a fresh open gives: {:?}; {}",
                catch_async(r.open()).await.map(|r| r.map(|d| d.version().version).map_err(|e| e.to_string().chars().take(160).collect::<String>())),
                dangling.clone().unwrap_or_default()
            )));
            dangling = Some("pruned".into());
        } else if let Some(d) = &dangling {
            // one structural cause, whatever else was injected: reported under one key, not judged further
            out.push(("ext-dangling", format!("{d}; a fresh open gives: {:?}", catch_async(r.open()).await.map(|r| r.map(|d| d.version().version).map_err(|e| e.to_string().chars().take(160).collect::<String>())))));
        }
        let opened = if dangling.is_some() { None } else { Some(catch_async(r.open()).await) };
        match opened {
            None => {}
            Some(Err(p)) => out.push(("open-latest-panic", format!("opening latest panicked: {p} at {}", last_panic_site()))),
            Some(Ok(Err(e))) => {
                if self.pre_version == 0 && !published {
                    m_after = Some(0);
                } else {
                    out.push((
                        "latest-unopenable",
                        format!("latest cannot be opened after recovery (pre={}, published={published}): {e}", self.pre_version),
                    ));
                }
            }
            Some(Ok(Ok(ds))) => 'chk: {
                let m = ds.version().version;
                m_after = Some(m);
                let expect_m = if self.detached { self.pre_version } else { self.pre_version + n_published };
                if lance_table::format::is_detached_version(m) {
                    out.push(("detached-became-latest", format!("latest resolves to the detached version {m} (pre={})", self.pre_version)));
                    // nothing below is meaningful once latest is wrong in this way
                    break 'chk;
                } else if m != expect_m {
                    out.push((
                        "latest-number",
                        format!("latest is v{m}, expected v{expect_m} (pre={}, publishing effects applied={n_published})", self.pre_version),
                    ));
                }
                match catch_async(ds.versions()).await {
                    Err(p) => out.push(("versions-panic", format!("versions() panicked: {p}"))),
                    Ok(Err(e)) => out.push(("versions-error", format!("versions() failed: {e}"))),
                    Ok(Ok(vs)) => {
                        let got: Vec<u64> = vs.iter().map(|v| v.version).collect();
                        let want: Vec<u64> = (1..=m.min(self.pre_version + 5)).collect();
                        if got != want {
                            out.push(("dense-history", format!("versions() = {got:?}, expected {want:?}")));
                        }
                    }
                }
                // latest == pre or post as a whole
                let want = if m == self.pre_version {
                    self.pre_snaps.get(&m)
                } else if self.detached || m < self.pre_version {
                    None
                } else {
                    self.posts.get((m - self.pre_version - 1) as usize)
                };
                match (catch_async(snap(&ds)).await, want) {
                    (Err(p), _) => out.push(("scan-panic", format!("scanning latest panicked: {p}"))),
                    (Ok(Err(e)), _) => out.push(("latest-unreadable", format!("latest v{m} cannot be read: {e}"))),
                    (Ok(Ok(s)), Some(w)) => {
                        if let Some(d) = snap_diff(&s, w) {
                            out.push(("latest-content", format!("latest v{m} is neither the pre nor the post snapshot: {d}")));
                        }
                    }
                    (Ok(Ok(_)), None) => {}
                }
                let (_, problems) = structure::check_struct(&ds).await;
                for p in problems {
                    out.push(("struct", format!("latest v{m}: {p}")));
                }
                // index files present and usable
                if let Ok(idx) = lance_index::DatasetIndexExt::load_indices(&ds).await {
                    if !idx.is_empty() && ds.schema().field("k").is_some() {
                        let with = scan_filter_cells(&ds, "k = 1").await;
                        let mut sc = ds.scan();
                        sc.scan_in_order(true);
                        sc.use_scalar_index(false);
                        let without = async {
                            sc.filter("k = 1")?;
                            let b: Vec<arrow_array::RecordBatch> =
                                futures::TryStreamExt::try_collect(sc.try_into_stream().await?).await?;
                            lance::Result::Ok(cells::batches_rows(&b))
                        }
                        .await;
                        match (with, without) {
                            (Ok(a), Ok(b)) if a == b => {}
                            (a, b) => out.push((
                                "index-usable",
                                format!("indexed query on latest v{m}: with index {a:?}, without {b:?}"),
                            )),
                        }
                    }
                }
                // earlier versions unchanged
                for (v, s0) in &self.pre_snaps {
                    if *v == m && m == self.pre_version {
                        continue;
                    }
                    match r.open_version(*v).await {
                        Err(e) => out.push(("old-version-lost", format!("v{v} no longer opens: {e}"))),
                        Ok(d) => match snap(&d).await {
                            Err(e) => out.push(("old-version-lost", format!("v{v} no longer reads: {e}"))),
                            Ok(s) => {
                                if let Some(df) = snap_diff(&s, s0) {
                                    out.push(("old-version-changed", format!("v{v} changed: {df}")));
                                }
                            }
                        },
                    }
                }
                // a second fresh reader sees the same latest (repairs are idempotent)
                let r2 = w.actor(10, None);
                match catch_async(r2.open()).await {
                    Ok(Ok(d2)) if d2.version().version == m => {}
                    Ok(Ok(d2)) => out.push(("reopen", format!("second reader sees v{} after first saw v{m}", d2.version().version))),
                    Ok(Err(e)) => out.push(("reopen", format!("second reader cannot open: {e}"))),
                    Err(p) => out.push(("reopen", format!("second reader panicked: {p}"))),
                }
            }
        }
        // writer's report vs reality
        if let Some(ActorEnd::Finished(res)) = &end {
            if res.ok && (n_published as usize) < self.posts.len() {
                out.push(("ok-without-commit", "writer reported success but no publishing call took effect".into()));
            }
        }
        // detached commit: opens by number when its manifest was published
        if self.detached && published {
            let dpaths: Vec<String> = w
                .env
                .store
                .paths()
                .into_iter()
                .filter(|p| p.contains("/_versions/d") && p.ends_with(".manifest"))
                .collect();
            if dpaths.len() != 1 {
                out.push(("detached", format!("expected one detached manifest, found {dpaths:?}")));
            } else {
                let name = dpaths[0].rsplit('/').next().unwrap();
                let dv: u64 = name.trim_start_matches('d').trim_end_matches(".manifest").parse().unwrap_or(0);
                match catch_async(r.open_version(dv)).await {
                    Ok(Ok(d)) => match snap(&d).await {
                        Ok(s) => {
                            if let Some(df) = self.posts.first().and_then(|p| snap_diff(&s, p)) {
                                out.push(("detached", format!("detached version content: {df}")));
                            }
                        }
                        Err(e) => out.push(("detached", format!("detached version unreadable: {e}"))),
                    },
                    Ok(Err(e)) => out.push(("detached", format!("detached version does not open by number: {e}"))),
                    Err(p) => out.push(("detached", format!("opening detached version panicked: {p}"))),
                }
            }
        }
        // ---- bookkeeping for the vacuity guard
        {
            let m_tag = match m_after {
                Some(m) if m == self.pre_version => "M=pre",
                Some(m) if m == self.pre_version + 1 => "M=pre+1",
                Some(m) if m == self.pre_version + 2 => "M=pre+2",
                Some(_) => "M=other",
                None => "M=?",
            };
            let k = format!("{fault_tag} -> writer={writer} {m_tag}");
            *self.stats.lock().unwrap().entry(k).or_insert(0) += 1;
            if !faults.is_empty() {
                let fc = faults
                    .iter()
                    .map(|(i, a, c)| format!("{i}:{a:?}:{}", c.norm()))
                    .collect::<Vec<_>>()
                    .join("+");
                self.fault_cases.lock().unwrap().insert(fc);
            }
        }
        // root cause "failed open treated as a missing table": the first injected fault is a failed READ
        // during the writer's initial open (before any mutating call) and the writer nevertheless
        // went on to write. Everything that follows in such an execution is reported under one key.
        let first_fault = exec.points.iter().position(|p| p.answer != 0);
        let failed_open_then_wrote = match first_fault {
            Some(i) => {
                let p = &exec.points[i];
                !p.call().verb.mutating()
                    && p.ans() == Answer::FailBefore
                    && !exec.points[..i].iter().any(|q| q.call().verb.mutating())
                    && exec.points[i + 1..].iter().any(|q| q.call().verb.mutating())
                    && !matches!(self.cell.op, Op::Create)
            }
            None => false,
        };
        out.into_iter()
            .map(|(oracle, what)| {
                let own_root_cause = oracle.ends_with("-panic")
                    || matches!(oracle, "ext-dangling" | "lost-put-reply-handled-as-conflict" | "detached-became-latest");
                let uri_write = matches!(self.cell.op, Op::Append { .. } | Op::Overwrite { .. });
                let key = if failed_open_then_wrote && uri_write && !own_root_cause {
                    format!("c01/{}/failed-open-treated-as-missing-table/{}", kind.tag(), self.cell.op.kind())
                } else if oracle.ends_with("-panic") {
                    format!("c01/{}/{}", oracle, last_panic_site())
                } else if oracle == "ext-dangling" || oracle == "lost-put-reply-handled-as-conflict" {
                    // which writer step left the mapping dangling: its own cleanup after the (lost) put
                    format!("c01/{}/{}", kind.tag(), oracle)
                } else if oracle == "detached-became-latest" {
                    format!("c01/{}/{}", kind.tag(), oracle)
                } else {
                    format!("c01/{}/{}/{}", kind.tag(), oracle, fault_tag)
                };
                Violation::new(
                    oracle,
                    &key,
                    format!("{} on {} [{}], fault {}: {}", self.cell.op.kind(), self.cell.pre, kind.tag(), fault_tag, what),
                    json!({"op": self.cell.op, "pre": self.cell.pre, "handler": kind, "writer": writer}),
                )
            })
            .collect()
    }
}

fn ops_for(pre: &str, tier_thorough: bool) -> Vec<Op> {
    let app = |from| Op::Append { from, n: 3, max_rows_per_file: 1000 };
    match pre {
        "empty" => vec![Op::Create],
        "fresh" => {
            let mut v = vec![
                app(100),
                Op::Overwrite { from: 100, n: 2 },
                Op::Delete("k = 0".into()),
                Op::Update { col: "v".into(), val: "'z'".into(), pred: "k >= 1".into() },
                Op::MergeUpsert,
                Op::Compact,
                Op::CreateIndexBtree,
                Op::AddColumn,
                Op::UpdateConfig,
                Op::Restore(1),
            ];
            if tier_thorough {
                v.extend([
                    Op::Append { from: 100, n: 3, max_rows_per_file: 2 },
                    Op::MergeInsertOnly,
                    Op::CreateIndexBitmap,
                    Op::DropColumn,
                    Op::UpdateSchemaMetadata,
                    Op::Delete("k IS NULL".into()),
                    Op::Update { col: "k".into(), val: "k + 1".into(), pred: "uid < 4".into() },
                ]);
            }
            v
        }
        "rich" => {
            let mut v = vec![
                app(100),
                Op::Delete("k >= 1".into()),
                Op::Update { col: "v".into(), val: "'z'".into(), pred: "k >= 1".into() },
                Op::MergeUpsert,
                Op::Compact,
                Op::Restore(2),
                Op::DetachedAppend,
            ];
            if tier_thorough {
                v.extend([
                    Op::Overwrite { from: 100, n: 2 },
                    Op::CreateIndexBtree,
                    Op::OptimizeIndices,
                    Op::AddColumn,
                    Op::DropColumn,
                    Op::UpdateConfig,
                ]);
            }
            v
        }
        "rich2" => vec![Op::OptimizeIndices, Op::Compact, Op::Delete("k = 1".into()), Op::MergeUpsert],
        _ => vec![],
    }
}

fn cells(ctx: &Ctx) -> Vec<Cell> {
    let thorough = !ctx.quick();
    let crash = vec![Answer::CrashBefore, Answer::CrashAfter];
    let all = vec![Answer::CrashBefore, Answer::CrashAfter, Answer::FailBefore, Answer::FailAfter];
    let mut out = vec![];
    let handlers = [HandlerKind::CondPut, HandlerKind::Rename, HandlerKind::External];
    for h in handlers {
        let pres: &[&str] = if thorough { &["empty", "fresh", "rich", "rich2"] } else { &["empty", "fresh", "rich"] };
        for pre in pres {
            for op in ops_for(pre, thorough) {
                // quick: crash answers everywhere; lost replies / failed calls on the commit-critical subset
                let answers = if thorough { all.clone() } else { crash.clone() };
                out.push(Cell {
                    handler: h,
                    pre: pre.to_string(),
                    op: op.clone(),
                    answers,
                    gate_reads: false,
                    deviations: 1,
                });
                let core = matches!(op, Op::Append { max_rows_per_file: 1000, .. } | Op::Delete(_) | Op::Create);
                if !thorough && core {
                    out.push(Cell {
                        handler: h,
                        pre: pre.to_string(),
                        op: op.clone(),
                        answers: vec![Answer::FailBefore, Answer::FailAfter],
                        gate_reads: false,
                        deviations: 1,
                    });
                }
                if thorough && matches!(op, Op::Append { max_rows_per_file: 1000, .. } | Op::Delete(_) | Op::Compact) {
                    // pairs of faults, and failing reads
                    out.push(Cell {
                        handler: h,
                        pre: pre.to_string(),
                        op: op.clone(),
                        answers: all.clone(),
                        gate_reads: true,
                        deviations: 2,
                    });
                }
            }
        }
    }
    out
}

struct CellReport {
    cell: Cell,
    rep: Option<sched::SchedReport>,
    stats: BTreeMap<String, u64>,
    fault_cases: usize,
    n_calls: usize,
    err: Option<String>,
    wall: f64,
}

fn run_cell(cell: Cell, wall_left: f64) -> CellReport {
    let t0 = std::time::Instant::now();
    let scn = match vds::run_catch(FaultScn::prepare(cell.clone())) {
        Ok(Ok(s)) => s,
        Ok(Err(e)) => {
            return CellReport { cell, rep: None, stats: BTreeMap::new(), fault_cases: 0, n_calls: 0, err: Some(e), wall: 0.0 }
        }
        Err(p) => {
            return CellReport { cell, rep: None, stats: BTreeMap::new(), fault_cases: 0, n_calls: 0, err: Some(format!("panic while preparing: {p}")), wall: 0.0 }
        }
    };
    let b = Bounds {
        preemptions: 0,
        deviations: cell.deviations,
        max_schedules: 50_000,
        wall_s: wall_left.max(1.0),
        hang_s: 60.0,
        max_points: 400,
    };
    let rep = sched::explore(&scn, &b, 1);
    let stats = scn.stats.lock().unwrap().clone();
    let fault_cases = scn.fault_cases.lock().unwrap().len();
    CellReport {
        n_calls: rep.max_points,
        cell,
        rep: Some(rep),
        stats,
        fault_cases,
        err: None,
        wall: t0.elapsed().as_secs_f64(),
    }
}

fn replay(ctx: &Ctx, art: &Value) -> Outcome {
    let mut out = Outcome::new("fault_enumeration");
    let case = &art["case"];
    let cell: Cell = match case["scenario"].as_str().and_then(|s| serde_json::from_str(s).ok()) {
        Some(c) => c,
        None => vcore::machinery_error("replay artefact has no scenario cell"),
    };
    let choices: Vec<(usize, usize)> = serde_json::from_value(case["choices"].clone())
        .unwrap_or_else(|_| vcore::machinery_error("replay artefact has no choices"));
    let scn = match vds::run_catch(FaultScn::prepare(cell)) {
        Ok(Ok(s)) => s,
        other => vcore::machinery_error(&format!("cannot prepare replay cell: {:?}", other.err())),
    };
    let b = Bounds { preemptions: 0, deviations: 9, hang_s: 40.0, ..Default::default() };
    let exec = sched::replay(&scn, &choices, &b);
    if let Some(h) = &exec.hang {
        vcore::machinery_error(&format!("replay did not complete: {h}"));
    }
    let want_key = art["key"].as_str().unwrap_or("");
    for mut v in exec.violations {
        if want_key.is_empty() || v.key == want_key {
            v.case = case.clone();
            out.violations.push(v);
        }
    }
    out.set("evaluations", 1u64);
    out.set("distinct_nontrivial", 2u64);
    out.set("rule", "replay of one recorded fault schedule");
    out.set("samples", json!([exec.points.iter().map(|p| p.norm()).collect::<Vec<_>>()]));
    let _ = ctx;
    out
}

pub fn run(ctx: &Ctx) -> Outcome {
    if let Some(art) = ctx.replay_case() {
        return replay(ctx, &art);
    }
    let mut out = Outcome::new("fault_enumeration");
    let wall_cap = ctx.tier.pick(40.0, 780.0);
    let mut cells = cells(ctx);
    if let Some(f) = ctx.opts.get("only") {
        cells.retain(|c| format!("{}/{}/{}", c.handler.tag(), c.pre, c.op.kind()).contains(f.as_str()));
    }
    let n_cells = cells.len();
    let start = std::time::Instant::now();
    let reports = vcore::par_map(cells, ctx.workers, |_, c| {
        let left = wall_cap - start.elapsed().as_secs_f64();
        if left <= 0.5 {
            return CellReport { cell: c, rep: None, stats: BTreeMap::new(), fault_cases: 0, n_calls: 0, err: Some("SKIPPED: wall cap".into()), wall: 0.0 };
        }
        run_cell(c, left)
    });
    let mut evaluations = 0u64;
    let mut fault_cases = 0u64;
    let mut outcomes: BTreeMap<String, u64> = BTreeMap::new();
    let mut per_cell = vec![];
    let mut samples = vec![];
    let mut cap_hit = None;
    let mut merr = vec![];
    let mut skipped = 0;
    for r in reports {
        if let Some(e) = &r.err {
            if e.starts_with("SKIPPED") {
                skipped += 1;
                cap_hit = Some(format!("wall cap {wall_cap}s: {skipped} cells not run"));
            } else {
                merr.push(format!("{:?}/{}/{}: {e}", r.cell.handler, r.cell.pre, r.cell.op.kind()));
            }
            continue;
        }
        let rep = r.rep.unwrap();
        evaluations += rep.schedules;
        fault_cases += r.fault_cases as u64;
        for (k, v) in &r.stats {
            *outcomes.entry(format!("{}: {k}", r.cell.handler.tag())).or_insert(0) += v;
        }
        if rep.cap_hit.is_some() && cap_hit.is_none() {
            cap_hit = rep.cap_hit.clone();
        }
        merr.extend(rep.machinery_errors.iter().map(|m| format!("{}/{}/{}: {m}", r.cell.handler.tag(), r.cell.pre, r.cell.op.kind())));
        per_cell.push(json!({
            "handler": r.cell.handler.tag(), "pre": r.cell.pre, "op": r.cell.op.kind(),
            "answers": r.cell.answers, "gate_reads": r.cell.gate_reads, "deviations": r.cell.deviations,
            "gated_calls_max": r.n_calls, "executions": rep.schedules, "fault_cases": r.fault_cases,
            "wall_s": (r.wall * 100.0).round() / 100.0,
        }));
        if samples.len() < 6 {
            if let Some(s) = rep.samples.iter().find(|s| s["choices"].as_array().map(|c| c.iter().any(|x| x[1] != 0)).unwrap_or(false)) {
                samples.push(json!({"cell": {"handler": r.cell.handler.tag(), "pre": r.cell.pre, "op": r.cell.op}, "schedule": s}));
            }
        }
        if ctx.opts.contains_key("debug") {
            for v in &rep.violations {
                eprintln!("VIOL {} :: {}\n   trace: {:#?}", v.key, v.what, v.case["trace"]);
            }
            for m in &rep.machinery_errors {
                eprintln!("MERR {m}");
            }
            eprintln!("cell {}/{}/{} stats {:#?}", r.cell.handler.tag(), r.cell.pre, r.cell.op.kind(), r.stats);
        }
        out.violations.extend(rep.violations);
    }
    if !merr.is_empty() {
        vcore::machinery_error(&format!("C01 harness errors: {}", merr.join(" | ").chars().take(1500).collect::<String>()));
    }
    // vacuity guard: both sides of the commit point must have been reached, for every handler
    for h in ["condput", "rename", "external"] {
        let pre = outcomes.iter().any(|(k, _)| k.starts_with(h) && k.contains("M=pre") && !k.contains("M=pre+1") && !k.contains("none"));
        let post = outcomes.iter().any(|(k, _)| k.starts_with(h) && k.contains("M=pre+1") && !k.contains("none"));
        if cap_hit.is_none() && !(pre && post) {
            vcore::machinery_error(&format!("vacuous: handler {h} faults never landed on both sides of the commit point (pre={pre}, post={post})"));
        }
    }
    out.set("evaluations", evaluations);
    out.set("distinct_nontrivial", fault_cases);
    out.set(
        "rule",
        "one execution per (commit handler, pre-state, write op, index k of a gated storage call of the write, non-Normal answer); \
         non-trivial = a fault was actually injected (distinct (call index, answer, normalised call) per cell), the rest are the un-faulted reference executions",
    );
    out.set("samples", Value::Array(samples));
    out.set("exhaustive", cap_hit.is_none());
    if let Some(c) = cap_hit {
        out.set("cap_hit", c);
    }
    out.set("cells", n_cells as u64);
    out.set("distinct_outcomes", json!(outcomes));
    out.set("per_cell", Value::Array(per_cell));
    out.assume("MemStore implements the object_store contract (atomic single-object put / put-if-absent / rename-if-absent / copy, strongly consistent list); crash granularity is one storage call");
    out.assume("MemExt models an external manifest store with atomic conditional puts; strongly consistent in this check");
    out.assume("lock-based CommitLock handlers are not covered (the cooperative scheduler has no blocked-actor guard)");
    out
}
