//! Smoke test of the shared infrastructure (not a property check): base table on MemStore,
//! snapshot, O-struct, and a K3 exploration of two concurrent appenders.

use serde_json::json;
use std::sync::Arc;
use vcore::{Ctx, Outcome, Violation};
use vds::*;
use vstore::sched::{self, ActorFut, ActorResult, Bounds, Exec, Gate, GateFn, Scenario};
use vstore::{Call, MemStore, Snapshot};

struct TwoAppenders {
    base: Snapshot,
    n: usize,
}

impl Scenario for TwoAppenders {
    type World = Env;
    fn name(&self) -> String {
        format!("{}-appenders", self.n)
    }
    async fn setup(&self, gate: &Gate) -> (Env, Vec<ActorFut>) {
        let env = Env::from_store(MemStore::from_snapshot(&self.base));
        let mut actors: Vec<ActorFut> = vec![];
        for i in 0..self.n {
            let e = env.actor(i, Some(gate.controller()));
            actors.push(Box::pin(async move {
                let rows = default_rows((100 + 10 * i as i32)..(102 + 10 * i as i32));
                let p = e.write_params(lance::dataset::WriteMode::Append);
                match e.write(URI, vec![base_batch(&rows)], p).await {
                    Ok(ds) => ActorResult::ok(json!({"version": ds.version().version})),
                    Err(err) => ActorResult::err(err_class(&err), json!(err.to_string())),
                }
            }));
        }
        (env, actors)
    }
    fn gate_rule(&self) -> GateFn {
        Arc::new(|_actor, call: &Call| call.path.contains("_versions"))
    }
    async fn final_check(&self, env: &Env, exec: &Exec) -> Vec<Violation> {
        let mut v = vec![];
        let ds = match env.open(URI).await {
            Ok(d) => d,
            Err(e) => return vec![Violation::new("open", "smoke/open", e.to_string(), json!({}))],
        };
        let rows = scan_base(&ds).await.unwrap();
        let oks = exec.ends.iter().filter(|e| matches!(e, Some(sched::ActorEnd::Finished(r)) if r.ok)).count();
        if rows.len() != 6 + 2 * oks {
            v.push(Violation::new("rows", "smoke/rows", format!("{} rows, {} ok appends", rows.len(), oks), json!({})));
        }
        let (_, problems) = structure::check_struct(&ds).await;
        for p in problems {
            v.push(Violation::new("struct", "smoke/struct", p, json!({})));
        }
        v
    }
    fn state_hash(&self, w: &Env) -> u64 {
        w.store.shape_hash()
    }
}

pub fn run(ctx: &Ctx) -> Outcome {
    let mut out = Outcome::new("model_checking");
    let env = Env::new();
    let t0 = std::time::Instant::now();
    let ds = block_on(create_base(&env, URI, &layout("L2"), &TableOpts::default())).unwrap();
    eprintln!("create_base: {:?}; paths: {:#?}", t0.elapsed(), env.store.paths());
    let s = block_on(snap(&ds)).unwrap();
    eprintln!("snap: {s:?}");
    let (sum, problems) = block_on(structure::check_struct(&ds));
    eprintln!("struct: {sum:?} problems={problems:?}");
    let base = env.store.snapshot();
    for (n, pre) in [(2usize, 99usize), (3, 2)] {
        let scn = TwoAppenders { base: base.clone(), n };
        let b = Bounds { preemptions: pre, ..Default::default() };
        let t = std::time::Instant::now();
        let rep = sched::explore(&scn, &b, ctx.workers);
        eprintln!(
            "{} schedules={} steps={} states={} transitions={} outcomes={:?} cap={:?} merr={:?} in {:?}",
            scn.name(), rep.schedules, rep.steps, rep.states, rep.transitions, rep.outcomes, rep.cap_hit, rep.machinery_errors, t.elapsed()
        );
        if let Some(s) = rep.samples.first() {
            eprintln!("sample: {s}");
        }
        out.violations.extend(rep.violations.iter().cloned());
        rep.fill(&mut out);
    }
    out
}
