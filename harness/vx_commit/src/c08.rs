//! C08 – cleanup never removes anything a retained version needs.
//!
//! (a) bounded-exhaustive histories (all op sequences up to a depth over a small alphabet, incl.
//!     tags, auto-cleanup config and an orphan-producing crashed write) × object ages (MemStore
//!     logical ageing: younger / older than the 7-day unverified window) × every cleanup policy of a
//!     small family; oracle = object-store diff + re-read of every surviving version.
//! (b) K3: `cleanup_with_policy` ∥ one writer (append / delete / compact / restore of an old version /
//!     create_index), cleanup's list / delete / `_versions` calls and the writer's puts and
//!     `_versions` calls gated, preemption bounded.
//! Sub-cases that need a controllable wall clock (`before_timestamp` relative to manifest
//! timestamps, `lance.auto_cleanup.older_than`) are NOT covered: clock hook H1 does not exist.

use crate::common::*;
use async_trait::async_trait;
use chrono::Duration;
use lance::dataset::cleanup::{CleanupPolicy, CleanupPolicyBuilder};
use serde::{Deserialize, Serialize};
use serde_json::{json, Value};
use std::collections::{BTreeMap, BTreeSet};
use std::sync::{Arc, Mutex};
use vcore::{Ctx, Outcome, Violation};
use vds::*;
use vstore::sched::{self, ActorEnd, ActorFut, ActorResult, Bounds, Exec, Gate, GateFn, PointRec, Scenario, SchedReport};
use vstore::{Answer, Call, Controller, Verb};

#[derive(Clone, Debug, PartialEq, Eq, Hash, PartialOrd, Ord, Serialize, Deserialize)]
pub enum Policy {
    BeforeVersion(u64),
    RetainN(usize),
    /// before_timestamp = now + 1h: everything but latest / tagged
    All,
    /// `Dataset::cleanup_old_versions(older_than = 0, delete_unverified, error_if_tagged)`: cutoff = now
    OlderThanZero,
}

#[derive(Clone, Debug, Serialize, Deserialize)]
pub struct EnvVariant {
    /// every object of the history is older than the 7-day window
    pub aged: bool,
    /// "none" | "young" (crashed write after ageing) | "aged" (crashed write before ageing)
    pub orphan: String,
}

#[derive(Clone, Debug, Serialize, Deserialize)]
pub struct CleanCase {
    pub ops: Vec<Op>,
    pub env: EnvVariant,
    pub policy: Policy,
    pub delete_unverified: bool,
    pub error_if_tagged: bool,
    /// version of the handle cleanup runs on (None = freshly opened latest)
    #[serde(default)]
    pub handle: Option<u64>,
}

async fn build_policy(ds: &lance::Dataset, c: &CleanCase) -> lance::Result<CleanupPolicy> {
    let mut b = CleanupPolicyBuilder::default()
        .delete_unverified(c.delete_unverified)
        .error_if_tagged_old_versions(c.error_if_tagged);
    match &c.policy {
        Policy::BeforeVersion(v) => {
            let mut p = b.build();
            p.before_version = Some(*v);
            return Ok(p);
        }
        Policy::RetainN(n) => b = b.retain_n_versions(ds, *n).await?,
        Policy::All | Policy::OlderThanZero => b = b.before_timestamp(chrono::Utc::now() + Duration::hours(1)),
    }
    Ok(b.build())
}

/// Controller of the orphan-producing writer: crash right before the manifest is published.
#[derive(Debug)]
struct CrashAtPublish {
    hit: Arc<tokio::sync::Notify>,
}

#[async_trait]
impl Controller for CrashAtPublish {
    async fn before(&self, _actor: usize, call: &Call) -> Answer {
        if is_publish_call(HandlerKind::CondPut, call) {
            Answer::CrashBefore
        } else {
            Answer::Normal
        }
    }
    fn after(&self, _actor: usize, call: &Call, _ok: bool) {
        if is_publish_call(HandlerKind::CondPut, call) {
            self.hit.notify_one();
        }
    }
}

/// Run an append that crashes before its commit point; returns the objects it left behind.
async fn make_orphan(t: &Tbl) -> Result<Vec<String>, String> {
    let before: BTreeSet<String> = t.env.store.paths().into_iter().collect();
    let hit = Arc::new(tokio::sync::Notify::new());
    let ctl: Arc<dyn Controller> = Arc::new(CrashAtPublish { hit: hit.clone() });
    let a = Tbl {
        env: t.env.actor(7, Some(ctl)),
        ext: t.ext.clone(),
        kind: t.kind,
        v2_paths: t.v2_paths,
        no_auto_cleanup: t.no_auto_cleanup,
    };
    let op = Op::Append { from: 500, n: 2, max_rows_per_file: 1000 };
    tokio::select! {
        biased;
        _ = hit.notified() => {}
        r = apply_op(&a, &op) => return Err(format!("orphan writer finished instead of crashing: {:?}", r.map_err(|e| e.to_string()))),
    }
    Ok(t.env.store.paths().into_iter().filter(|p| !before.contains(p)).collect())
}

struct History {
    ops: Vec<Op>,
    snap: TblSnap,
    /// snapshot of every version ever made (auto-cleanup may already have removed some)
    all_snaps: BTreeMap<u64, VersionSnap>,
    violations: Vec<(String, String)>,
}

async fn survivors_intact(t: &Tbl, all_snaps: &BTreeMap<u64, VersionSnap>, ctx_what: &str) -> (Vec<u64>, Vec<(String, String)>) {
    let mut out = vec![];
    let mut listed = vec![];
    match catch_async(t.open()).await {
        Err(p) => out.push(("open-panic".into(), format!("{ctx_what}: open panicked: {p}"))),
        Ok(Err(e)) => out.push(("latest-unopenable".into(), format!("{ctx_what}: latest cannot be opened: {e}"))),
        Ok(Ok(ds)) => {
            match ds.versions().await {
                Err(e) => out.push(("versions-error".into(), format!("{ctx_what}: {e}"))),
                Ok(vs) => listed = vs.iter().map(|v| v.version).collect(),
            }
            for v in &listed {
                match catch_async(t.open_version(*v)).await {
                    Err(p) => out.push(("open-panic".into(), format!("{ctx_what}: v{v} open panicked: {p}"))),
                    Ok(Err(e)) => out.push(("survivor-unopenable".into(), format!("{ctx_what}: surviving v{v} cannot be opened: {e}"))),
                    Ok(Ok(d)) => {
                        match catch_async(snap(&d)).await {
                            Err(p) => out.push(("scan-panic".into(), format!("{ctx_what}: v{v} scan panicked: {p}"))),
                            Ok(Err(e)) => out.push(("survivor-unreadable".into(), format!("{ctx_what}: surviving v{v} cannot be read: {e}"))),
                            Ok(Ok(s)) => {
                                if let Some(s0) = all_snaps.get(v) {
                                    if let Some(df) = snap_diff(&s, s0) {
                                        out.push(("survivor-changed".into(), format!("{ctx_what}: surviving v{v} changed: {df}")));
                                    }
                                }
                                let (_, problems) = structure::check_struct(&d).await;
                                for p in problems {
                                    out.push(("survivor-struct".into(), format!("{ctx_what}: surviving v{v}: {p}")));
                                }
                                if !s.indices.is_empty() && d.schema().field("k").is_some() {
                                    let with = scan_filter_cells(&d, "k = 1").await;
                                    let mut sc = d.scan();
                                    sc.scan_in_order(true);
                                    sc.use_scalar_index(false);
                                    let without = async {
                                        sc.filter("k = 1")?;
                                        let b: Vec<arrow_array::RecordBatch> =
                                            futures::TryStreamExt::try_collect(sc.try_into_stream().await?).await?;
                                        lance::Result::Ok(cells::batches_rows(&b))
                                    }
                                    .await;
                                    match (with, without) {
                                        (Ok(a), Ok(b)) if a == b => {}
                                        (a, b) => out.push(("survivor-index".into(), format!("{ctx_what}: v{v} indexed query {a:?} vs {b:?}"))),
                                    }
                                }
                            }
                        }
                    }
                }
            }
        }
    }
    (listed, out)
}

async fn tagged_versions(t: &Tbl) -> BTreeSet<u64> {
    match t.open().await {
        Ok(ds) => ds.tags().list().await.map(|m| m.values().map(|c| c.version).collect()).unwrap_or_default(),
        Err(_) => BTreeSet::new(),
    }
}

async fn build_history(ops: &[Op]) -> Result<History, String> {
    let mut t = Tbl::new(HandlerKind::CondPut);
    t.no_auto_cleanup = true;
    let mut all_snaps = BTreeMap::new();
    let mut violations = vec![];
    let mut auto = false;
    let mut full: Vec<Op> = vec![Op::Create];
    full.extend(ops.iter().cloned());
    for (i, op) in full.iter().enumerate() {
        if let Err(e) = apply_op(&t, op).await {
            return Err(format!("history op {i} {op:?} failed: {e}"));
        }
        let ds = t.open().await.map_err(|e| format!("open after op {i}: {e}"))?;
        let v = ds.version().version;
        if !all_snaps.contains_key(&v) {
            all_snaps.insert(v, snap(&ds).await.map_err(|e| e.to_string())?);
        }
        if matches!(op, Op::AutoCleanup { .. }) {
            auto = true;
        }
        if auto {
            // automatic cleanup ran inside the commits: latest, tagged and every listed version intact
            let what = format!("auto-cleanup after op {i} ({})", op.kind());
            let (listed, probs) = survivors_intact(&t, &all_snaps, &what).await;
            violations.extend(probs);
            for tv in tagged_versions(&t).await {
                if !listed.contains(&tv) {
                    violations.push(("auto-removed-tagged".into(), format!("{what}: tagged v{tv} was removed")));
                }
            }
            if !listed.contains(&v) {
                violations.push(("auto-removed-latest".into(), format!("{what}: latest v{v} not listed")));
            }
        }
    }
    Ok(History { ops: ops.to_vec(), snap: t.snapshot(), all_snaps, violations })
}

#[derive(Default)]
struct CaseStats {
    cases: u64,
    stale_cases: u64,
    outcomes: BTreeMap<String, u64>,
    nontrivial: BTreeSet<u64>,
    samples: Vec<Value>,
}

fn selected(policy: &Policy, versions: &[u64], v: u64) -> bool {
    match policy {
        Policy::BeforeVersion(b) => v < *b,
        Policy::RetainN(n) => {
            let cut = if versions.len() <= *n { versions[0] } else { versions[versions.len() - n] };
            v < cut
        }
        Policy::All | Policy::OlderThanZero => true,
    }
}

/// Run one cleanup case on a restored copy of the prepared state and judge it.
async fn run_case(
    c: &CleanCase,
    state: &TblSnap,
    all_snaps: &BTreeMap<u64, VersionSnap>,
    orphans: &[String],
) -> (String, bool, Vec<(String, String)>) {
    let mut t = Tbl::restore(HandlerKind::CondPut, state);
    t.no_auto_cleanup = true;
    let mut out: Vec<(String, String)> = vec![];
    let before_paths: BTreeSet<String> = t.env.store.paths().into_iter().collect();
    let ds = match t.open().await {
        Ok(d) => d,
        Err(e) => return ("setup-error".into(), false, vec![("setup".into(), format!("cannot open prepared state: {e}"))]),
    };
    let latest = ds.version().version;
    let versions_before: Vec<u64> = ds.versions().await.map(|v| v.iter().map(|x| x.version).collect()).unwrap_or_default();
    let tagged = tagged_versions(&t).await;
    // the handle cleanup runs on: the latest, or one pinned at an earlier version (stale handle)
    let ds = match c.handle {
        None => ds,
        Some(h) => match t.open_version(h).await {
            Ok(d) => d,
            Err(e) => return ("setup-error".into(), false, vec![("setup".into(), format!("cannot open handle v{h}: {e}"))]),
        },
    };
    let handle_version = ds.version().version;
    let res = if c.policy == Policy::OlderThanZero {
        catch_async(ds.cleanup_old_versions(Duration::zero(), Some(c.delete_unverified), Some(c.error_if_tagged))).await
    } else {
        let policy = match build_policy(&ds, c).await {
            Ok(p) => p,
            Err(e) => return ("policy-error".into(), false, vec![("policy".into(), e.to_string())]),
        };
        catch_async(ds.cleanup_with_policy(policy)).await
    };
    let after_paths: BTreeSet<String> = t.env.store.paths().into_iter().collect();
    let deleted: Vec<&String> = before_paths.difference(&after_paths).collect();
    let what = format!("after cleanup {:?} unverified={} err_if_tagged={} from a handle at v{handle_version} (latest v{latest})", c.policy, c.delete_unverified, c.error_if_tagged);
    let tagged_old_selected: Vec<u64> = versions_before
        .iter()
        .cloned()
        .filter(|v| tagged.contains(v) && *v < handle_version && selected(&c.policy, &versions_before, *v))
        .collect();
    let mut label;
    match &res {
        Err(p) => {
            out.push(("cleanup-panic".into(), format!("cleanup panicked: {p}")));
            label = "panic".to_string();
        }
        Ok(Err(e)) => {
            label = "error".to_string();
            if c.error_if_tagged && !tagged_old_selected.is_empty() {
                label = "error-tagged".into();
                if !deleted.is_empty() {
                    out.push(("error-but-deleted".into(), format!("cleanup refused (tagged old versions {tagged_old_selected:?}) but deleted {} objects", deleted.len())));
                }
            } else {
                out.push(("cleanup-error".into(), format!("cleanup failed: {e}")));
            }
        }
        Ok(Ok(_)) => {
            label = "ok".to_string();
        }
    }
    let (listed, probs) = survivors_intact(&t.actor(9, None), all_snaps, &what).await;
    out.extend(probs);
    let removed: Vec<u64> = versions_before.iter().cloned().filter(|v| !listed.contains(v)).collect();
    for v in &removed {
        if *v == latest {
            out.push(("removed-latest".into(), format!("{what}: latest v{v} was removed")));
        } else if tagged.contains(v) {
            out.push(("removed-tagged".into(), format!("{what}: tagged v{v} was removed")));
        } else if !selected(&c.policy, &versions_before, *v) {
            out.push(("removed-unselected".into(), format!("{what}: v{v} is not selected by the policy but was removed")));
        }
    }
    if let Ok(Ok(stats)) = &res {
        if stats.old_versions != removed.len() as u64 {
            out.push(("stats-old-versions".into(), format!("{what}: RemovalStats.old_versions = {} but {} manifests disappeared ({removed:?})", stats.old_versions, removed.len())));
        }
    }
    // unverified young files are never deleted unless explicitly requested
    let orphans_deleted = orphans.iter().filter(|p| !after_paths.contains(*p)).count();
    if c.env.orphan == "young" && !c.delete_unverified && orphans_deleted > 0 {
        out.push(("young-unverified-deleted".into(), format!("{what}: {orphans_deleted} of {} files of an in-progress write younger than 7 days were deleted", orphans.len())));
    }
    let data_deleted = deleted.iter().filter(|p| path_class(p) != "manifest").count();
    label = format!(
        "{label} removed={} files_deleted={} orphans_deleted={}/{}",
        removed.len().min(3),
        if data_deleted > 0 { ">0" } else { "0" },
        orphans_deleted.min(1),
        orphans.len().min(1)
    );
    let nontrivial = !removed.is_empty() || data_deleted > 0 || label.starts_with("error");
    (label, nontrivial, out)
}

fn alphabet(ctx: &Ctx) -> Vec<Op> {
    let mut v = vec![
        Op::Append { from: 100, n: 2, max_rows_per_file: 1000 },
        Op::Overwrite { from: 200, n: 2 },
        Op::Delete("k = 0".into()),
        Op::Compact,
        Op::CreateIndexBtree,
        Op::TagLatest("t".into()),
        Op::AutoCleanup { interval: 1, retain: 1 },
    ];
    if !ctx.quick() {
        v.push(Op::Update { col: "v".into(), val: "'z'".into(), pred: "k >= 1".into() });
        v.push(Op::AutoCleanup { interval: 2, retain: 2 });
        v.push(Op::Delete("k >= 1".into()));
    }
    v
}

fn histories(ctx: &Ctx) -> Vec<Vec<Op>> {
    let a = alphabet(ctx);
    let depth = ctx.tier.pick(2usize, 3usize);
    let mut out: Vec<Vec<Op>> = vec![vec![]];
    let mut frontier: Vec<Vec<Op>> = vec![vec![]];
    for _ in 0..depth {
        let mut next = vec![];
        for h in &frontier {
            for op in &a {
                // a tag name can be used once; identical consecutive appends need distinct uids
                if matches!(op, Op::TagLatest(_)) && h.iter().any(|o| matches!(o, Op::TagLatest(_))) {
                    continue;
                }
                if matches!(op, Op::CreateIndexBtree) && h.iter().any(|o| matches!(o, Op::CreateIndexBtree)) {
                    continue;
                }
                let mut h2 = h.clone();
                let op = match op {
                    Op::Append { n, max_rows_per_file, .. } => Op::Append { from: 100 + 10 * h.len() as i32, n: *n, max_rows_per_file: *max_rows_per_file },
                    o => o.clone(),
                };
                h2.push(op);
                next.push(h2);
            }
        }
        out.extend(next.iter().cloned());
        frontier = next;
    }
    out
}

struct HistReport {
    stats: CaseStats,
    violations: Vec<Violation>,
    err: Option<String>,
}

fn run_history(ctx: &Ctx, ops: Vec<Op>, deadline: std::time::Instant) -> HistReport {
    let mut rep = HistReport { stats: CaseStats::default(), violations: vec![], err: None };
    let r = vds::run_catch(async {
        let h = match build_history(&ops).await {
            Ok(h) => h,
            Err(e) => {
                // an op that is not applicable in this history (e.g. compaction with nothing to do is fine,
                // real failures are reported)
                return Err(e);
            }
        };
        let mut viols: Vec<(String, String, Value)> = h
            .violations
            .iter()
            .map(|(o, w)| (o.clone(), w.clone(), json!({"ops": h.ops})))
            .collect();
        let mut stats = CaseStats::default();
        let envs = [
            EnvVariant { aged: false, orphan: "young".into() },
            EnvVariant { aged: true, orphan: "aged".into() },
            EnvVariant { aged: true, orphan: "young".into() },
        ];
        for env in envs.iter() {
            let t = Tbl::restore(HandlerKind::CondPut, &h.snap);
            let mut orphans = vec![];
            if env.orphan == "aged" {
                orphans = make_orphan(&t).await?;
            }
            if env.aged {
                t.env.store.age_all(Duration::days(8));
            }
            if env.orphan == "young" {
                orphans = make_orphan(&t).await?;
            }
            let state = t.snapshot();
            let ds = t.open().await.map_err(|e| e.to_string())?;
            let latest = ds.version().version;
            let has_tags = !tagged_versions(&t).await.is_empty();
            let mut policies: Vec<Policy> = (1..=latest + 1).map(Policy::BeforeVersion).collect();
            policies.push(Policy::RetainN(1));
            policies.push(Policy::RetainN(2));
            policies.push(Policy::All);
            policies.push(Policy::OlderThanZero);
            // handles: the latest, and one pinned at every earlier listed version
            let listed: Vec<u64> = ds.versions().await.map(|v| v.iter().map(|x| x.version).collect()).unwrap_or_default();
            let mut handles: Vec<Option<u64>> = vec![None];
            handles.extend(listed.iter().filter(|v| **v < latest).map(|v| Some(*v)));
            for (hd, p) in handles.iter().flat_map(|hd| policies.iter().map(move |p| (*hd, p.clone()))) {
                for du in [false, true] {
                    for eit in if has_tags { vec![false, true] } else { vec![false] } {
                        if std::time::Instant::now() > deadline {
                            return Err("WALL-CAP".into());
                        }
                        let c = CleanCase { ops: h.ops.clone(), env: env.clone(), policy: p.clone(), delete_unverified: du, error_if_tagged: eit, handle: hd };
                        let (label, nontrivial, probs) = run_case(&c, &state, &h.all_snaps, &orphans).await;
                        stats.cases += 1;
                        if hd.is_some() {
                            stats.stale_cases += 1;
                        }
                        *stats.outcomes.entry(format!("handle={} aged={} orphan={} unverified={du}: {label}", if hd.is_some() { "stale" } else { "latest" }, env.aged, env.orphan)).or_insert(0) += 1;
                        let cv = serde_json::to_value(&c).unwrap();
                        if nontrivial {
                            stats.nontrivial.insert(vcore::hash64(cv.to_string().as_bytes()));
                            if stats.samples.len() < 2 {
                                stats.samples.push(json!({"case": cv, "outcome": label}));
                            }
                        }
                        for (o, w) in probs {
                            viols.push((o, w, cv.clone()));
                        }
                    }
                }
            }
        }
        Ok((stats, viols))
    });
    match r {
        Err(p) => rep.err = Some(format!("panic in harness for {ops:?}: {p}")),
        Ok(Err(e)) => rep.err = Some(format!("{ops:?}: {e}")),
        Ok(Ok((stats, viols))) => {
            rep.stats = stats;
            for (o, w, case) in viols {
                let kinds: Vec<&str> = ops.iter().map(|x| x.kind()).collect();
                // key: oracle + the op kinds of the history (sorted, de-duplicated) – the shape that fails
                let mut ks: Vec<&str> = kinds.clone();
                ks.sort();
                ks.dedup();
                let key = if o.ends_with("-panic") {
                    format!("C08/hist/{o}/{}", last_panic_site())
                } else {
                    format!("C08/hist/{o}/{}", ks.join("+"))
                };
                rep.violations.push(Violation::new(&o, &key, format!("history {kinds:?}: {w}"), case));
            }
        }
    }
    let _ = ctx;
    rep
}

// ------------------------------------------------------------------------------------------------
// (b) cleanup ∥ writer

#[derive(Clone, Debug, Serialize, Deserialize)]
pub struct RaceCfg {
    pub writer: Op,
    pub aged: bool,
    pub policy: Policy,
    pub delete_unverified: bool,
}

pub struct CleanRace {
    cfg: RaceCfg,
    pre: TblSnap,
    pre_snaps: BTreeMap<u64, VersionSnap>,
    stats: Mutex<BTreeMap<String, u64>>,
}

impl CleanRace {
    fn prepare(cfg: RaceCfg) -> Result<Self, String> {
        block_on(async {
            let mut t = Tbl::new(HandlerKind::CondPut);
            t.no_auto_cleanup = true;
            for op in [
                Op::Create,
                Op::Overwrite { from: 10, n: 3 },
                Op::Append { from: 20, n: 3, max_rows_per_file: 1000 },
                Op::Delete("k = 0".into()),
            ] {
                apply_op(&t, &op).await.map_err(|e| format!("race pre-state {op:?}: {e}"))?;
            }
            if cfg.aged {
                t.env.store.age_all(Duration::days(8));
            }
            let pre_snaps = snap_all(&t).await.map_err(|e| e.to_string())?;
            Ok(Self { pre: t.snapshot(), pre_snaps, cfg, stats: Mutex::new(BTreeMap::new()) })
        })
    }
}

impl Scenario for CleanRace {
    type World = Tbl;
    fn name(&self) -> String {
        serde_json::to_string(&self.cfg).unwrap()
    }
    async fn setup(&self, gate: &Gate) -> (Tbl, Vec<ActorFut>) {
        let mut t = Tbl::restore(HandlerKind::CondPut, &self.pre);
        t.no_auto_cleanup = true;
        let mut actors: Vec<ActorFut> = vec![];
        // actor 0: cleanup
        let ctl = ActorCtl::new(gate, self.gate_rule());
        let a = t.actor(0, Some(&ctl));
        let cfg = self.cfg.clone();
        actors.push(Box::pin(async move {
            let opened = std::sync::atomic::AtomicU64::new(0);
            let r = async {
                let ds = a.open().await?;
                opened.store(ds.version().version, std::sync::atomic::Ordering::SeqCst);
                let c = CleanCase { ops: vec![], env: EnvVariant { aged: cfg.aged, orphan: "none".into() }, policy: cfg.policy.clone(), delete_unverified: cfg.delete_unverified, error_if_tagged: false, handle: None };
                let p = build_policy(&ds, &c).await?;
                ds.cleanup_with_policy(p).await
            }
            .await;
            let opened = opened.load(std::sync::atomic::Ordering::SeqCst);
            match r {
                Ok(s) => ActorResult::ok(json!({"old_versions": s.old_versions, "opened": opened})),
                Err(e) => ActorResult::err(err_class(&e), json!({"error": e.to_string(), "opened": opened})),
            }
        }));
        // actor 1: writer
        let ctl = ActorCtl::new(gate, self.gate_rule()).with_attempt_budget(HandlerKind::CondPut, 3);
        let a = t.actor(1, Some(&ctl));
        let op = self.cfg.writer.clone();
        actors.push(Box::pin(async move {
            tokio::select! {
                biased;
                r = apply_op(&a, &op) => match r {
                    Ok(l) => ActorResult::ok(json!(l)),
                    Err(e) => ActorResult::err(err_class(&e), json!(e.to_string())),
                },
                _ = ctl.killed() => ActorResult::err("killed-after-budget", json!(null)),
            }
        }));
        (t, actors)
    }
    /// Gated: cleanup's listings and deletes and everything it does under `_versions/` / `_refs/`;
    /// the writer's mutating calls and its `_versions/` reads. Un-gated: cleanup's reads of
    /// immutable data-side objects and the writer's reads of data files (they commute with the other
    /// actor's calls unless the object is deleted – deletes are gated on the cleanup side, and a
    /// writer read that misses a deleted file fails the writer, which the oracle accepts).
    fn gate_rule(&self) -> GateFn {
        Arc::new(|a, c: &Call| {
            let meta = c.path.contains("_versions") || c.path.contains("_refs");
            if a == 0 {
                matches!(c.verb, Verb::List | Verb::ListDelim | Verb::Delete) || meta
            } else {
                c.verb.mutating() || meta
            }
        })
    }
    fn state_hash(&self, w: &Tbl) -> u64 {
        w.shape_hash()
    }
    async fn final_check(&self, w: &Tbl, exec: &Exec) -> Vec<Violation> {
        let labels: Vec<String> = exec
            .ends
            .iter()
            .map(|e| match e {
                Some(ActorEnd::Finished(r)) => r.label.clone(),
                Some(ActorEnd::Crashed) => "crashed".into(),
                Some(ActorEnd::Panicked(_)) => "panicked".into(),
                None => "unfinished".into(),
            })
            .collect();
        let mut out: Vec<(String, String)> = vec![];
        for (i, e) in exec.ends.iter().enumerate() {
            if let Some(ActorEnd::Panicked(m)) = e {
                out.push((if i == 0 { "cleanup-panic".into() } else { "writer-panic".into() }, m.clone()));
            }
        }
        let what = format!("cleanup {:?} ∥ {}", self.cfg.policy, self.cfg.writer.kind());
        let r = w.actor(9, None);
        let (listed, probs) = survivors_intact(&r, &self.pre_snaps, &what).await;
        out.extend(probs);
        let latest_pre = *self.pre_snaps.keys().max().unwrap();
        // the version the cleanup's own handle was opened at (the latest it knew) must survive
        let opened = match &exec.ends[0] {
            Some(ActorEnd::Finished(r)) => r.detail["opened"].as_u64().unwrap_or(0),
            _ => 0,
        };
        if opened > 0 && !listed.contains(&opened) {
            out.push(("removed-latest".into(), format!("{what}: v{opened} (latest when cleanup opened the table) is gone")));
        }
        let writer_ok = labels.get(1).map(|l| l == "ok").unwrap_or(false);
        let max_listed = listed.iter().max().cloned().unwrap_or(0);
        if writer_ok && max_listed <= latest_pre && !matches!(self.cfg.writer, Op::Compact) {
            out.push(("writer-ok-no-version".into(), format!("{what}: writer reported success but no new version is listed")));
        }
        // where (relative to the cleanup's deletes) the writer published
        let first_delete = exec.points.iter().position(|p| p.actor() == 0 && p.call().verb == Verb::Delete);
        let publish = exec.points.iter().position(|p| p.actor() == 1 && is_publish_call(HandlerKind::CondPut, p.call()));
        let rel = match (first_delete, publish) {
            (Some(d), Some(p)) if p < d => "publish-before-deletes",
            (Some(_), Some(_)) => "publish-after-first-delete",
            (None, Some(_)) => "no-deletes",
            (_, None) => "no-publish",
        };
        *self
            .stats
            .lock()
            .unwrap()
            .entry(format!("cleanup={} writer={} {rel} versions_left={}", labels[0], labels[1], listed.len()))
            .or_insert(0) += 1;
        out.into_iter()
            .map(|(o, wh)| {
                let key = if o.ends_with("-panic") {
                    format!("C08/race/{o}/{}", last_panic_site())
                } else {
                    format!("C08/race/{}/{o}", self.cfg.writer.kind())
                };
                Violation::new(&o, &key, format!("[aged={} unverified={}] {wh}", self.cfg.aged, self.cfg.delete_unverified), Value::Null)
            })
            .collect()
    }
    async fn monitor(&self, _w: &Tbl, _p: &PointRec) -> Vec<Violation> {
        vec![]
    }
}

fn race_cfgs(ctx: &Ctx) -> Vec<RaceCfg> {
    let mut writers = vec![
        Op::Append { from: 100, n: 2, max_rows_per_file: 1000 },
        Op::Delete("k = 1".into()),
        Op::Restore(1),
    ];
    if !ctx.quick() {
        writers.extend([Op::Compact, Op::CreateIndexBtree, Op::Restore(3), Op::Update { col: "v".into(), val: "'z'".into(), pred: "k >= 1".into() }]);
    }
    let mut v = vec![];
    for w in writers {
        for aged in [false, true] {
            if ctx.quick() && aged && !matches!(w, Op::Append { .. }) {
                continue;
            }
            v.push(RaceCfg { writer: w.clone(), aged, policy: Policy::BeforeVersion(4), delete_unverified: false });
            if !ctx.quick() {
                v.push(RaceCfg { writer: w.clone(), aged, policy: Policy::All, delete_unverified: false });
            }
        }
    }
    v
}

fn replay(art: &Value) -> Outcome {
    let mut out = Outcome::new("model_checking");
    let case = &art["case"];
    let want = art["key"].as_str().unwrap_or("");
    if let Some(scn_s) = case["scenario"].as_str() {
        let cfg: RaceCfg = serde_json::from_str(scn_s).unwrap_or_else(|_| vcore::machinery_error("bad race scenario in artefact"));
        let choices: Vec<(usize, usize)> = serde_json::from_value(case["choices"].clone()).unwrap_or_else(|_| vcore::machinery_error("no choices"));
        let scn = CleanRace::prepare(cfg).unwrap_or_else(|e| vcore::machinery_error(&e));
        let b = Bounds { preemptions: 99, deviations: 99, hang_s: 30.0, ..Default::default() };
        let exec = sched::replay(&scn, &choices, &b);
        if let Some(h) = &exec.hang {
            vcore::machinery_error(&format!("replay did not complete: {h}"));
        }
        for mut v in exec.violations {
            if want.is_empty() || v.key == want {
                v.case = case.clone();
                out.violations.push(v);
            }
        }
        out.set("samples", json!([exec.points.iter().map(|p| p.norm()).collect::<Vec<_>>()]));
    } else {
        let c: CleanCase = serde_json::from_value(case.clone()).unwrap_or_else(|_| vcore::machinery_error("bad cleanup case in artefact"));
        let r = vds::run_catch(async {
            let h = build_history(&c.ops).await?;
            let t = Tbl::restore(HandlerKind::CondPut, &h.snap);
            let mut orphans = vec![];
            if c.env.orphan == "aged" {
                orphans = make_orphan(&t).await?;
            }
            if c.env.aged {
                t.env.store.age_all(Duration::days(8));
            }
            if c.env.orphan == "young" {
                orphans = make_orphan(&t).await?;
            }
            let state = t.snapshot();
            let mut probs: Vec<(String, String)> = h.violations.clone();
            probs.extend(run_case(&c, &state, &h.all_snaps, &orphans).await.2);
            Ok::<_, String>(probs)
        });
        match r {
            Ok(Ok(probs)) => {
                for (o, w) in probs {
                    if want.is_empty() || want.contains(&format!("/{o}/")) {
                        out.violations.push(Violation::new(&o, want, w, case.clone()));
                    }
                }
            }
            other => vcore::machinery_error(&format!("replay failed: {other:?}")),
        }
        out.set("samples", json!([case]));
    }
    out.set("states", 1u64);
    out.set("transitions", 1u64);
    out.set("traces_validated_against_impl", 1u64);
    out
}

pub fn run(ctx: &Ctx) -> Outcome {
    if let Some(art) = ctx.replay_case() {
        return replay(&art);
    }
    let mut out = Outcome::new("model_checking");
    let start = std::time::Instant::now();
    let wall_a = ctx.tier.pick(24.0, 480.0);
    let wall_total = ctx.tier.pick(42.0, 800.0);
    // ---- (a) histories × ages × policies
    let mut hs = histories(ctx);
    if let Some(f) = ctx.opts.get("only") {
        if f == "race" {
            hs.clear();
        }
    }
    let n_hist = hs.len();
    let deadline = start + std::time::Duration::from_secs_f64(wall_a);
    let reps = vcore::par_map(hs, ctx.workers, |_, ops| run_history(ctx, ops, deadline));
    let mut stats = CaseStats::default();
    let mut cap: Option<String> = None;
    let mut errs = vec![];
    let mut hist_done = 0u64;
    for r in reps {
        match r.err {
            Some(e) if e.ends_with("WALL-CAP") => cap = Some(format!("wall cap {wall_a}s hit in the history part")),
            Some(e) => errs.push(e),
            None => hist_done += 1,
        }
        stats.cases += r.stats.cases;
        stats.stale_cases += r.stats.stale_cases;
        for (k, v) in r.stats.outcomes {
            *stats.outcomes.entry(k).or_insert(0) += v;
        }
        stats.nontrivial.extend(r.stats.nontrivial);
        for s in r.stats.samples {
            if stats.samples.len() < 5 {
                stats.samples.push(s);
            }
        }
        out.violations.extend(r.violations);
    }
    if !errs.is_empty() {
        vcore::machinery_error(&format!("C08 history harness errors: {}", errs.join(" | ").chars().take(1500).collect::<String>()));
    }
    // ---- (b) cleanup ∥ writer
    let mut total = SchedReport::default();
    let mut race_items = vec![];
    let mut race_outcomes: BTreeMap<String, u64> = BTreeMap::new();
    let cfgs = if ctx.opts.get("only").map(|f| f == "hist").unwrap_or(false) { vec![] } else { race_cfgs(ctx) };
    for cfg in cfgs {
        let left = wall_total - start.elapsed().as_secs_f64();
        if left < 1.0 {
            cap = Some(format!("wall cap {wall_total}s: race {:?} not run", cfg.writer.kind()));
            continue;
        }
        let scn = match CleanRace::prepare(cfg.clone()) {
            Ok(s) => s,
            Err(e) => vcore::machinery_error(&format!("race prepare: {e}")),
        };
        let b = Bounds {
            preemptions: ctx.tier.pick(2, 3),
            deviations: 0,
            max_schedules: ctx.tier.pick(20_000, 500_000),
            wall_s: left,
            hang_s: 30.0,
            max_points: 400,
        };
        let t0 = std::time::Instant::now();
        let rep = sched::explore(&scn, &b, ctx.workers);
        if !rep.machinery_errors.is_empty() {
            vcore::machinery_error(&format!("race {:?}: {}", cfg, rep.machinery_errors.join(" | ").chars().take(1000).collect::<String>()));
        }
        let st = scn.stats.lock().unwrap().clone();
        if ctx.opts.contains_key("debug") {
            eprintln!("race {:?} aged={} schedules={} max_points={} cap={:?} wall={:.1}s stats={:#?}", cfg.writer.kind(), cfg.aged, rep.schedules, rep.max_points, rep.cap_hit, t0.elapsed().as_secs_f64(), st);
            for v in rep.violations.iter().take(2) {
                eprintln!("VIOL {} :: {}\n trace {:#?}", v.key, v.what, v.case["trace"]);
            }
        }
        if st.len() < 2 && rep.cap_hit.is_none() {
            vcore::machinery_error(&format!("vacuous race {:?}: single outcome {st:?}", cfg));
        }
        for (k, v) in st {
            *race_outcomes.entry(format!("{}{}: {k}", cfg.writer.kind(), if cfg.aged { "/aged" } else { "" })).or_insert(0) += v;
        }
        race_items.push(json!({"writer": cfg.writer.kind(), "aged": cfg.aged, "policy": cfg.policy, "schedules": rep.schedules, "max_decision_points": rep.max_points, "bounds": rep.bounds, "cap_hit": rep.cap_hit}));
        out.violations.extend(rep.violations.iter().cloned());
        total.merge(rep);
    }
    if total.cap_hit.is_some() && cap.is_none() {
        cap = total.cap_hit.clone();
    }
    total.fill(&mut out);
    // fold the history part into the model-checking counters: every case is one explored state
    // (store after cleanup) reached by one transition, every case is an implementation trace
    let states = total.states + stats.cases;
    out.set("states", states.max(1));
    out.set("transitions", (total.transitions + stats.cases).max(1));
    out.set("traces_validated_against_impl", total.schedules + stats.cases);
    let mut samples = stats.samples.clone();
    samples.extend(total.samples.iter().take(3).cloned());
    out.set("samples", Value::Array(samples));
    out.set("histories", n_hist as u64);
    out.set("histories_completed", hist_done);
    out.set("cleanup_cases", stats.cases);
    out.set("cleanup_cases_from_stale_handle", stats.stale_cases);
    out.set("cleanup_cases_nontrivial", stats.nontrivial.len() as u64);
    out.set("nontrivial_rule", "cleanup cases in which at least one manifest or file was removed, or cleanup refused because of a tagged old version");
    let mut oc: BTreeMap<String, u64> = stats.outcomes.clone();
    for (k, v) in race_outcomes {
        oc.insert(format!("race {k}"), v);
    }
    out.set("distinct_outcomes", json!(oc));
    out.set("race_items", Value::Array(race_items));
    out.set("exhaustive", cap.is_none());
    if let Some(c) = cap {
        out.set("cap_hit", c);
    }
    if stats.cases > 0 && stats.nontrivial.len() < 2 {
        vcore::machinery_error("vacuous: no cleanup case removed anything");
    }
    out.assume("object ages are MemStore last_modified stamps shifted by age_all(8 days); manifest commit timestamps are real wall-clock (no clock hook H1): policies by wall-clock time (before_timestamp relative to commit times, lance.auto_cleanup.older_than) are NOT covered");
    out.assume("orphan files are produced by a real append crashed right before its manifest put");
    out.assume("race part: cleanup's reads of data-side objects and the writer's data-file reads are un-gated (argued to commute); concurrent calls of one actor are serialised in arrival order; sequentially consistent interleavings");
    out
}
