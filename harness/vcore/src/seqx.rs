//! K1/K2: explicit-state search over operation sequences on the real object.
//!
//! Level-synchronous breadth-first search: all states of depth d are expanded (in parallel, one
//! worker thread per state) with every enabled op; children are de-duplicated on `canon` in a
//! deterministic order (parent index, op index) and form level d+1. Breadth-first order means the
//! first violation reported for a key is also a shortest one, so no separate minimiser is needed.
//! A state below a violating transition is not expanded (model and implementation already
//! disagree there).

use crate::{par_map, Violation};
use serde::{de::DeserializeOwned, Serialize};
use serde_json::{json, Value};
use std::collections::{BTreeMap, HashSet};
use std::fmt::Debug;
use std::time::Instant;

pub struct Step<S> {
    /// successor state (None = op not applicable / state unchanged and not worth expanding)
    pub next: Option<S>,
    /// outcome class label (e.g. "ok", "conflict", "rejected"); counted per op kind in the report
    pub outcome: String,
    pub violations: Vec<Violation>,
}

impl<S> Step<S> {
    pub fn ok(next: S, outcome: &str) -> Self {
        Self {
            next: Some(next),
            outcome: outcome.to_string(),
            violations: vec![],
        }
    }
}

pub trait Sut: Sync {
    type State: Clone + Send + Sync;
    type Op: Clone + Send + Sync + Serialize + DeserializeOwned + Debug;
    /// labelled initial states
    fn init(&self) -> Vec<(String, Self::State)>;
    /// enabled alphabet in this state (simplest first)
    fn ops(&self, st: &Self::State, depth: usize) -> Vec<Self::Op>;
    /// apply `op` to the real object and the model, evaluate all oracles
    fn step(&self, st: &Self::State, op: &Self::Op) -> Step<Self::State>;
    /// fingerprint of the canonical form of a state
    fn canon(&self, st: &Self::State) -> u64;
    /// short kind label of an op for the outcome histogram
    fn op_kind(&self, op: &Self::Op) -> String {
        let s = format!("{op:?}");
        s.split(|c: char| !c.is_alphanumeric() && c != '_')
            .next()
            .unwrap_or("op")
            .to_string()
    }
}

#[derive(Clone, Debug)]
pub struct Caps {
    pub max_depth: usize,
    pub max_states: usize,
    pub wall_s: f64,
}

#[derive(Default, Debug)]
pub struct Report {
    pub states: u64,
    pub transitions: u64,
    pub max_depth: usize,
    pub level_sizes: Vec<usize>,
    pub outcomes: BTreeMap<String, u64>,
    pub violations: Vec<Violation>,
    pub samples: Vec<Value>,
    pub cap_hit: Option<String>,
    pub pruned_below_violation: u64,
}

impl Report {
    pub fn distinct_outcomes(&self) -> usize {
        self.outcomes.len()
    }
    pub fn merge(&mut self, o: Report) {
        self.states += o.states;
        self.transitions += o.transitions;
        self.max_depth = self.max_depth.max(o.max_depth);
        for (i, s) in o.level_sizes.iter().enumerate() {
            if self.level_sizes.len() <= i {
                self.level_sizes.push(0);
            }
            self.level_sizes[i] += s;
        }
        for (k, v) in o.outcomes {
            *self.outcomes.entry(k).or_insert(0) += v;
        }
        self.violations.extend(o.violations);
        for s in o.samples {
            if self.samples.len() < 8 {
                self.samples.push(s);
            }
        }
        if self.cap_hit.is_none() {
            self.cap_hit = o.cap_hit;
        }
        self.pruned_below_violation += o.pruned_below_violation;
    }
    /// fill the model_checking keys of the evidence schema
    pub fn fill(&self, out: &mut crate::Outcome) {
        out.set("states", self.states);
        out.set("transitions", self.transitions);
        out.set("traces_validated_against_impl", self.transitions);
        out.set("max_depth", self.max_depth as u64);
        out.set("level_sizes", json!(self.level_sizes));
        out.set("distinct_outcomes", json!(self.outcomes));
        out.set("samples", Value::Array(self.samples.clone()));
        out.set("exhaustive", self.cap_hit.is_none());
        out.set("pruned_below_violation", self.pruned_below_violation);
        if let Some(c) = &self.cap_hit {
            out.set("cap_hit", c.clone());
        }
    }
}

struct Node<S> {
    state: S,
    root: String,
    trace: Vec<Value>,
}

pub fn explore<S: Sut>(sut: &S, caps: &Caps, workers: usize) -> Report {
    let start = Instant::now();
    let mut rep = Report::default();
    let mut seen: HashSet<u64> = HashSet::new();
    let mut frontier: Vec<Node<S::State>> = vec![];
    for (label, st) in sut.init() {
        let c = sut.canon(&st);
        if seen.insert(c) {
            frontier.push(Node {
                state: st,
                root: label,
                trace: vec![],
            });
        }
    }
    rep.states = frontier.len() as u64;
    rep.level_sizes.push(frontier.len());
    let mut depth = 0usize;
    while !frontier.is_empty() && depth < caps.max_depth {
        if start.elapsed().as_secs_f64() > caps.wall_s {
            rep.cap_hit = Some(format!(
                "wall cap {}s reached before expanding depth {}",
                caps.wall_s, depth
            ));
            break;
        }
        let deadline = caps.wall_s;
        let results = par_map(
            std::mem::take(&mut frontier),
            workers,
            |_, node: Node<S::State>| {
                let mut out = vec![];
                if start.elapsed().as_secs_f64() > deadline {
                    return (node, out, true);
                }
                for op in sut.ops(&node.state, depth) {
                    let step = sut.step(&node.state, &op);
                    let canon = step.next.as_ref().map(|s| sut.canon(s));
                    out.push((op, step, canon));
                }
                (node, out, false)
            },
        );
        let mut next: Vec<Node<S::State>> = vec![];
        for (node, steps, timed_out) in results {
            if timed_out {
                rep.cap_hit = Some(format!(
                    "wall cap {}s reached while expanding depth {}",
                    caps.wall_s, depth
                ));
                continue;
            }
            for (op, step, canon) in steps {
                rep.transitions += 1;
                let opv = serde_json::to_value(&op).unwrap_or(Value::Null);
                let mut trace = node.trace.clone();
                trace.push(opv);
                *rep.outcomes
                    .entry(format!("{}:{}", sut.op_kind(&op), step.outcome))
                    .or_insert(0) += 1;
                if rep.samples.len() < 8 && (rep.transitions % 97 == 1 || depth + 1 == caps.max_depth)
                {
                    rep.samples
                        .push(json!({"root": node.root, "ops": trace, "outcome": step.outcome}));
                }
                let violated = !step.violations.is_empty();
                for mut v in step.violations {
                    v.case = json!({"root": node.root, "ops": trace, "detail": v.case});
                    rep.violations.push(v);
                }
                if violated {
                    rep.pruned_below_violation += 1;
                    continue;
                }
                if let (Some(st), Some(c)) = (step.next, canon) {
                    if seen.insert(c) {
                        if seen.len() > caps.max_states {
                            rep.cap_hit = Some(format!("state cap {} reached", caps.max_states));
                            continue;
                        }
                        next.push(Node {
                            state: st,
                            root: node.root.clone(),
                            trace,
                        });
                    }
                }
            }
        }
        depth += 1;
        rep.max_depth = depth;
        rep.states += next.len() as u64;
        rep.level_sizes.push(next.len());
        frontier = next;
        if rep.cap_hit.is_some() {
            break;
        }
    }
    rep
}

/// Re-execute one recorded op list from the named root without the explorer.
pub fn replay<S: Sut>(sut: &S, case: &Value) -> Result<Vec<Violation>, String> {
    let root = case
        .get("root")
        .and_then(|r| r.as_str())
        .ok_or("replay case has no root")?;
    let ops = case
        .get("ops")
        .and_then(|o| o.as_array())
        .ok_or("replay case has no ops")?;
    let mut st = sut
        .init()
        .into_iter()
        .find(|(l, _)| l == root)
        .ok_or(format!("unknown root {root}"))?
        .1;
    let mut trace = vec![];
    for o in ops {
        let op: S::Op = serde_json::from_value(o.clone()).map_err(|e| format!("bad op: {e}"))?;
        trace.push(o.clone());
        let step = sut.step(&st, &op);
        if !step.violations.is_empty() {
            return Ok(step
                .violations
                .into_iter()
                .map(|mut v| {
                    v.case = json!({"root": root, "ops": trace, "detail": v.case});
                    v
                })
                .collect());
        }
        match step.next {
            Some(n) => st = n,
            None => return Err("op not applicable during replay".into()),
        }
    }
    Ok(vec![])
}
