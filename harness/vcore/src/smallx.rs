//! K5: bounded-exhaustive enumeration helpers (odometers – no randomness anywhere).

/// Visit every index vector of the cartesian product `0..dims[0] x 0..dims[1] x ...`.
/// `f` returns false to stop. Returns true when the whole space was visited.
pub fn product(dims: &[usize], mut f: impl FnMut(&[usize]) -> bool) -> bool {
    if dims.iter().any(|d| *d == 0) {
        return true;
    }
    let mut idx = vec![0usize; dims.len()];
    loop {
        if !f(&idx) {
            return false;
        }
        let mut k = dims.len();
        loop {
            if k == 0 {
                return true;
            }
            k -= 1;
            idx[k] += 1;
            if idx[k] < dims[k] {
                break;
            }
            idx[k] = 0;
        }
    }
}

/// All sequences over `0..alphabet` of length `min_len..=max_len`, shortest first.
pub fn sequences(alphabet: usize, min_len: usize, max_len: usize) -> Vec<Vec<usize>> {
    let mut out = vec![];
    for len in min_len..=max_len {
        if len == 0 {
            out.push(vec![]);
            continue;
        }
        let dims = vec![alphabet; len];
        product(&dims, |ix| {
            out.push(ix.to_vec());
            true
        });
    }
    out
}

/// All subsets of `0..n` as bit masks (n <= 20).
pub fn subsets(n: usize) -> impl Iterator<Item = u32> {
    assert!(n <= 20);
    0..(1u32 << n)
}

pub fn mask_to_vec(mask: u32, n: usize) -> Vec<usize> {
    (0..n).filter(|i| mask & (1 << i) != 0).collect()
}

/// All permutations of `0..n` (Heap's algorithm, n <= 8).
pub fn permutations(n: usize) -> Vec<Vec<usize>> {
    assert!(n <= 8);
    let mut out = vec![];
    let mut a: Vec<usize> = (0..n).collect();
    fn rec(k: usize, a: &mut Vec<usize>, out: &mut Vec<Vec<usize>>) {
        if k <= 1 {
            out.push(a.clone());
            return;
        }
        for i in 0..k {
            rec(k - 1, a, out);
            if k % 2 == 0 {
                a.swap(i, k - 1);
            } else {
                a.swap(0, k - 1);
            }
        }
    }
    rec(n, &mut a, &mut out);
    out.sort();
    out.dedup();
    out
}

/// Every validity pattern of `n` slots as Vec<bool> (true = valid).
pub fn validity_patterns(n: usize) -> Vec<Vec<bool>> {
    subsets(n)
        .map(|m| (0..n).map(|i| m & (1 << i) != 0).collect())
        .collect()
}

/// Split `items` into at most `parts` contiguous slices of near-equal size (work items for par_map).
pub fn chunks<T: Clone>(items: &[T], parts: usize) -> Vec<Vec<T>> {
    if items.is_empty() {
        return vec![];
    }
    let parts = parts.max(1).min(items.len());
    let sz = items.len().div_ceil(parts);
    items.chunks(sz).map(|c| c.to_vec()).collect()
}

#[cfg(test)]
mod tests {
    use super::*;
    #[test]
    fn product_counts() {
        let mut n = 0;
        assert!(product(&[2, 3, 4], |_| {
            n += 1;
            true
        }));
        assert_eq!(n, 24);
        assert_eq!(sequences(3, 0, 2).len(), 1 + 3 + 9);
        assert_eq!(permutations(4).len(), 24);
    }
}
