//! vcore: shared plumbing for every check binary.
//!
//! * command-line / tier / seed handling (`Ctx`)
//! * violations, known-findings matching, replay artefacts, exit codes
//! * evidence files (EVIDENCE.schema.json)
//! * `par_map` (worker threads), odometer helpers for bounded-exhaustive enumeration (K5)
//! * `seqx`: level-synchronous explicit-state search over operation sequences (K1/K2)

pub mod seqx;
pub mod smallx;

use serde::{Deserialize, Serialize};
use serde_json::{json, Map, Value};
use std::collections::BTreeMap;
use std::path::PathBuf;
use std::sync::atomic::{AtomicUsize, Ordering};
use std::time::Instant;

#[derive(Clone, Copy, Debug, PartialEq, Eq)]
pub enum Tier {
    Quick,
    Thorough,
}

impl Tier {
    pub fn name(&self) -> &'static str {
        match self {
            Tier::Quick => "quick",
            Tier::Thorough => "thorough",
        }
    }
    pub fn pick<T>(&self, quick: T, thorough: T) -> T {
        match self {
            Tier::Quick => quick,
            Tier::Thorough => thorough,
        }
    }
}

#[derive(Clone, Debug)]
pub struct Ctx {
    pub id: String,
    pub tier: Tier,
    pub seed: u64,
    pub replay: Option<PathBuf>,
    pub verif_dir: PathBuf,
    pub start: Instant,
    pub workers: usize,
    /// free-form extra args (`--opt key=value`)
    pub opts: BTreeMap<String, String>,
}

impl Ctx {
    /// Parse `<ID> [--tier quick|thorough] [--replay <file>] [--workers n] [--opt k=v]*`.
    pub fn from_args() -> Self {
        let args: Vec<String> = std::env::args().skip(1).collect();
        if args.is_empty() {
            machinery_error("usage: <bin> <ID> [--tier quick|thorough] [--replay file]");
        }
        let id = args[0].clone();
        let mut tier = match std::env::var("VERIF_TIER").ok().as_deref() {
            Some("thorough") => Tier::Thorough,
            _ => Tier::Quick,
        };
        let mut replay = None;
        let mut workers = std::thread::available_parallelism()
            .map(|n| n.get())
            .unwrap_or(8)
            .min(16);
        let mut opts = BTreeMap::new();
        let mut i = 1;
        while i < args.len() {
            match args[i].as_str() {
                "--tier" => {
                    i += 1;
                    tier = match args.get(i).map(|s| s.as_str()) {
                        Some("quick") => Tier::Quick,
                        Some("thorough") => Tier::Thorough,
                        other => machinery_error(&format!("bad tier {other:?}")),
                    };
                }
                "--replay" => {
                    i += 1;
                    replay = Some(PathBuf::from(
                        args.get(i)
                            .unwrap_or_else(|| machinery_error("--replay needs a path")),
                    ));
                }
                "--workers" => {
                    i += 1;
                    workers = args
                        .get(i)
                        .and_then(|s| s.parse().ok())
                        .unwrap_or_else(|| machinery_error("--workers needs a number"));
                }
                "--opt" => {
                    i += 1;
                    let kv = args
                        .get(i)
                        .unwrap_or_else(|| machinery_error("--opt needs k=v"));
                    let (k, v) = kv.split_once('=').unwrap_or((kv.as_str(), "1"));
                    opts.insert(k.to_string(), v.to_string());
                }
                other => machinery_error(&format!("unknown argument {other}")),
            }
            i += 1;
        }
        let seed = std::env::var("VERIF_SEED")
            .ok()
            .and_then(|s| s.parse::<i64>().ok())
            .map(|v| v as u64)
            .unwrap_or(0);
        let verif_dir = std::env::var("VERIF_DIR")
            .map(PathBuf::from)
            .unwrap_or_else(|_| PathBuf::from("/verif"));
        Self {
            id,
            tier,
            seed,
            replay,
            verif_dir,
            start: Instant::now(),
            workers,
            opts,
        }
    }

    pub fn quick(&self) -> bool {
        self.tier == Tier::Quick
    }

    pub fn elapsed_s(&self) -> f64 {
        self.start.elapsed().as_secs_f64()
    }

    /// Load the replay artefact named on the command line (if any).
    pub fn replay_case(&self) -> Option<Value> {
        let p = self.replay.as_ref()?;
        let txt = std::fs::read_to_string(p)
            .unwrap_or_else(|e| machinery_error(&format!("cannot read replay {p:?}: {e}")));
        let v: Value = serde_json::from_str(&txt)
            .unwrap_or_else(|e| machinery_error(&format!("bad replay json {p:?}: {e}")));
        Some(v)
    }
}

/// Exit 2: the machinery failed; never a verdict.
pub fn machinery_error(msg: &str) -> ! {
    eprintln!("MACHINERY-ERROR: {msg}");
    println!("MACHINERY-ERROR: {msg}");
    std::process::exit(2);
}

/// One observed disagreement between the implementation and the oracle.
#[derive(Clone, Debug, Serialize, Deserialize)]
pub struct Violation {
    /// which oracle of the property fired (short id)
    pub oracle: String,
    /// classification key: narrow, structural description of *what kind of input/history/call site*
    /// fails; known findings are matched on (property, key).
    pub key: String,
    /// human readable one-liner
    pub what: String,
    /// everything needed to re-execute: op list / input / schedule
    pub case: Value,
}

impl Violation {
    pub fn new(oracle: &str, key: &str, what: impl Into<String>, case: Value) -> Self {
        Self {
            oracle: oracle.to_string(),
            key: key.to_string(),
            what: what.into(),
            case,
        }
    }
}

#[derive(Clone, Debug, Deserialize)]
pub struct KnownFinding {
    pub property: String,
    pub key: String,
    pub what: String,
}

#[derive(Clone, Debug, Deserialize, Default)]
pub struct KnownFindings {
    #[serde(default)]
    pub findings: Vec<KnownFinding>,
    #[serde(default)]
    pub fixed: Vec<String>,
}

impl KnownFindings {
    pub fn load(ctx: &Ctx) -> Self {
        let p = ctx.verif_dir.join("known_findings.json");
        let mut all: Self = match std::fs::read_to_string(&p) {
            Ok(txt) => serde_json::from_str(&txt)
                .unwrap_or_else(|e| machinery_error(&format!("bad known_findings.json: {e}"))),
            Err(_) => Self::default(),
        };
        // staging area used while engines are being developed in parallel; merged into
        // known_findings.json at integration time
        if let Ok(rd) = std::fs::read_dir(ctx.verif_dir.join("known_findings.d")) {
            let mut names: Vec<_> = rd.filter_map(|e| e.ok()).map(|e| e.path()).collect();
            names.sort();
            for f in names {
                if f.extension().map(|x| x == "json").unwrap_or(false) {
                    let txt = std::fs::read_to_string(&f).unwrap_or_default();
                    let more: Self = serde_json::from_str(&txt)
                        .unwrap_or_else(|e| machinery_error(&format!("bad {f:?}: {e}")));
                    all.findings.extend(more.findings);
                    all.fixed.extend(more.fixed);
                }
            }
        }
        all
    }
    pub fn lookup(&self, property: &str, key: &str) -> Option<&KnownFinding> {
        self.findings
            .iter()
            .find(|f| f.property == property && f.key == key)
    }
}

/// What a check hands back to `finish`.
pub struct Outcome {
    /// evidence level: exploration | fault_enumeration | model_checking
    pub level: &'static str,
    /// measured coverage keys (must satisfy EVIDENCE.schema.json for the level)
    pub coverage: Map<String, Value>,
    pub assumptions: Vec<String>,
    pub violations: Vec<Violation>,
}

impl Outcome {
    pub fn new(level: &'static str) -> Self {
        Self {
            level,
            coverage: Map::new(),
            assumptions: vec![],
            violations: vec![],
        }
    }
    pub fn set(&mut self, k: &str, v: impl Into<Value>) -> &mut Self {
        self.coverage.insert(k.to_string(), v.into());
        self
    }
    pub fn assume(&mut self, s: &str) -> &mut Self {
        self.assumptions.push(s.to_string());
        self
    }
}

fn short_hash(s: &str) -> String {
    // FNV-1a 64
    let mut h: u64 = 0xcbf29ce484222325;
    for b in s.as_bytes() {
        h ^= *b as u64;
        h = h.wrapping_mul(0x100000001b3);
    }
    format!("{h:016x}")
}

pub fn hash64(bytes: &[u8]) -> u64 {
    let mut h: u64 = 0xcbf29ce484222325;
    for b in bytes {
        h ^= *b as u64;
        h = h.wrapping_mul(0x100000001b3);
    }
    h
}

/// Write evidence, print KNOWN-FINDING / VIOLATION lines, exit with the contract's code.
pub fn finish(ctx: &Ctx, mut out: Outcome) -> ! {
    let known = KnownFindings::load(ctx);
    // group by key, keep the first (checks emit minimal-first) artefact per key
    let mut by_key: BTreeMap<String, (Violation, usize)> = BTreeMap::new();
    for v in out.violations.drain(..) {
        by_key
            .entry(v.key.clone())
            .and_modify(|e| e.1 += 1)
            .or_insert((v, 1));
    }
    let mut unknown = 0usize;
    let mut known_hits = vec![];
    let mut violation_lines = vec![];
    let replay_dir = ctx.verif_dir.join("replays");
    let _ = std::fs::create_dir_all(&replay_dir);
    for (key, (v, n)) in &by_key {
        if let Some(k) = known.lookup(&ctx.id, key) {
            println!(
                "KNOWN-FINDING: property={} {} [key={} occurrences={}]",
                ctx.id, k.what, key, n
            );
            known_hits.push(json!({"key": key, "occurrences": n, "what": k.what, "example": v.what}));
        } else {
            unknown += 1;
            let art = json!({
                "property": ctx.id, "oracle": v.oracle, "key": key, "what": v.what,
                "occurrences": n, "case": v.case,
            });
            let name = format!("{}-{}.json", ctx.id, short_hash(&format!("{key}|{}", v.case)));
            let path = replay_dir.join(name);
            if let Err(e) = std::fs::write(&path, serde_json::to_string_pretty(&art).unwrap()) {
                machinery_error(&format!("cannot write replay artefact {path:?}: {e}"));
            }
            violation_lines.push(format!(
                "VIOLATION property={} replay={} oracle={} key={} occurrences={} what={}",
                ctx.id,
                path.display(),
                v.oracle,
                key,
                n,
                v.what.replace('\n', " ")
            ));
        }
    }
    let mut cov = out.coverage;
    if !known_hits.is_empty() {
        cov.insert("known_findings_hit".into(), Value::Array(known_hits));
    }
    let ev = json!({
        "property_id": ctx.id,
        "tier": ctx.tier.name(),
        "seed": ctx.seed as i64,
        "level": out.level,
        "coverage": Value::Object(cov),
        "assumptions": out.assumptions,
        "wall_s": (ctx.elapsed_s() * 1000.0).round() / 1000.0,
        "violations": unknown,
    });
    if ctx.replay.is_none() {
        let dir = ctx.verif_dir.join("evidence");
        let _ = std::fs::create_dir_all(&dir);
        let p = dir.join(format!("{}.json", ctx.id));
        if let Err(e) = std::fs::write(&p, serde_json::to_string_pretty(&ev).unwrap()) {
            machinery_error(&format!("cannot write evidence {p:?}: {e}"));
        }
    }
    for l in &violation_lines {
        println!("{l}");
    }
    println!(
        "RESULT property={} tier={} level={} violations={} known_findings={} wall_s={:.1}",
        ctx.id,
        ctx.tier.name(),
        out.level,
        unknown,
        by_key.len() - unknown,
        ctx.elapsed_s()
    );
    std::process::exit(if unknown > 0 { 1 } else { 0 });
}

/// Run `f` over `items` on `workers` OS threads; results in item order.
pub fn par_map<T: Send, R: Send>(
    items: Vec<T>,
    workers: usize,
    f: impl Fn(usize, T) -> R + Sync,
) -> Vec<R> {
    let n = items.len();
    let slots: Vec<std::sync::Mutex<Option<T>>> =
        items.into_iter().map(|t| std::sync::Mutex::new(Some(t))).collect();
    let results: Vec<std::sync::Mutex<Option<R>>> =
        (0..n).map(|_| std::sync::Mutex::new(None)).collect();
    let next = AtomicUsize::new(0);
    let workers = workers.max(1).min(n.max(1));
    std::thread::scope(|s| {
        for _ in 0..workers {
            s.spawn(|| loop {
                let i = next.fetch_add(1, Ordering::SeqCst);
                if i >= n {
                    break;
                }
                let item = slots[i].lock().unwrap().take().unwrap();
                let r = f(i, item);
                *results[i].lock().unwrap() = Some(r);
            });
        }
    });
    results
        .into_iter()
        .map(|m| m.into_inner().unwrap().expect("worker died"))
        .collect()
}

/// Run a closure, turning a panic into `Err(message)`.
pub fn catch<R>(f: impl FnOnce() -> R) -> Result<R, String> {
    match std::panic::catch_unwind(std::panic::AssertUnwindSafe(f)) {
        Ok(r) => Ok(r),
        Err(e) => Err(panic_message(&e)),
    }
}

pub fn panic_message(e: &Box<dyn std::any::Any + Send>) -> String {
    if let Some(s) = e.downcast_ref::<&str>() {
        s.to_string()
    } else if let Some(s) = e.downcast_ref::<String>() {
        s.clone()
    } else {
        "panic (non-string payload)".to_string()
    }
}

/// Silence the default panic hook's backtrace spam (we catch panics and report them ourselves).
pub fn quiet_panics() {
    std::panic::set_hook(Box::new(|_| {}));
}

/// Counter for "distinct non-trivial" cases and a bounded list of samples.
#[derive(Default, Clone)]
pub struct Cov {
    pub evaluations: u64,
    pub nontrivial: std::collections::HashSet<u64>,
    pub samples: Vec<Value>,
    pub outcomes: BTreeMap<String, u64>,
}

impl Cov {
    pub fn new() -> Self {
        Self::default()
    }
    /// record one evaluated case; `nontrivial_hash` = Some(hash of the case) when the case counts as
    /// non-trivial under the check's stated rule.
    pub fn eval(&mut self, nontrivial_hash: Option<u64>) {
        self.evaluations += 1;
        if let Some(h) = nontrivial_hash {
            self.nontrivial.insert(h);
        }
    }
    pub fn outcome(&mut self, label: &str) {
        *self.outcomes.entry(label.to_string()).or_insert(0) += 1;
    }
    pub fn sample(&mut self, v: Value) {
        if self.samples.len() < 6 {
            self.samples.push(v);
        }
    }
    pub fn merge(&mut self, o: Cov) {
        self.evaluations += o.evaluations;
        self.nontrivial.extend(o.nontrivial);
        for s in o.samples {
            self.sample(s);
        }
        for (k, v) in o.outcomes {
            *self.outcomes.entry(k).or_insert(0) += v;
        }
    }
    /// fill the generic exploration keys of the evidence schema
    pub fn fill(&self, out: &mut Outcome, rule: &str, exhaustive: bool) {
        out.set("evaluations", self.evaluations);
        out.set("distinct_nontrivial", self.nontrivial.len() as u64);
        out.set("rule", rule);
        out.set("samples", Value::Array(self.samples.clone()));
        out.set("exhaustive", exhaustive);
        out.set("distinct_outcomes", json!(self.outcomes));
    }
}
