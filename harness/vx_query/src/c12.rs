//! C12 – delete / update / merge_insert follow SQL semantics on the model table (K1 x K5).
//!
//! Enumerated: every table of <=3 rows over (k in {NULL,0,1}, v in {NULL,"a"}) (plus identity `uid`
//! and an auxiliary `w = uid + 10`) in 1..2 fragments (quick: rows sorted inside the table, i.e.
//! multisets x fragment splits; thorough: all ordered sequences), optionally after a prior history
//! (deletion vector present / compacted / stable row ids), x
//!   * delete(p) for every predicate of the predicate family,
//!   * update(set, where p) for 6 set-lists (two of them with a right-hand side that reads a column
//!     another assignment writes) x predicates,
//!   * merge_insert(key in {k, uid}) x source batches over key domain {NULL,0,1,7} (1..2 rows, incl.
//!     duplicates) x {full, partial} schema x when-clause settings x {btree on key, no index}.
//! Oracle: SQL semantics on the model (3VL; NULL keys never match; an unmatched source row - also a
//! NULL-key one - is inserted under insert-all; >1 source row for one target row under update-all =>
//! error and table unchanged); `count_rows()`, `count_rows(filter)`, `count_deleted_rows` agree with
//! the resulting table; an error must leave the table unchanged.

use crate::common::*;
use arrow_array::RecordBatchIterator;
use arrow_schema::DataType;
use lance::dataset::{MergeInsertBuilder, UpdateBuilder, WhenMatched, WhenNotMatched, WhenNotMatchedBySource};
use lance::Dataset;
use serde::{Deserialize, Serialize};
use serde_json::{json, Value};
use std::collections::BTreeMap;
use std::sync::Arc;
use vcore::{Cov, Ctx, Outcome, Violation};
use vds::cells::Cell;
use vds::pred::{col, lit_i, lit_s, CmpOp, Expr, Pred};
use vds::{block_on, run_catch, Env, URI};
use vstore::MemStore;

thread_local! {
    /// column order of the table under test on this worker thread: the key column `k` first
    /// (Lance's join-based merge path looks at the leading columns of the joined batch)
    static KEY_FIRST: std::cell::Cell<bool> = const { std::cell::Cell::new(false) };
}

fn cols() -> Vec<(String, DataType)> {
    let mut v: Vec<(String, DataType)> = vec![
        ("uid".into(), DataType::Int32),
        ("k".into(), DataType::Int32),
        ("v".into(), DataType::Utf8),
        ("w".into(), DataType::Int32),
    ];
    if KEY_FIRST.with(|c| c.get()) {
        v.swap(0, 1);
    }
    v
}
fn ix(name: &str) -> usize {
    cols().iter().position(|c| c.0 == name).unwrap()
}
/// a row in the current column order
fn mk_row(uid: Cell, k: Cell, v: Cell, w: Cell) -> Row {
    if KEY_FIRST.with(|c| c.get()) {
        vec![k, uid, v, w]
    } else {
        vec![uid, k, v, w]
    }
}
fn col_names() -> Vec<String> {
    cols().into_iter().map(|c| c.0).collect()
}

// ------------------------------------------------------------------------------------------------
// case description (serialisable => replayable)

#[derive(Clone, Debug, Serialize, Deserialize, PartialEq)]
pub enum Op {
    Delete { p: Pred },
    Update { set: Vec<(String, Expr)>, p: Option<Pred> },
    Merge(Merge),
}

#[derive(Clone, Debug, Serialize, Deserialize, PartialEq)]
pub struct Merge {
    key: String,
    src_cols: Vec<String>,
    src: Vec<Row>,
    /// update_all | do_nothing | fail | update_if:<sql>
    matched: String,
    /// insert_all | do_nothing
    not_matched: String,
    /// keep | delete | delete_if:<sql>
    by_source: String,
    indexed: bool,
    use_index: bool,
    /// the btree is built before the last fragment is appended (that fragment is un-indexed)
    #[serde(default)]
    unindexed_tail: bool,
}

#[derive(Clone, Debug, Serialize, Deserialize, PartialEq)]
pub struct TableSpec {
    /// fragments of (k, v) rows; uid = position, w = uid + 10
    frags: Vec<Vec<(Cell, Cell)>>,
    /// none | delvec (an extra row is appended to fragment 0 and deleted again) | compact | append-compact
    prep: String,
    stable_row_ids: bool,
    /// schema order (k, uid, v, w) instead of (uid, k, v, w)
    #[serde(default)]
    key_first: bool,
}

#[derive(Clone, Debug, Serialize, Deserialize)]
pub struct Case {
    t: TableSpec,
    op: Op,
}

impl TableSpec {
    fn model_rows(&self) -> Vec<Row> {
        let mut uid = 0i64;
        let mut out = vec![];
        for f in &self.frags {
            for (k, v) in f {
                out.push(mk_row(Cell::I(uid), k.clone(), v.clone(), Cell::I(uid + 10)));
                uid += 1;
            }
        }
        out
    }
    fn tbl(&self) -> Tbl {
        let mut uid = 0i64;
        let mut frags = vec![];
        for (fi, f) in self.frags.iter().enumerate() {
            let mut rows = vec![];
            for (k, v) in f {
                rows.push(mk_row(Cell::I(uid), k.clone(), v.clone(), Cell::I(uid + 10)));
                uid += 1;
            }
            if fi == 0 && self.prep == "delvec" {
                rows.push(mk_row(Cell::I(99), Cell::I(0), Cell::s("a"), Cell::I(109)));
            }
            frags.push(rows);
        }
        Tbl { cols: cols(), frags }
    }
}

// ------------------------------------------------------------------------------------------------
// enumeration

fn row_values() -> Vec<(Cell, Cell)> {
    let mut v = vec![];
    for k in [Cell::Null, Cell::I(0), Cell::I(1)] {
        for s in [Cell::Null, Cell::s("a")] {
            v.push((k.clone(), s));
        }
    }
    v
}

/// all tables of 1..=max rows; `sorted` keeps only non-decreasing value index sequences (multisets)
fn tables(max: usize, sorted: bool) -> Vec<Vec<Vec<(Cell, Cell)>>> {
    let vals = row_values();
    let mut out = vec![];
    for n in 1..=max {
        let dims = vec![vals.len(); n];
        vcore::smallx::product(&dims, |ix| {
            if sorted && ix.windows(2).any(|w| w[0] > w[1]) {
                return true;
            }
            let rows: Vec<(Cell, Cell)> = ix.iter().map(|i| vals[*i].clone()).collect();
            // one fragment, or split into two non-empty fragments at every interior point
            out.push(vec![rows.clone()]);
            for cut in 1..n {
                out.push(vec![rows[..cut].to_vec(), rows[cut..].to_vec()]);
            }
            true
        });
    }
    out
}

fn b(p: Pred) -> Box<Pred> {
    Box::new(p)
}
fn cmp(c: &str, op: CmpOp, e: Expr) -> Pred {
    Pred::Cmp(col(c), op, e)
}

fn atoms() -> Vec<Pred> {
    vec![
        cmp("k", CmpOp::Eq, lit_i(0)),
        cmp("k", CmpOp::Eq, lit_i(1)),
        cmp("k", CmpOp::Ne, lit_i(0)),
        cmp("k", CmpOp::Lt, lit_i(1)),
        cmp("k", CmpOp::Ge, lit_i(1)),
        Pred::IsNull(col("k")),
        Pred::IsNotNull(col("k")),
        cmp("v", CmpOp::Eq, lit_s("a")),
        Pred::IsNull(col("v")),
        cmp("v", CmpOp::Ne, lit_s("a")),
    ]
}

fn preds() -> Vec<Pred> {
    let a = atoms();
    let mut out = a.clone();
    for p in &a {
        out.push(Pred::Not(b(p.clone())));
    }
    let four = [a[0].clone(), a[5].clone(), a[7].clone(), a[8].clone()];
    for i in 0..4 {
        for j in (i + 1)..4 {
            out.push(Pred::And(b(four[i].clone()), b(four[j].clone())));
            out.push(Pred::Or(b(four[i].clone()), b(four[j].clone())));
        }
    }
    out.push(Pred::True);
    out.push(Pred::False);
    out.push(cmp("k", CmpOp::Eq, Expr::Lit(Cell::Null)));
    out.push(Pred::In(col("k"), vec![Cell::I(0), Cell::Null]));
    out.push(Pred::Not(b(Pred::In(col("k"), vec![Cell::I(0), Cell::Null]))));
    out.push(Pred::Not(b(Pred::And(b(a[0].clone()), b(a[7].clone())))));
    out.push(Pred::IsTrue(b(a[0].clone())));
    out.push(Pred::IsFalse(b(a[0].clone())));
    out
}

fn set_lists() -> Vec<Vec<(String, Expr)>> {
    let add = |a: Expr, b: Expr| Expr::Add(Box::new(a), Box::new(b));
    vec![
        vec![("k".into(), add(col("k"), lit_i(1)))],
        vec![("v".into(), lit_s("z"))],
        vec![("k".into(), Expr::Lit(Cell::Null))],
        vec![("k".into(), col("uid")), ("v".into(), col("v"))],
        // both right-hand sides read a column the other assignment writes (SQL: both see the OLD row)
        vec![("k".into(), col("w")), ("w".into(), col("k"))],
        // one right-hand side reads a column another assignment writes
        vec![("k".into(), add(col("w"), lit_i(1))), ("w".into(), lit_i(7))],
    ]
}

fn cross_read(set: &[(String, Expr)]) -> bool {
    set.iter().enumerate().any(|(i, (_, e))| {
        let mut cs = vec![];
        e.columns(&mut cs);
        set.iter().enumerate().any(|(j, (c, _))| i != j && cs.contains(c))
    })
}

fn merge_cases(spec: &TableSpec, quick: bool) -> Vec<Merge> {
    let mut out = vec![];
    let n = spec.model_rows().len() as i64;
    let whens: Vec<(&str, &str, &str)> = if quick {
        vec![
            ("update_all", "insert_all", "keep"),
            ("do_nothing", "insert_all", "keep"),
            ("update_all", "do_nothing", "keep"),
            ("update_all", "insert_all", "delete"),
        ]
    } else {
        vec![
            ("update_all", "insert_all", "keep"),
            ("do_nothing", "insert_all", "keep"),
            ("update_all", "do_nothing", "keep"),
            ("update_all", "insert_all", "delete"),
            ("do_nothing", "insert_all", "delete"),
            ("do_nothing", "do_nothing", "delete"),
            ("update_all", "do_nothing", "delete"),
            ("fail", "insert_all", "keep"),
            ("update_if:(source.k = 0)", "insert_all", "keep"),
            ("update_all", "insert_all", "delete_if:(v IS NULL)"),
        ]
    };
    for key in ["k", "uid"] {
        let keydom: Vec<Cell> = if key == "k" {
            vec![Cell::Null, Cell::I(0), Cell::I(1), Cell::I(7)]
        } else {
            // uid is NOT NULL in the target: 0 exists, n-1 exists (other fragment), 7 is new
            let mut d = vec![Cell::I(0), Cell::I(7)];
            if n > 1 {
                d.insert(1, Cell::I(n - 1));
            }
            d
        };
        // source batches: 1 row, and unordered pairs with repetition
        let mut batches: Vec<Vec<Cell>> = keydom.iter().map(|c| vec![c.clone()]).collect();
        for i in 0..keydom.len() {
            for j in i..keydom.len() {
                // quick, key uid: only the duplicate pair and (existing, new)
                if quick && key == "uid" && !(i == 0 && (j == 0 || j == keydom.len() - 1)) {
                    continue;
                }
                batches.push(vec![keydom[i].clone(), keydom[j].clone()]);
            }
        }
        if !quick {
            batches.push(vec![keydom[0].clone(), keydom[0].clone(), keydom[keydom.len() - 1].clone()]);
            batches.push(vec![keydom[1].clone(), keydom[keydom.len() - 1].clone(), keydom[1].clone()]);
        }
        let schemas: Vec<Vec<&str>> = if key == "k" {
            if quick {
                vec![vec!["uid", "k", "v", "w"], vec!["k", "v"]]
            } else {
                vec![vec!["uid", "k", "v", "w"], vec!["uid", "k", "v"], vec!["k", "v"]]
            }
        } else {
            vec![vec!["uid", "k", "v", "w"], vec!["uid", "v"]]
        };
        // a full-schema source has the column order of the target
        let schemas: Vec<Vec<&str>> = schemas
            .into_iter()
            .map(|mut sc| {
                if sc.len() == 4 && spec.key_first {
                    sc.swap(0, 1);
                }
                sc
            })
            .collect();
        for sc in &schemas {
            for keys in &batches {
                let src: Vec<Row> = keys
                    .iter()
                    .enumerate()
                    .map(|(i, kc)| {
                        sc.iter()
                            .map(|c| match *c {
                                "uid" => {
                                    if key == "uid" {
                                        kc.clone()
                                    } else {
                                        Cell::I(100 + i as i64)
                                    }
                                }
                                "k" => {
                                    if key == "k" {
                                        kc.clone()
                                    } else {
                                        Cell::I(5 + i as i64)
                                    }
                                }
                                "v" => Cell::S(format!("s{i}")),
                                _ => Cell::I(50 + i as i64),
                            })
                            .collect()
                    })
                    .collect();
                for (m, nm, bs) in &whens {
                    // a source that lacks the NOT NULL identity column cannot be inserted
                    if !sc.contains(&"uid") && *nm == "insert_all" {
                        continue;
                    }
                    // update_if conditions name source.k
                    if m.starts_with("update_if") && !sc.contains(&"k") {
                        continue;
                    }
                    for (indexed, unindexed_tail) in [(false, false), (true, false), (true, true)] {
                        // an un-indexed tail needs two fragments and no prior history
                        if unindexed_tail && (spec.frags.len() < 2 || spec.prep != "none") {
                            continue;
                        }
                        out.push(Merge {
                            key: key.into(),
                            src_cols: sc.iter().map(|s| s.to_string()).collect(),
                            src: src.clone(),
                            matched: m.to_string(),
                            not_matched: nm.to_string(),
                            by_source: bs.to_string(),
                            indexed,
                            use_index: true,
                            unindexed_tail,
                        });
                    }
                }
            }
        }
    }
    out
}

// ------------------------------------------------------------------------------------------------
// model

#[derive(Clone, Debug, PartialEq)]
enum Expect {
    Rows { rows: Vec<Row>, touched: u64, inserted: u64, deleted: u64 },
    /// must fail and leave the table unchanged
    Error(String),
}

fn getter<'a>(names: &'a [String], r: &'a [Cell]) -> impl Fn(&str) -> Cell + 'a {
    move |c: &str| row_get(names, r, c)
}

fn model(rows: &[Row], op: &Op) -> Expect {
    model_with(rows, op, None)
}

/// `null_eq_from_uid = Some(u)`: the deviant semantics "a NULL source key matches the NULL-key target
/// rows with uid >= u" (used only to recognise one known defect, never as the expectation)
fn model_with(rows: &[Row], op: &Op, null_eq_from_uid: Option<i64>) -> Expect {
    let names = col_names();
    match op {
        Op::Delete { p } => {
            let keep: Vec<Row> = rows.iter().filter(|r| p.eval(&getter(&names, r)) != Some(true)).cloned().collect();
            let d = (rows.len() - keep.len()) as u64;
            Expect::Rows { rows: keep, touched: d, inserted: 0, deleted: d }
        }
        Op::Update { set, p } => {
            let mut n = 0;
            let out = rows
                .iter()
                .map(|r| {
                    let hit = p.as_ref().map(|p| p.eval(&getter(&names, r)) == Some(true)).unwrap_or(true);
                    if !hit {
                        return r.clone();
                    }
                    n += 1;
                    let mut new = r.clone();
                    for (c, e) in set {
                        let i = names.iter().position(|x| x == c).unwrap();
                        // every right-hand side is evaluated on the OLD row
                        new[i] = e.eval(&getter(&names, r));
                    }
                    new
                })
                .collect();
            Expect::Rows { rows: out, touched: n, inserted: 0, deleted: 0 }
        }
        Op::Merge(m) => {
            let ki = names.iter().position(|x| *x == m.key).unwrap();
            let ski = m.src_cols.iter().position(|x| *x == m.key).unwrap();
            let key_eq = |t: &Row, s: &Row| {
                (!t[ki].is_null() && !s[ski].is_null() && t[ki] == s[ski])
                    || (t[ki].is_null() && s[ski].is_null() && null_eq_from_uid.map(|u| t[ix("uid")].as_i64().unwrap_or(-1) >= u).unwrap_or(false))
            };
            let mut out = vec![];
            let (mut upd, mut ins, mut del) = (0u64, 0u64, 0u64);
            // ambiguity / fail first: no effect at all
            for t in rows {
                let ms: Vec<&Row> = m.src.iter().filter(|s| key_eq(t, s)).collect();
                if m.matched == "fail" && !ms.is_empty() {
                    return Expect::Error("when_matched = fail and a source row matches".into());
                }
                if m.matched.starts_with("update") {
                    let updating: Vec<&&Row> = ms
                        .iter()
                        .filter(|s| update_if_holds(m, t, s))
                        .collect();
                    if updating.len() > 1 {
                        return Expect::Error("more than one source row updates one target row".into());
                    }
                }
            }
            for t in rows {
                let ms: Vec<&Row> = m.src.iter().filter(|s| key_eq(t, s)).collect();
                if ms.is_empty() {
                    let delete = match m.by_source.as_str() {
                        "keep" => false,
                        "delete" => true,
                        other => {
                            let cond = other.strip_prefix("delete_if:").unwrap();
                            // the only condition in the alphabet
                            assert_eq!(cond, "(v IS NULL)");
                            t[ix("v")].is_null()
                        }
                    };
                    if delete {
                        del += 1;
                    } else {
                        out.push(t.clone());
                    }
                } else {
                    let s = ms.iter().find(|s| update_if_holds(m, t, s));
                    match (m.matched.starts_with("update"), s) {
                        (true, Some(s)) => {
                            let mut new = t.clone();
                            for (j, c) in m.src_cols.iter().enumerate() {
                                let i = names.iter().position(|x| x == c).unwrap();
                                new[i] = s[j].clone();
                            }
                            upd += 1;
                            out.push(new);
                        }
                        _ => out.push(t.clone()),
                    }
                }
            }
            if m.not_matched == "insert_all" {
                for s in &m.src {
                    if !rows.iter().any(|t| key_eq(t, s)) {
                        let mut new = vec![Cell::Null; names.len()];
                        for (j, c) in m.src_cols.iter().enumerate() {
                            let i = names.iter().position(|x| x == c).unwrap();
                            new[i] = s[j].clone();
                        }
                        ins += 1;
                        out.push(new);
                    }
                }
            }
            Expect::Rows { rows: out, touched: upd, inserted: ins, deleted: del }
        }
    }
}

fn update_if_holds(m: &Merge, _t: &Row, s: &Row) -> bool {
    match m.matched.as_str() {
        "update_all" => true,
        "update_if:(source.k = 0)" => {
            let j = m.src_cols.iter().position(|x| x == "k").unwrap();
            s[j] == Cell::I(0)
        }
        _ => false,
    }
}

// ------------------------------------------------------------------------------------------------
// execution on the real code

#[derive(Clone, Debug)]
struct Observed {
    /// Ok((touched, inserted, deleted)) as reported by the operation | Err(message)
    result: Result<(Option<u64>, Option<u64>, Option<u64>), String>,
    rows: Vec<Row>,
    count_all: usize,
    count_k_null: Option<usize>,
    count_pred: Option<Result<usize, String>>,
    count_deleted: usize,
    physical: usize,
}

async fn build_base(spec: &TableSpec, indexed_col: Option<&str>, unindexed_tail: bool) -> Result<MemStore, String> {
    let env = Env::new();
    let o = TOpts { stable_row_ids: spec.stable_row_ids, ..Default::default() };
    if unindexed_tail {
        // fragment 0, btree, then the last fragment is appended and stays un-indexed
        let full = spec.tbl();
        let head = Tbl { cols: full.cols.clone(), frags: full.frags[..full.frags.len() - 1].to_vec() };
        let mut ds = create_tbl(&env, URI, &head, &o).await.map_err(|e| format!("create: {e}"))?;
        let c = indexed_col.ok_or("unindexed_tail without index")?;
        create_scalar_index(&mut ds, c, "btree", None).await.map_err(|e| format!("create_index: {e}"))?;
        append_rows(&env, URI, &full.cols, &full.frags[full.frags.len() - 1]).await.map_err(|e| format!("append: {e}"))?;
        return Ok(env.store);
    }
    let mut ds = create_tbl(&env, URI, &spec.tbl(), &o).await.map_err(|e| format!("create: {e}"))?;
    match spec.prep.as_str() {
        "none" => {}
        "delvec" => {
            ds.delete("uid = 99").await.map_err(|e| format!("prep delete: {e}"))?;
        }
        "compact" => {
            lance::dataset::optimize::compact_files(&mut ds, Default::default(), None)
                .await
                .map_err(|e| format!("prep compact: {e}"))?;
        }
        other => return Err(format!("unknown prep {other}")),
    }
    if let Some(c) = indexed_col {
        create_scalar_index(&mut ds, c, "btree", None).await.map_err(|e| format!("create_index: {e}"))?;
    }
    Ok(env.store)
}

fn when_matched(ds: &Dataset, s: &str) -> WhenMatched {
    match s {
        "update_all" => WhenMatched::UpdateAll,
        "do_nothing" => WhenMatched::DoNothing,
        "fail" => WhenMatched::Fail,
        other => WhenMatched::update_if(ds, other.strip_prefix("update_if:").unwrap()).unwrap(),
    }
}

async fn apply(ds: Dataset, op: &Op) -> Result<(Option<u64>, Option<u64>, Option<u64>), String> {
    match op {
        Op::Delete { p } => {
            let mut ds = ds;
            ds.delete(&p.sql()).await.map_err(|e| e.to_string())?;
            Ok((None, None, None))
        }
        Op::Update { set, p } => {
            let mut ub = UpdateBuilder::new(Arc::new(ds));
            if let Some(p) = p {
                ub = ub.update_where(&p.sql()).map_err(|e| e.to_string())?;
            }
            for (c, e) in set {
                ub = ub.set(c, &e.sql()).map_err(|e| e.to_string())?;
            }
            let r = ub.build().map_err(|e| e.to_string())?.execute().await.map_err(|e| e.to_string())?;
            Ok((Some(r.rows_updated), None, None))
        }
        Op::Merge(m) => {
            let ds = Arc::new(ds);
            let mut mb = MergeInsertBuilder::try_new(ds.clone(), vec![m.key.clone()]).map_err(|e| e.to_string())?;
            mb.when_matched(when_matched(&ds, &m.matched));
            mb.when_not_matched(if m.not_matched == "insert_all" { WhenNotMatched::InsertAll } else { WhenNotMatched::DoNothing });
            mb.when_not_matched_by_source(match m.by_source.as_str() {
                "keep" => WhenNotMatchedBySource::Keep,
                "delete" => WhenNotMatchedBySource::Delete,
                other => WhenNotMatchedBySource::delete_if(&ds, other.strip_prefix("delete_if:").unwrap())
                    .map_err(|e| e.to_string())?,
            });
            mb.use_index(m.use_index);
            let job = mb.try_build().map_err(|e| e.to_string())?;
            let all = cols();
            let sc: Vec<(String, DataType)> = m
                .src_cols
                .iter()
                .map(|c| all.iter().find(|x| x.0 == *c).unwrap().clone())
                .collect();
            let batch = make_batch(&sc, &m.src);
            let schema = batch.schema();
            let reader = RecordBatchIterator::new(vec![Ok(batch)], schema);
            let (_, st) = job.execute_reader(reader).await.map_err(|e| e.to_string())?;
            Ok((Some(st.num_updated_rows), Some(st.num_inserted_rows), Some(st.num_deleted_rows)))
        }
    }
}

async fn observe(env: &Env, result: Result<(Option<u64>, Option<u64>, Option<u64>), String>, op: &Op) -> Result<Observed, String> {
    let ds = env.open(URI).await.map_err(|e| format!("reopen: {e}"))?;
    let rows = scan_all(&ds).await.map_err(|e| format!("scan: {e}"))?;
    let count_all = ds.count_rows(None).await.map_err(|e| format!("count_rows: {e}"))?;
    let count_pred = match op {
        Op::Delete { p } | Op::Update { p: Some(p), .. } => {
            Some(ds.count_rows(Some(p.sql())).await.map_err(|e| e.to_string()))
        }
        _ => None,
    };
    let count_k_null = if count_pred.is_some() {
        None
    } else {
        Some(
            ds.count_rows(Some("k IS NULL".into()))
                .await
                .map_err(|e| format!("count_rows(k IS NULL): {e}"))?,
        )
    };
    let count_deleted = ds.count_deleted_rows().await.map_err(|e| format!("count_deleted_rows: {e}"))?;
    let physical: usize = ds.get_fragments().iter().map(|f| f.metadata().physical_rows.unwrap_or(0)).sum();
    Ok(Observed { result, rows, count_all, count_k_null, count_pred, count_deleted, physical })
}

static T_OPEN: std::sync::atomic::AtomicU64 = std::sync::atomic::AtomicU64::new(0);
static T_APPLY: std::sync::atomic::AtomicU64 = std::sync::atomic::AtomicU64::new(0);
static T_OBS: std::sync::atomic::AtomicU64 = std::sync::atomic::AtomicU64::new(0);

fn exec(base: &MemStore, op: &Op) -> Result<Observed, String> {
    let env = Env::from_store(MemStore::from_snapshot(&base.snapshot()));
    let r = run_catch(async {
        let t0 = std::time::Instant::now();
        let ds = env.open(URI).await.map_err(|e| format!("open: {e}"))?;
        let t1 = std::time::Instant::now();
        let result = apply(ds, op).await;
        let t2 = std::time::Instant::now();
        let o = observe(&env, result, op).await;
        let t3 = std::time::Instant::now();
        T_OPEN.fetch_add((t1 - t0).as_micros() as u64, std::sync::atomic::Ordering::Relaxed);
        T_APPLY.fetch_add((t2 - t1).as_micros() as u64, std::sync::atomic::Ordering::Relaxed);
        T_OBS.fetch_add((t3 - t2).as_micros() as u64, std::sync::atomic::Ordering::Relaxed);
        o
    });
    match r {
        Ok(x) => x.map_err(|e| format!("machinery: {e}")),
        Err(p) => Err(format!("panic: {p}")),
    }
}

// ------------------------------------------------------------------------------------------------
// judging

fn bag_diff(a: &[Row], b: &[Row]) -> (Vec<Row>, Vec<Row>) {
    // (in a not in b, in b not in a) as bags
    let mut cnt: BTreeMap<Row, i64> = BTreeMap::new();
    for r in a {
        *cnt.entry(r.clone()).or_insert(0) += 1;
    }
    for r in b {
        *cnt.entry(r.clone()).or_insert(0) -= 1;
    }
    let mut only_a = vec![];
    let mut only_b = vec![];
    for (r, c) in cnt {
        for _ in 0..c.max(0) {
            only_a.push(r.clone());
        }
        for _ in 0..(-c).max(0) {
            only_b.push(r.clone());
        }
    }
    (only_a, only_b)
}

fn pred_shape(p: &Pred) -> String {
    match p {
        Pred::True | Pred::False => "const".into(),
        Pred::Cmp(_, op, Expr::Lit(Cell::Null)) => format!("cmp-{op:?}-null-literal"),
        Pred::Cmp(_, op, _) => format!("cmp-{op:?}"),
        Pred::IsNull(_) => "is-null".into(),
        Pred::IsNotNull(_) => "is-not-null".into(),
        Pred::In(_, l) => if l.iter().any(|c| c.is_null()) { "in-with-null".into() } else { "in".into() },
        Pred::Between(..) => "between".into(),
        Pred::Not(q) => format!("not({})", pred_shape(q)),
        Pred::And(a, b) => format!("and({},{})", pred_shape(a), pred_shape(b)),
        Pred::Or(a, b) => format!("or({},{})", pred_shape(a), pred_shape(b)),
        Pred::IsTrue(q) => format!("is-true({})", pred_shape(q)),
        Pred::IsFalse(q) => format!("is-false({})", pred_shape(q)),
        Pred::BoolCol(_) => "boolcol".into(),
    }
}

fn op_kind(op: &Op) -> String {
    match op {
        Op::Delete { .. } => "delete".into(),
        Op::Update { set, .. } => format!(
            "update/{}",
            if cross_read(set) { "multi-assign-rhs-reads-assigned-column" } else if set.len() > 1 { "multi-assign-independent" } else { "single-assign" }
        ),
        // the implementation has two execution paths, chosen exactly by these parameters
        // (`can_use_create_plan`): the plan-based one and the join-based one
        Op::Merge(m) => format!(
            "merge/{}",
            if m.src_cols.len() == 4 && !(m.indexed && m.use_index) && m.by_source == "keep" && m.matched != "do_nothing" { "plan-based-path" } else { "join-based-path" },
        ),
    }
}

/// `Ok(None)` = counted as explicitly unsupported (not judged)
fn judge(case: &Case, before: &[Row], obs: &Observed) -> Vec<Violation> {
    let mut v = judge_inner(case, before, obs);
    // one known root cause: on the index-based join (btree on the key) NULL keys compare equal
    // (HashJoin with NullEqualsNull), visible when a NULL-key target row sits in an un-indexed fragment
    if let Op::Merge(m) = &case.op {
        if !v.is_empty() && m.indexed && m.unindexed_tail {
            let tail_start: i64 = case.t.frags[..case.t.frags.len() - 1].iter().map(|f| f.len() as i64).sum();
            let alt = model_with(before, &case.op, Some(tail_start));
            let explained = match (&alt, &obs.result) {
                (Expect::Rows { rows, .. }, Ok(_)) => bag(rows.clone()) == bag(obs.rows.clone()),
                (Expect::Error(_), Err(_)) => bag(before.to_vec()) == bag(obs.rows.clone()),
                _ => false,
            };
            if explained && alt != model(before, &case.op) {
                for x in v.iter_mut() {
                    if ["rows", "unexpected-error", "must-fail", "stats"].contains(&x.oracle.as_str()) {
                        x.key = "merge/join-based-path/null-keys-match-in-unindexed-fragment".to_string();
                    }
                }
            }
        }
    }
    // composition of the two known root causes (NULL keys joined by the index-based hash join AND row
    // presence read off the leading columns): on the column order (k, uid, ..) with an un-indexed last
    // fragment holding a NULL key and a NULL-key source row, the joined row is taken for a source-only row
    // that still carries the target's row address (the target row is overwritten in place / the writer
    // panics). Attributed to the join defect that triggers it.
    if let Op::Merge(m) = &case.op {
        let ki = col_names().iter().position(|x| *x == m.key).unwrap();
        let ski = m.src_cols.iter().position(|x| *x == m.key).unwrap();
        if !v.is_empty()
            && m.indexed
            && m.unindexed_tail
            && case.t.key_first
            && m.src.iter().any(|r| r[ski].is_null())
            && case.t.frags.last().map(|f| f.iter().any(|(k, _)| k.is_null())).unwrap_or(false)
            && before.iter().any(|r| r[ki].is_null())
        {
            for x in v.iter_mut() {
                if ["rows", "unexpected-error", "must-fail", "stats"].contains(&x.oracle.as_str()) && !x.key.ends_with("/phantom-all-null-row-written") {
                    x.key = "merge/join-based-path/null-keys-match-in-unindexed-fragment".to_string();
                }
            }
        }
    }
    // another known root cause: the join-based path decides "source side present" / "target side
    // present" from the NULL-ness of the first num_keys columns of each half of the joined batch
    // (`not_all_null(batch, 0, num_keys)`), not from the join outcome on the `on` columns. With a nullable
    // leading column (order (k, uid, ..)) rows whose first column is NULL are invisible: such a target
    // row is never updated / deleted-by-source, such a source row is never inserted.
    if let Op::Merge(m) = &case.op {
        let src_null_first = m.src.iter().any(|r| r[0].is_null());
        if !v.is_empty() && op_kind(&case.op) == "merge/join-based-path" && case.t.key_first && (before.iter().any(|r| r[0].is_null()) || src_null_first) {
            let visible: Vec<Row> = before.iter().filter(|r| !r[0].is_null()).cloned().collect();
            let invisible: Vec<Row> = before.iter().filter(|r| r[0].is_null()).cloned().collect();
            let op2 = Op::Merge(Merge { src: m.src.iter().filter(|r| !r[0].is_null()).cloned().collect(), ..m.clone() });
            let alt = model(&visible, &op2);
            let explained = match (&alt, &obs.result) {
                (Expect::Rows { rows, .. }, Ok(_)) => {
                    let mut all = rows.clone();
                    all.extend(invisible.clone());
                    bag(all) == bag(obs.rows.clone())
                }
                (Expect::Error(_), Err(_)) => bag(before.to_vec()) == bag(obs.rows.clone()),
                _ => false,
            };
            if explained {
                for x in v.iter_mut() {
                    if ["rows", "unexpected-error", "must-fail", "stats"].contains(&x.oracle.as_str()) && !x.key.ends_with("/phantom-all-null-row-written") && !x.key.ends_with("/null-keys-match-in-unindexed-fragment") {
                        x.key = "merge/join-based-path/row-presence-decided-by-nullness-of-first-columns".to_string();
                    }
                }
            }
        }
    }
    v
}

fn judge_inner(case: &Case, before: &[Row], obs: &Observed) -> Vec<Violation> {
    let names = col_names();
    let exp = model(before, &case.op);
    let kind = op_kind(&case.op);
    let cj = serde_json::to_value(case).unwrap();
    let mut v = vec![];
    let mut push = |oracle: &str, key: String, what: String| {
        v.push(Violation::new(oracle, &key, what, cj.clone()));
    };
    // internal consistency of the counters with the resulting table (whatever the op did)
    if obs.count_all != obs.rows.len() {
        push("count_rows", format!("{kind}/count_rows-vs-scan"), format!("count_rows()={} but scan returns {} rows", obs.count_all, obs.rows.len()));
    }
    let kn = obs.rows.iter().filter(|r| r[ix("k")].is_null()).count();
    if let Some(c) = obs.count_k_null {
        if c != kn {
            push("count_rows_filter", format!("{kind}/count_rows(k IS NULL)-vs-scan"), format!("count_rows(k IS NULL)={c} but table has {kn}"));
        }
    }
    if let Some(cp) = &obs.count_pred {
        let p = match &case.op {
            Op::Delete { p } | Op::Update { p: Some(p), .. } => p,
            _ => unreachable!(),
        };
        let want = obs.rows.iter().filter(|r| p.eval(&getter(&names, r)) == Some(true)).count();
        match cp {
            Ok(n) if *n == want => {}
            Ok(n) => push("count_rows_filter", format!("{kind}/count_rows(filter)/{}", pred_shape(p)), format!("count_rows({}) = {n}, resulting table has {want} such rows: {}", p.sql(), show(&obs.rows))),
            Err(e) => push("count_rows_filter", format!("{kind}/count_rows(filter)-error/{}", pred_shape(p)), format!("count_rows({}) failed: {e}", p.sql())),
        }
    }
    if obs.physical < obs.rows.len() || obs.count_deleted != obs.physical - obs.rows.len() {
        push("count_deleted_rows", format!("{kind}/count_deleted_rows"), format!("count_deleted_rows()={} but fragments hold {} physical rows and {} live rows", obs.count_deleted, obs.physical, obs.rows.len()));
    }
    match (&exp, &obs.result) {
        (Expect::Error(why), Ok(_)) => {
            let (missing, extra) = bag_diff(before, &obs.rows);
            push(
                "must-fail",
                format!("{kind}/{}-accepted", if why.contains("more than one") { "duplicate-source-rows-for-one-target" } else { "when-matched-fail" }),
                format!("expected an error ({why}) but the operation succeeded; table before {} after {} (lost {} new {})", show(before), show(&obs.rows), show(&missing), show(&extra)),
            );
        }
        (Expect::Error(_), Err(_)) | (Expect::Rows { .. }, Err(_)) => {
            // an error must be without effect
            if bag(before.to_vec()) != bag(obs.rows.clone()) {
                push("error-without-effect", format!("{kind}/error-with-effect"), format!("operation failed ({}) but the table changed: before {} after {}", obs.result.as_ref().unwrap_err(), show(before), show(&obs.rows)));
            }
            if let (Expect::Rows { .. }, Err(e)) = (&exp, &obs.result) {
                if e.contains("non-nullable but contains null values") && matches!(case.op, Op::Merge(_)) {
                    // the merge tried to write an all-NULL row: a joined row without a source side was taken for a source row
                    push("unexpected-error", format!("{kind}/phantom-all-null-row-written"), format!("{}: operation failed: {e}; table {}", op_text(&case.op), show(before)));
                } else if !explicitly_unsupported(e) {
                    push("unexpected-error", format!("{kind}/unexpected-error/{}", err_shape(e)), format!("operation failed: {e}; table {}", show(before)));
                }
            }
        }
        (Expect::Rows { rows, touched, inserted, deleted }, Ok((t, i, d))) => {
            let (missing, extra) = bag_diff(rows, &obs.rows);
            if !missing.is_empty() || !extra.is_empty() {
                let dk = diff_kind(case, before, &missing, &extra);
                push("rows", format!("{kind}/{dk}"), format!("{}: expected {} got {} (missing {} unexpected {})", op_text(&case.op), show(rows), show(&obs.rows), show(&missing), show(&extra)));
            } else {
                // statistics reported by the operation
                let mut bad = vec![];
                if let Some(t) = t {
                    if t != touched {
                        bad.push(format!("updated {t} (model {touched})"));
                    }
                }
                if let Some(i) = i {
                    if i != inserted {
                        bad.push(format!("inserted {i} (model {inserted})"));
                    }
                }
                if let Some(d) = d {
                    if d != deleted {
                        bad.push(format!("deleted {d} (model {deleted})"));
                    }
                }
                if !bad.is_empty() {
                    push("stats", format!("{kind}/stats"), format!("{}: rows are right but reported {}", op_text(&case.op), bad.join(", ")));
                }
            }
        }
    }
    v
}

fn explicitly_unsupported(e: &str) -> bool {
    e.contains("not supported") || e.contains("Not supported") || e.contains("NotSupported")
}

fn err_shape(e: &str) -> String {
    // first few alphabetic words: stable across runs (no uuids, numbers)
    let e = match e.find("panicked with message") {
        Some(i) => format!("task panicked {}", &e[i + 21..]),
        None => e.to_string(),
    };
    e.split(|c: char| !c.is_ascii_alphabetic())
        .filter(|w| !w.is_empty())
        .take(7)
        .collect::<Vec<_>>()
        .join("-")
        .to_lowercase()
}

fn op_text(op: &Op) -> String {
    match op {
        Op::Delete { p } => format!("DELETE WHERE {}", p.sql()),
        Op::Update { set, p } => format!(
            "UPDATE SET {}{}",
            set.iter().map(|(c, e)| format!("{c} = {}", e.sql())).collect::<Vec<_>>().join(", "),
            p.as_ref().map(|p| format!(" WHERE {}", p.sql())).unwrap_or_default()
        ),
        Op::Merge(m) => format!(
            "MERGE ON {} source{:?}={} matched={} not_matched={} by_source={} btree={}",
            m.key, m.src_cols, show(&m.src), m.matched, m.not_matched, m.by_source, if m.unindexed_tail { "before-last-fragment" } else if m.indexed { "true" } else { "false" }
        ),
    }
}

fn diff_kind(case: &Case, before: &[Row], missing: &[Row], extra: &[Row]) -> String {
    let names = col_names();
    match &case.op {
        Op::Delete { p } => {
            // rows wrongly removed / wrongly kept, by the predicate's truth value on them
            let tv = |r: &Row| match p.eval(&getter(&names, r)) {
                Some(true) => "true",
                Some(false) => "false",
                None => "null",
            };
            let mut kinds: Vec<String> = missing.iter().map(|r| format!("removed-{}-row", tv(r))).collect();
            kinds.extend(extra.iter().map(|r| if before.contains(r) { format!("kept-{}-row", tv(r)) } else { "invented-row".to_string() }));
            kinds.sort();
            kinds.dedup();
            format!("{}/{}", pred_shape(p), kinds.join("+"))
        }
        Op::Update { set, .. } => {
            // do the wrong rows differ from the expected ones only in assigned columns?
            let assigned: Vec<usize> = set.iter().map(|(c, _)| names.iter().position(|x| x == c).unwrap()).collect();
            let same_outside = missing.len() == extra.len()
                && missing.iter().all(|m| {
                    extra.iter().any(|e| (0..names.len()).all(|i| assigned.contains(&i) || e[i] == m[i]))
                });
            if same_outside { "assigned-columns-wrong".into() } else { "other-rows-or-columns-wrong".into() }
        }
        Op::Merge(m) => {
            let ski = m.src_cols.iter().position(|x| *x == m.key).unwrap();
            let ki = names.iter().position(|x| *x == m.key).unwrap();
            let null_src = m.src.iter().any(|s| s[ski].is_null());
            let clauses = format!("{}+{}+{}", m.matched.split(':').next().unwrap(), m.not_matched, m.by_source.split(':').next().unwrap());
            if extra.is_empty() && !missing.is_empty() && null_src && missing.iter().all(|r| r[ki].is_null() && !before.contains(r)) {
                return "null-key-source-row-not-inserted".to_string();
            }
            let mut kinds = vec![];
            if !missing.is_empty() {
                kinds.push(if missing.iter().all(|r| before.contains(r)) { "target-row-lost" } else { "expected-new-row-missing" });
            }
            if !extra.is_empty() {
                kinds.push(if extra.iter().all(|r| before.contains(r)) { "target-row-kept" } else { "unexpected-new-row" });
            }
            format!("{clauses}/{}", kinds.join("+"))
        }
    }
}

// ------------------------------------------------------------------------------------------------
// driver

static REPS: std::sync::atomic::AtomicUsize = std::sync::atomic::AtomicUsize::new(3);

struct Stats {
    cov: Cov,
    viol: Vec<Violation>,
    unsupported: BTreeMap<String, u64>,
    cross_runs: u64,
    cross_wrong: u64,
    machinery: Vec<String>,
}

fn run_case(case: &Case, base: &MemStore, before: &[Row], st: &mut Stats) {
    let reps = match &case.op {
        // the implementation's assignment order comes from a HashMap: own the nondeterminism by
        // running such a case several times; every run is judged
        Op::Update { set, .. } if cross_read(set) => REPS.load(std::sync::atomic::Ordering::Relaxed),
        _ => 1,
    };
    for _ in 0..reps {
        let obs = match exec(base, &case.op) {
            Ok(o) => o,
            Err(e) if e.starts_with("panic:") => {
                st.viol.push(Violation::new("panic", &format!("{}/panic/{}", op_kind(&case.op), err_shape(&e)), e, serde_json::to_value(case).unwrap()));
                st.cov.eval(None);
                return;
            }
            Err(e) => {
                st.machinery.push(format!("{e} on {}", op_text(&case.op)));
                return;
            }
        };
        let exp = model(before, &case.op);
        if std::env::var("VX_DEBUG").is_ok() {
            eprintln!("DEBUG op={} result={:?} rows={} expected={:?}", op_text(&case.op), obs.result, show(&obs.rows), exp);
        }
        let nontrivial = match &exp {
            Expect::Rows { rows, .. } => bag(rows.clone()) != bag(before.to_vec()),
            Expect::Error(_) => true,
        };
        st.cov.eval(if nontrivial { Some(vcore::hash64(format!("{case:?}").as_bytes())) } else { None });
        let label = match (&exp, &obs.result) {
            (Expect::Rows { .. }, Ok(_)) => if nontrivial { "changed" } else { "no-op" },
            (Expect::Error(_), Err(_)) => "rejected-as-required",
            (Expect::Error(_), Ok(_)) => "accepted-but-must-fail",
            (Expect::Rows { .. }, Err(e)) => if explicitly_unsupported(e) { "explicitly-unsupported" } else { "unexpected-error" },
        };
        st.cov.outcome(&format!("{}:{label}", op_kind(&case.op).split('/').next().unwrap()));
        if let Err(e) = &obs.result {
            if explicitly_unsupported(e) {
                *st.unsupported.entry(format!("{}: {}", op_kind(&case.op), err_shape(e))).or_insert(0) += 1;
            }
        }
        let vs = judge(case, before, &obs);
        if reps > 1 {
            st.cross_runs += 1;
            if !vs.is_empty() {
                st.cross_wrong += 1;
            }
        }
        st.viol.extend(vs);
    }
}

/// what is enumerated on one table
#[derive(Clone, Copy, Debug)]
struct Plan {
    /// update: all where-predicates (else 3)
    full_wheres: bool,
    merge: bool,
    /// also run the deletes and updates on this table
    dml: bool,
}

fn table_ops(spec: &TableSpec, ctx: &Ctx, plan: Plan) -> Vec<Op> {
    let quick = ctx.quick();
    let merge_here = plan.merge;
    let ps = preds();
    let mut ops = vec![];
    // merges first: under a wall cap the merge space of a table is explored before its deletes/updates
    if merge_here {
        for m in merge_cases(spec, quick) {
            ops.push(Op::Merge(m));
        }
    }
    if !plan.dml {
        return ops;
    }
    for p in &ps {
        ops.push(Op::Delete { p: p.clone() });
    }
    let wheres: Vec<Option<Pred>> = if !plan.full_wheres {
        vec![None, Some(ps[5].clone()), Some(ps[12].clone())]
    } else {
        std::iter::once(None).chain(ps.iter().cloned().map(Some)).collect()
    };
    for s in set_lists() {
        for w in &wheres {
            ops.push(Op::Update { set: s.clone(), p: w.clone() });
        }
    }
    ops
}

fn run_table(spec: &TableSpec, ctx: &Ctx, plan: Plan, budget: &Budget, st: &mut Stats) -> bool {
    KEY_FIRST.with(|c| c.set(spec.key_first));
    let before = spec.model_rows();
    let ops = table_ops(spec, ctx, plan);
    let plain = match block_on(build_base(spec, None, false)) {
        Ok(s) => s,
        Err(e) => {
            st.machinery.push(e);
            return true;
        }
    };
    let mut indexed: BTreeMap<String, MemStore> = BTreeMap::new();
    for op in ops {
        if budget.over() {
            return false;
        }
        let base = match &op {
            Op::Merge(m) if m.indexed => {
                let ik = format!("{}/{}", m.key, m.unindexed_tail);
                if !indexed.contains_key(&ik) {
                    match block_on(build_base(spec, Some(&m.key), m.unindexed_tail)) {
                        Ok(s) => {
                            indexed.insert(ik.clone(), s);
                        }
                        Err(e) => {
                            st.machinery.push(e);
                            continue;
                        }
                    }
                }
                indexed[&ik].clone()
            }
            _ => plain.clone(),
        };
        let case = Case { t: spec.clone(), op };
        run_case(&case, &base, &before, st);
    }
    true
}

fn replay(ctx: &Ctx, art: &Value) -> Outcome {
    let mut out = Outcome::new("exploration");
    let case: Case = serde_json::from_value(art["case"].clone())
        .unwrap_or_else(|e| vcore::machinery_error(&format!("bad C12 case: {e}")));
    let mut st = new_stats();
    KEY_FIRST.with(|c| c.set(case.t.key_first));
    let (idx, tail) = match &case.op {
        Op::Merge(m) if m.indexed => (Some(m.key.clone()), m.unindexed_tail),
        _ => (None, false),
    };
    let base = block_on(build_base(&case.t, idx.as_deref(), tail)).unwrap_or_else(|e| vcore::machinery_error(&e));
    // replay several times: reports the reproduction rate for nondeterministic implementations
    let n = 8;
    let mut failed = 0;
    for _ in 0..n {
        let before = st.viol.len();
        run_case(&case, &base, &case.t.model_rows(), &mut st);
        if st.viol.len() > before {
            failed += 1;
        }
    }
    eprintln!("replay: {failed}/{n} executions violate");
    out.set("replay_runs", n as u64);
    out.set("replay_violating_runs", failed as u64);
    st.cov.fill(&mut out, "replay of one case", false);
    out.violations = st.viol;
    let _ = ctx;
    out
}

fn new_stats() -> Stats {
    Stats { cov: Cov::new(), viol: vec![], unsupported: BTreeMap::new(), cross_runs: 0, cross_wrong: 0, machinery: vec![] }
}

pub fn run(ctx: &Ctx) -> Outcome {
    if let Some(art) = ctx.replay_case() {
        return replay(ctx, &art);
    }
    let mut out = Outcome::new("exploration");
    let quick = ctx.quick();
    // table family
    let mut specs: Vec<(TableSpec, Plan)> = vec![];
    let is_sorted = |frags: &Vec<Vec<(Cell, Cell)>>| {
        let vals = row_values();
        let ix: Vec<usize> = frags.iter().flatten().map(|r| vals.iter().position(|v| v == r).unwrap()).collect();
        ix.windows(2).all(|w| w[0] <= w[1])
    };
    for frags in tables(3, quick) {
        let n: usize = frags.iter().map(|f| f.len()).sum();
        // quick: all tables of <=2 rows in both layouts; 3-row tables in one fragment and with pairwise
        // distinct rows only
        if quick && n == 3 && (frags.len() > 1 || frags[0][0] == frags[0][1] || frags[0][1] == frags[0][2]) {
            continue;
        }
        // merge_insert is enumerated on tables whose v column is constant (the payload does not
        // influence matching), of <=2 rows in quick
        let v_plain = frags.iter().flatten().all(|(_, v)| *v == Cell::s("a"));
        let merge = v_plain && n <= ctx.tier.pick(2, 3);
        let full_wheres = !quick && is_sorted(&frags);
        specs.push((TableSpec { frags, prep: "none".into(), stable_row_ids: false, key_first: false }, Plan { full_wheres, merge, dml: true }));
    }
    // prior histories: a deletion vector in fragment 0 / compacted fragments / stable row ids
    let mut extra = vec![];
    for (s, plan) in &specs {
        let n: usize = s.frags.iter().map(|f| f.len()).sum();
        let two = s.frags.len() == 2;
        let ks: Vec<&Cell> = s.frags.iter().flatten().map(|(k, _)| k).collect();
        let pick = if quick {
            // two-fragment two-row tables {0, NULL} and {0, 0} with v = 'a'
            plan.merge && two && n == 2 && ks.contains(&&Cell::I(0)) && (ks.contains(&&Cell::Null) || ks.iter().all(|k| **k == Cell::I(0)))
        } else {
            n >= 2 && is_sorted(&s.frags)
        };
        if pick {
            let p = Plan { full_wheres: false, merge: plan.merge && n <= 2, dml: true };
            extra.push((TableSpec { prep: "delvec".into(), ..s.clone() }, p));
            if two {
                extra.push((TableSpec { prep: "compact".into(), ..s.clone() }, p));
            }
            extra.push((TableSpec { stable_row_ids: true, ..s.clone() }, p));
        }
    }
    specs.extend(extra);
    if quick {
        // the sorted family holds (NULL | 0) but not (0 | NULL): the NULL key in the last (possibly
        // un-indexed) fragment, and a 3-row table with NULL keys on both sides
        let a = |k: Cell| (k, Cell::s("a"));
        for frags in [
            vec![vec![a(Cell::I(0))], vec![a(Cell::Null)]],
            vec![vec![a(Cell::I(1)), a(Cell::Null)], vec![a(Cell::I(0))]],
            vec![vec![a(Cell::Null)], vec![a(Cell::I(0)), a(Cell::Null)]],
        ] {
            specs.push((TableSpec { frags, prep: "none".into(), stable_row_ids: false, key_first: false }, Plan { full_wheres: false, merge: true, dml: true }));
        }
    }
    // the same merge space on the column order (k, uid, v, w) for every merge table whose target holds
    // a NULL key: the join-based path classifies joined rows by the leading columns of the batch
    let twins: Vec<(TableSpec, Plan)> = specs
        .iter()
        .filter(|(s, p)| p.merge && s.prep == "none" && !s.stable_row_ids && (!quick || s.frags.iter().flatten().any(|(k, _)| k.is_null())))
        .map(|(s, p)| (TableSpec { key_first: true, ..s.clone() }, Plan { dml: !quick, ..*p }))
        .collect();
    specs.extend(twins);
    // tables with merge_insert first, those with a NULL key in the target before the others
    specs.sort_by_key(|(s, p)| {
        let has_null = s.frags.iter().flatten().any(|(k, _)| k.is_null());
        (!p.merge, !has_null)
    });
    if ctx.seed != 0 {
        let n = specs.len();
        specs.rotate_left((ctx.seed as usize) % n);
    }
    let n_tables = specs.len();
    let budget = Budget::new(ctx.opts.get("budget").and_then(|b| b.parse().ok()).unwrap_or(ctx.tier.pick(40.0, 840.0)));
    REPS.store(ctx.tier.pick(2, 3), std::sync::atomic::Ordering::Relaxed);
    let results = vcore::par_map(specs, ctx.workers, |_, (spec, plan)| {
        let mut st = new_stats();
        let done = run_table(&spec, ctx, plan, &budget, &mut st);
        (st, done)
    });
    let mut all = new_stats();
    let mut complete = true;
    let mut tables_done = 0u64;
    for (st, done) in results {
        all.cov.merge(st.cov);
        all.viol.extend(st.viol);
        for (k, v) in st.unsupported {
            *all.unsupported.entry(k).or_insert(0) += v;
        }
        all.cross_runs += st.cross_runs;
        all.cross_wrong += st.cross_wrong;
        all.machinery.extend(st.machinery);
        complete &= done;
        if done {
            tables_done += 1;
        }
    }
    if !all.machinery.is_empty() {
        vcore::machinery_error(&format!("{} machinery failures, first: {}", all.machinery.len(), all.machinery[0]));
    }
    all.cov.sample(json!({"op": "DELETE WHERE (NOT (k = 0))", "table": "[(0,NULL,'a',10) | (1,0,NULL,11) (2,1,'a',12)]"}));
    all.cov.sample(json!({"op": "UPDATE SET k = w, w = k WHERE (k IS NULL)", "table": "[(0,NULL,NULL,10) (1,1,'a',11)]"}));
    all.cov.sample(json!({"op": "MERGE ON k source[(100,NULL,'s0',50) (101,0,'s1',51)] matched=update_all not_matched=insert_all by_source=keep btree=true", "table": "[(0,0,'a',10) | (1,NULL,'a',11)]"}));
    all.cov.fill(
        &mut out,
        "tables = every table of 1..3 rows over k in {NULL,0,1} x v in {NULL,'a'} in 1 or 2 fragments (quick: multisets; thorough: ordered) + prior-history variants (deletion vector, compaction, stable row ids); ops = delete(p) for the whole predicate family (10 atoms, their NOTs, AND/OR pairs of 4 atoms, constants, NULL literal, IN with NULL, IS TRUE/FALSE), update for 6 set-lists x where-predicates, merge_insert over key {k,uid} x source key batches x schemas x when-clauses x {btree,none}. non-trivial = the model says the table changes or the op must be rejected",
        complete,
    );
    out.set("thread_seconds_open_apply_observe", json!([T_OPEN.load(std::sync::atomic::Ordering::Relaxed) as f64 / 1e6, T_APPLY.load(std::sync::atomic::Ordering::Relaxed) as f64 / 1e6, T_OBS.load(std::sync::atomic::Ordering::Relaxed) as f64 / 1e6]));
    out.set("tables", n_tables as u64);
    out.set("tables_completed", tables_done);
    if !complete {
        out.set("cap_hit", "wall budget");
    }
    out.set("explicitly_unsupported_not_judged", json!(all.unsupported));
    out.set("cross_read_update_runs", all.cross_runs);
    out.set("cross_read_update_runs_deviating_from_sql", all.cross_wrong);
    out.assume("reference = harness 3VL evaluator (vds::pred) and a Vec<Row> MERGE model; rows compared as bags");
    out.assume("object store = in-memory MemStore through the object_store_wrapper seam; every op starts from a snapshot of the base table and is observed through a freshly opened handle");
    out.violations = all.viol;
    out
}
