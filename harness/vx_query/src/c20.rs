//! C20 – inexact scalar indices (zone map, bloom filter, n-gram) never drop a matching row.
//!
//! (a) dataset level: the C19 machinery (fixed 8-row 2-fragment tables per column family, histories
//!     over {append, delete, update, compact, optimize_indices}, the whole predicate family) with
//!     zonemap (rows_per_zone in {1,2,8}), bloomfilter (3 (items, probability) settings) and ngram
//!     indices, stable row ids on and off: scan(with index) == scan(without) == 3VL model;
//! (b) `ScalarIndex::search` level (reached through the public `DatasetIndexInternalExt::
//!     open_scalar_index`): for every index segment and every accepted query over the value domain the
//!     returned row set is a superset (AtMost) / equal (Exact) / subset (AtLeast) of the true matches
//!     inside the fragments the segment covers;
//! (c) `Sbbf` directly: every subset of a 10-key universe inserted (3 filter sizes, 4 key types),
//!     every key of the subset queried: no false negative; round trip through `to_bytes`.

use crate::c19::{self, fam_by_label, HOp, Plan};
use crate::common::*;
use crate::qutil::*;
use arrow_schema::DataType;
use datafusion_common::ScalarValue;
use lance::index::DatasetIndexInternalExt;
use lance_index::metrics::NoOpMetricsCollector;
use crate::scalar::bloomfilter::sbbf::{Sbbf, SbbfBuilder};
use lance_index::scalar::{BloomFilterQuery, SargableQuery, SearchResult, TextQuery};
use lance_index::DatasetIndexExt;
use serde_json::json;
use std::collections::BTreeMap;
use std::ops::Bound;
use vcore::{Cov, Ctx, Outcome, Violation};
use vds::cells::Cell;
use vds::pred::cell_cmp;
use vds::{run_catch, URI};

// ------------------------------------------------------------------------------------------------
// (c) Sbbf

fn sbbf_direct(cov: &mut Cov, viol: &mut Vec<Violation>) {
    let universe_u64: Vec<u64> = vec![0, 1, 2, u64::MAX, 1 << 32, 255, 256, 65535, 0x8000_0000_0000_0000, 12345678901234567];
    let universe_str: Vec<&str> = vec!["", "a", "b", "ab", "ba", "\u{10FFFF}", "aa", "A", " ", "a\0"];
    for (cfg, mk) in [
        ("log2_bytes=5 (one block)", Box::new(|| Sbbf::with_log2_num_bytes(5)) as Box<dyn Fn() -> Sbbf>),
        ("ndv=10,fpp=0.01", Box::new(|| Sbbf::with_ndv_fpp(10, 0.01).unwrap())),
        ("builder ndv=2,fpp=0.5", Box::new(|| SbbfBuilder::new().expected_items(2).false_positive_probability(0.5).build().unwrap())),
    ] {
        for mask in vcore::smallx::subsets(10) {
            let members = vcore::smallx::mask_to_vec(mask, 10);
            for ty in ["u64", "i32", "str", "f64"] {
                let r = vcore::catch(|| {
                    let mut f = mk();
                    for i in &members {
                        match ty {
                            "u64" => f.insert(&universe_u64[*i]),
                            "i32" => f.insert(&(universe_u64[*i] as i32)),
                            "f64" => f.insert(&(universe_u64[*i] as f64)),
                            _ => f.insert(universe_str[*i]),
                        }
                    }
                    let check = |f: &Sbbf, i: usize| match ty {
                        "u64" => f.check(&universe_u64[i]),
                        "i32" => f.check(&(universe_u64[i] as i32)),
                        "f64" => f.check(&(universe_u64[i] as f64)),
                        _ => f.check(universe_str[i]),
                    };
                    let missing: Vec<usize> = members.iter().cloned().filter(|i| !check(&f, *i)).collect();
                    // serialisation round trip keeps every member
                    let g = Sbbf::new(&f.to_bytes()).map_err(|e| format!("{e}"));
                    let missing_rt: Result<Vec<usize>, String> = g.map(|g| members.iter().cloned().filter(|i| !check(&g, *i)).collect());
                    let fp = (0..10).filter(|i| !members.contains(i) && check(&f, *i)).count();
                    (missing, missing_rt, fp)
                });
                let nontrivial = !members.is_empty() && members.len() < 10;
                cov.eval(if nontrivial { Some(vcore::hash64(format!("sbbf{cfg}{ty}{mask}").as_bytes())) } else { None });
                let case = json!({"kind": "sbbf", "config": cfg, "type": ty, "subset": members});
                match r {
                    Err(p) => viol.push(Violation::new("sbbf", &format!("sbbf/panic/{}", err_shape(&p)), format!("Sbbf {cfg} {ty} subset {members:?} panics: {p}"), case)),
                    Ok((missing, missing_rt, fp)) => {
                        cov.outcome(if fp > 0 { "sbbf-with-false-positives" } else { "sbbf-exact" });
                        if !missing.is_empty() {
                            viol.push(Violation::new("sbbf", &format!("sbbf/false-negative/{ty}"), format!("Sbbf {cfg}: inserted {members:?} ({ty}) but check() is false for {missing:?}"), case.clone()));
                        }
                        match missing_rt {
                            Ok(m) if m.is_empty() => {}
                            Ok(m) => viol.push(Violation::new("sbbf", &format!("sbbf/false-negative-after-to_bytes/{ty}"), format!("Sbbf {cfg}: after to_bytes/new round trip check() is false for {m:?}"), case)),
                            Err(e) => viol.push(Violation::new("sbbf", "sbbf/to_bytes-not-readable", format!("Sbbf {cfg}: Sbbf::new(to_bytes()) fails: {e}"), case)),
                        }
                    }
                }
            }
        }
    }
}

// ------------------------------------------------------------------------------------------------
// (b) search level

fn scalar_of(c: &Cell, dt: &DataType) -> Option<ScalarValue> {
    Some(match (c, dt) {
        (Cell::I(v), DataType::Int32) => ScalarValue::Int32(Some(*v as i32)),
        (Cell::F(b), DataType::Float64) => ScalarValue::Float64(Some(f64::from_bits(*b))),
        (Cell::F(b), DataType::Float32) => ScalarValue::Float32(Some(f64::from_bits(*b) as f32)),
        (Cell::S(s), DataType::Utf8) => ScalarValue::Utf8(Some(s.clone())),
        _ => return None,
    })
}

enum SQ {
    Eq(Cell),
    In(Vec<Cell>),
    IsNull,
    Range(Bound<Cell>, Bound<Cell>),
    Contains(String),
}

impl SQ {
    fn matches(&self, v: &Cell) -> bool {
        use std::cmp::Ordering::*;
        match self {
            SQ::Eq(l) => cell_cmp(v, l) == Some(Equal),
            SQ::In(ls) => ls.iter().any(|l| cell_cmp(v, l) == Some(Equal)),
            SQ::IsNull => v.is_null(),
            SQ::Range(lo, hi) => {
                if v.is_null() {
                    return false;
                }
                let a = match lo {
                    Bound::Unbounded => true,
                    Bound::Included(l) => cell_cmp(v, l).map(|o| o != Less).unwrap_or(false),
                    Bound::Excluded(l) => cell_cmp(v, l) == Some(Greater),
                };
                let b = match hi {
                    Bound::Unbounded => true,
                    Bound::Included(l) => cell_cmp(v, l).map(|o| o != Greater).unwrap_or(false),
                    Bound::Excluded(l) => cell_cmp(v, l) == Some(Less),
                };
                a && b
            }
            SQ::Contains(s) => v.as_str().map(|x| x.contains(s.as_str())).unwrap_or(false),
        }
    }
    fn label(&self) -> String {
        match self {
            SQ::Eq(_) => "equals".into(),
            SQ::In(_) => "is_in".into(),
            SQ::IsNull => "is_null".into(),
            SQ::Range(a, b) => format!(
                "range-{}-{}",
                match a { Bound::Unbounded => "unbounded", Bound::Included(_) => "incl", Bound::Excluded(_) => "excl" },
                match b { Bound::Unbounded => "unbounded", Bound::Included(_) => "incl", Bound::Excluded(_) => "excl" }
            ),
            SQ::Contains(_) => "contains".into(),
        }
    }
}

fn search_queries(kind: &str, fam: &c19::ColFam) -> Vec<SQ> {
    let mut lits = fam.dom.clone();
    lits.extend(fam.extra_lits.clone());
    lits.sort();
    lits.dedup();
    let mut out = vec![SQ::IsNull];
    if kind == "ngram" {
        for s in ["abc", "bcd", "ABC", "xab", "d\u{e9}", "\u{672c}\u{8a9e}a", "c d", "zzz", "abcd", "\u{65e5}\u{672c}\u{8a9e}"] {
            out.push(SQ::Contains(s.to_string()));
        }
        return out.into_iter().filter(|q| !matches!(q, SQ::IsNull)).collect();
    }
    for l in &lits {
        out.push(SQ::Eq(l.clone()));
    }
    out.push(SQ::In(vec![lits[0].clone(), lits[lits.len() - 1].clone()]));
    out.push(SQ::In(vec![fam.dom[1].clone()]));
    if kind == "zonemap" {
        for l in &lits {
            out.push(SQ::Range(Bound::Unbounded, Bound::Excluded(l.clone())));
            out.push(SQ::Range(Bound::Unbounded, Bound::Included(l.clone())));
            out.push(SQ::Range(Bound::Excluded(l.clone()), Bound::Unbounded));
            out.push(SQ::Range(Bound::Included(l.clone()), Bound::Unbounded));
        }
        let d = &fam.dom;
        out.push(SQ::Range(Bound::Included(d[1].clone()), Bound::Included(d[3].clone())));
        out.push(SQ::Range(Bound::Excluded(d[1].clone()), Bound::Excluded(d[3].clone())));
        out.push(SQ::Range(Bound::Included(d[2].clone()), Bound::Included(d[2].clone())));
    }
    out
}

fn search_key(kind: &str, index: &str, fam: &str, q: &SQ, name: &str, history: &[HOp]) -> String {
    let stable = c19::parse_index(index).2;
    if (kind == "zonemap" || kind == "bloomfilter") && stable {
        return format!("{kind}/stable-row-ids/index-drops-rows");
    }
    if let SQ::Contains(s) = q {
        return format!("ngram/contains-{}/index-drops-rows", c19::str_class(s));
    }
    format!("search/{index}/{fam}/{}/{name}-result-misses-true-match/{}", q.label(), c19::hist_label_pub(history))
}

async fn search_level(fam: &c19::ColFam, index: &str, history: &[HOp], cov: &mut Cov, viol: &mut Vec<Violation>) -> Result<(), String> {
    let (kind, _, _) = c19::parse_index(index);
    let st = c19::build_state_pub(fam, index, history).await?;
    let ds = st.env.open(URI).await.map_err(|e| format!("open: {e}"))?;
    // uid -> (_rowid, _rowaddr)
    let mut sc = ds.scan();
    sc.project(&["uid"]).map_err(|e| e.to_string())?;
    sc.with_row_id().with_row_address();
    let rows = {
        use futures::TryStreamExt;
        let b: Vec<arrow_array::RecordBatch> = sc.try_into_stream().await.map_err(|e| e.to_string())?.try_collect().await.map_err(|e| e.to_string())?;
        vds::cells::batches_rows(&b)
    };
    let mut ids: BTreeMap<i64, (u64, u64)> = BTreeMap::new();
    for r in &rows {
        let g = |c: &Cell| match c {
            Cell::U(u) => *u,
            Cell::I(i) => *i as u64,
            _ => u64::MAX,
        };
        ids.insert(r[0].as_i64().unwrap(), (g(&r[1]), g(&r[2])));
    }
    let segments = ds.load_indices().await.map_err(|e| e.to_string())?;
    for seg in segments.iter().filter(|i| !i.name.starts_with("__")) {
        let covered: Vec<u32> = seg.fragment_bitmap.as_ref().map(|b| b.iter().collect()).unwrap_or_default();
        let idx = ds.open_scalar_index("c", &seg.uuid.to_string(), &NoOpMetricsCollector).await.map_err(|e| format!("open_scalar_index: {e}"))?;
        for q in search_queries(&kind, fam) {
            let res = match (&q, kind.as_str()) {
                (SQ::Contains(s), _) => idx.search(&TextQuery::StringContains(s.clone()), &NoOpMetricsCollector).await,
                (SQ::Eq(l), "bloomfilter") => idx.search(&BloomFilterQuery::Equals(scalar_of(l, &fam.dt).unwrap()), &NoOpMetricsCollector).await,
                (SQ::In(ls), "bloomfilter") => idx.search(&BloomFilterQuery::IsIn(ls.iter().map(|l| scalar_of(l, &fam.dt).unwrap()).collect()), &NoOpMetricsCollector).await,
                (SQ::IsNull, "bloomfilter") => idx.search(&BloomFilterQuery::IsNull(), &NoOpMetricsCollector).await,
                (SQ::Eq(l), _) => idx.search(&SargableQuery::Equals(scalar_of(l, &fam.dt).unwrap()), &NoOpMetricsCollector).await,
                (SQ::In(ls), _) => idx.search(&SargableQuery::IsIn(ls.iter().map(|l| scalar_of(l, &fam.dt).unwrap()).collect()), &NoOpMetricsCollector).await,
                (SQ::IsNull, _) => idx.search(&SargableQuery::IsNull(), &NoOpMetricsCollector).await,
                (SQ::Range(a, b), _) => {
                    let cv = |x: &Bound<Cell>| match x {
                        Bound::Unbounded => Bound::Unbounded,
                        Bound::Included(l) => Bound::Included(scalar_of(l, &fam.dt).unwrap()),
                        Bound::Excluded(l) => Bound::Excluded(scalar_of(l, &fam.dt).unwrap()),
                    };
                    idx.search(&SargableQuery::Range(cv(a), cv(b)), &NoOpMetricsCollector).await
                }
            };
            // true matches inside the fragments this segment covers (by row address)
            let truth: Vec<(i64, u64, u64)> = st
                .model
                .iter()
                .filter(|(_, v)| q.matches(v))
                .filter_map(|(u, _)| ids.get(u).map(|(id, addr)| (*u, *id, *addr)))
                .filter(|(_, _, addr)| covered.contains(&((*addr >> 32) as u32)))
                .collect();
            let nontrivial = !truth.is_empty();
            cov.eval(if nontrivial { Some(vcore::hash64(format!("search{}{index}{history:?}{}{:?}", fam.label, q.label(), truth).as_bytes())) } else { None });
            let case = json!({"kind": "search", "fam": fam.label, "index": index, "history": history, "query": q.label()});
            match res {
                Err(e) => {
                    cov.outcome("search-rejected");
                    let _ = e;
                }
                Ok(sr) => {
                    let (name, set) = match &sr {
                        SearchResult::Exact(s) => ("exact", s),
                        SearchResult::AtMost(s) => ("at-most", s),
                        SearchResult::AtLeast(s) => ("at-least", s),
                    };
                    cov.outcome(&format!("search-{name}"));
                    // the index answers in row ids (stable) or row addresses; accept either consistently
                    let miss_addr: Vec<i64> = truth.iter().filter(|(_, _, a)| !set.contains(*a)).map(|t| t.0).collect();
                    let miss_id: Vec<i64> = truth.iter().filter(|(_, i, _)| !set.contains(*i)).map(|t| t.0).collect();
                    let missing = if miss_addr.len() <= miss_id.len() { miss_addr } else { miss_id };
                    if name != "at-least" && !missing.is_empty() {
                        viol.push(Violation::new(
                            "search-superset",
                            &search_key(&kind, index, fam.label, &q, name, history),
                            format!("{} {index} after {history:?}: search({}) returned a {name} set that lacks the matching rows uid {missing:?}", fam.label, q.label()),
                            case,
                        ));
                    }
                }
            }
        }
    }
    Ok(())
}

// ------------------------------------------------------------------------------------------------

pub fn run(ctx: &Ctx) -> Outcome {
    if let Some(art) = ctx.replay_case() {
        if art["case"]["kind"] == "sbbf" || art["case"]["kind"] == "search" {
            let mut out = Outcome::new("exploration");
            let mut cov = Cov::new();
            let mut viol = vec![];
            if art["case"]["kind"] == "sbbf" {
                sbbf_direct(&mut cov, &mut viol);
            } else {
                let fam = fam_by_label(art["case"]["fam"].as_str().unwrap_or(""));
                let hist: Vec<HOp> = serde_json::from_value(art["case"]["history"].clone()).unwrap_or_default();
                let idx = art["case"]["index"].as_str().unwrap_or("").to_string();
                if let Ok(Err(e)) | Err(e) = run_catch(search_level(&fam, &idx, &hist, &mut cov, &mut viol)).map(|r| r) {
                    vcore::machinery_error(&e);
                }
            }
            if let Some(k) = art["key"].as_str() {
                viol.retain(|v| v.key == k);
            }
            cov.fill(&mut out, "replay", false);
            out.violations = viol;
            return out;
        }
        return c19::replay(&art);
    }
    let quick = ctx.quick();
    let mut combos: Vec<(c19::ColFam, String)> = vec![];
    let zm: Vec<&str> = if quick { vec!["zonemap-rpz2"] } else { vec!["zonemap-rpz1", "zonemap-rpz2", "zonemap-rpz8"] };
    let bf: Vec<&str> = if quick { vec!["bloomfilter-n2-p01"] } else { vec!["bloomfilter-n2-p01", "bloomfilter-n8-p001", "bloomfilter-n1-p5"] };
    for fl in ["int32", "float64", "utf8"] {
        if quick && fl == "utf8" {
            continue;
        }
        for z in &zm {
            combos.push((fam_by_label(fl), z.to_string()));
        }
    }
    for fl in ["int32", "utf8", "float64"] {
        if quick && fl == "float64" {
            continue;
        }
        for b in &bf {
            combos.push((fam_by_label(fl), b.to_string()));
        }
    }
    combos.push((fam_by_label("text"), "ngram".into()));
    // stable row ids (the zone map answers in row addresses)
    combos.push((fam_by_label("int32"), "zonemap-rpz2+stable".into()));
    if !quick {
        combos.push((fam_by_label("float32"), "zonemap-rpz2".into()));
        combos.push((fam_by_label("utf8"), "bloomfilter-n2-p01+stable".into()));
        combos.push((fam_by_label("text"), "ngram+stable".into()));
        combos.push((fam_by_label("float64"), "zonemap-rpz1+stable".into()));
    }
    let hs: Vec<Vec<HOp>> = if quick {
        vec![
            vec![],
            vec![HOp::Append],
            vec![HOp::Append, HOp::Optimize],
            vec![HOp::Delete],
            vec![HOp::UpdateVal],
            vec![HOp::Compact],
            vec![HOp::UpdateVal, HOp::Optimize],
            vec![HOp::Delete, HOp::Compact],
        ]
    } else {
        let mut h = c19::histories(&c19::ALL_OPS, 2);
        h.sort();
        h.dedup();
        h
    };
    let plan = Plan {
        combos: combos.clone(),
        histories: hs.clone(),
        deep_fams: vec![],
        // the search-level and Sbbf parts run after the dataset-level part
        quick_budget_s: 28.0,
        extra_items: vec![],
        rule: "dataset level: items = (column family, inexact index with parameters, stable row ids, history) x the whole predicate family scanned with and without the index; search level: every index segment x every accepted query over the domain; Sbbf: 3 sizes x 4 key types x all 1024 subsets of a 10-key universe. non-trivial = some but not all rows / keys expected",
    };
    let mut out = c19::run_plan(ctx, plan);
    // (b) + (c)
    let mut cov = Cov::new();
    let mut viol = vec![];
    sbbf_direct(&mut cov, &mut viol);
    let sitems: Vec<(c19::ColFam, String, Vec<HOp>)> = combos
        .iter()
        // after a compaction with deferred index remap the segment answers in pre-compaction addresses
        // that are translated later in the read path: no simple ground truth at this level
        .flat_map(|(f, i)| hs.iter().filter(|h| !h.contains(&HOp::CompactDefer) && (!quick || h.len() <= 1 || h[1] == HOp::Optimize)).map(move |h| (f.clone(), i.clone(), h.clone())))
        .collect();
    let n_search_items = sitems.len();
    let res = vcore::par_map(sitems, ctx.workers, |_, (f, i, h)| {
        let mut cov = Cov::new();
        let mut viol = vec![];
        let r = run_catch(search_level(&f, &i, &h, &mut cov, &mut viol));
        let err = match r {
            Ok(Ok(())) => None,
            Ok(Err(e)) => Some(e),
            Err(p) => {
                viol.push(Violation::new("panic", &format!("search/{i}/{}/panic/{}", f.label, err_shape(&p)), format!("search on {i} after {h:?} panics: {p}"), json!({"kind": "search", "fam": f.label, "index": i, "history": h})));
                None
            }
        };
        (cov, viol, err)
    });
    for (c, v, e) in res {
        if let Some(e) = e {
            vcore::machinery_error(&format!("search-level set-up failed: {e}"));
        }
        cov.merge(c);
        viol.extend(v);
    }
    // merge coverage of (b), (c) into the outcome
    let ev = out.coverage.get("evaluations").and_then(|v| v.as_u64()).unwrap_or(0);
    let dn = out.coverage.get("distinct_nontrivial").and_then(|v| v.as_u64()).unwrap_or(0);
    out.set("evaluations", ev + cov.evaluations);
    out.set("distinct_nontrivial", dn + cov.nontrivial.len() as u64);
    out.set("dataset_level_evaluations", ev);
    out.set("search_level_items", n_search_items as u64);
    out.set("search_and_sbbf_outcomes", json!(cov.outcomes));
    c19::merge_history_keys(&mut viol);
    out.violations.extend(viol);
    out.assume("dataset-level tables are the fixed C19 family tables; ngram uses a text family with case / unicode / blanks / shorter-than-trigram strings");
    out.assume("search-level truth is restricted to the fragments in the segment's fragment bitmap; a result set may hold row ids or row addresses");
    out
}
