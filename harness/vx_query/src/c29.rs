//! C29 – statistics-based pruning is conservative.
//!
//! Tables: per column family (float64, float32, int32, utf8) one table whose rows are ALL unordered
//! pairs (with repetition) of the family's boundary domain ({NaN, +-0, +-inf, NULL, -1, 1}; strings
//! {"", "a", max code point, two strings sharing a 64-byte prefix (the statistics truncation length),
//! a string of max code points longer than the truncation length, NULL}), one pair per row group /
//! zone, so that every (min, max, null count, NaN count) statistic over the domain occurs.
//!   (a) legacy storage format (data_storage_version = legacy, max_rows_per_group = 2): page
//!       statistics + `use_stats` pushdown scan (LancePushdownScan),
//!   (b) current format + zone map index with rows_per_zone = 2.
//! Enumerated: every comparison (=, <>, <, <=, >, >=) against every domain / in-between literal, IS
//! [NOT] NULL, BETWEEN, IN, their NOTs and AND/OR pairs. Oracle: scan(pruning on) == scan(pruning
//! off) == 3VL model.

use crate::common::*;
use crate::qutil::*;
use arrow_schema::DataType;
use lance::Dataset;
use lance_file::version::LanceFileVersion;
use serde::{Deserialize, Serialize};
use serde_json::{json, Value};
use std::collections::BTreeMap;
use vcore::{Cov, Ctx, Outcome, Violation};
use vds::cells::Cell;
use vds::pred::{col, CmpOp, Expr, Pred};
use vds::{run_catch, Env, URI};

struct Fam {
    label: &'static str,
    dt: DataType,
    /// stored values (NULL is added)
    dom: Vec<Cell>,
    /// further literals (between / outside stored values)
    lits: Vec<Cell>,
}

fn long_a() -> String {
    format!("{}a", "p".repeat(64))
}
fn long_b() -> String {
    format!("{}b", "p".repeat(64))
}
fn long_max() -> String {
    format!("{}a", "\u{10FFFF}".repeat(17))
}

fn fams() -> Vec<Fam> {
    let f = Cell::f;
    vec![
        Fam { label: "float64", dt: DataType::Float64, dom: vec![f(f64::NEG_INFINITY), f(-1.0), f(-0.0), f(0.0), f(1.0), f(f64::INFINITY), f(f64::NAN)], lits: vec![f(0.5), f(-0.5), f(2.0)] },
        Fam { label: "float32", dt: DataType::Float32, dom: vec![f(f64::NEG_INFINITY), f(-1.0), f(-0.0), f(0.0), f(1.0), f(f64::INFINITY), f(f64::NAN)], lits: vec![f(0.5), f(2.0)] },
        Fam { label: "int32", dt: DataType::Int32, dom: vec![Cell::I(i32::MIN as i64), Cell::I(-1), Cell::I(0), Cell::I(1), Cell::I(i32::MAX as i64)], lits: vec![Cell::I(2), Cell::I(-2)] },
        Fam {
            label: "utf8",
            dt: DataType::Utf8,
            dom: vec![Cell::s(""), Cell::s("a"), Cell::S(long_a()), Cell::S(long_b()), Cell::s("\u{10FFFF}"), Cell::S(long_max())],
            lits: vec![Cell::S("p".repeat(64)), Cell::S(format!("{}aa", "p".repeat(64))), Cell::s("b"), Cell::S("\u{10FFFF}".repeat(16)), Cell::S("\u{10FFFF}".repeat(18))],
        },
    ]
}

/// all unordered pairs with repetition of dom + NULL; one pair per group
fn pair_rows(dom: &[Cell]) -> Vec<(i64, Cell)> {
    let mut vals = dom.to_vec();
    vals.push(Cell::Null);
    let mut rows = vec![];
    let mut uid = 0;
    for i in 0..vals.len() {
        for j in i..vals.len() {
            rows.push((uid, vals[i].clone()));
            rows.push((uid + 1, vals[j].clone()));
            uid += 2;
        }
    }
    rows
}

fn preds(fam: &Fam, quick: bool) -> Vec<Pred> {
    let c = || col("c");
    let mut lits = fam.dom.clone();
    lits.extend(fam.lits.clone());
    let mut atoms = vec![];
    for op in [CmpOp::Eq, CmpOp::Ne, CmpOp::Lt, CmpOp::Le, CmpOp::Gt, CmpOp::Ge] {
        for l in &lits {
            atoms.push(Pred::Cmp(c(), op, Expr::Lit(l.clone())));
        }
    }
    atoms.push(Pred::IsNull(c()));
    atoms.push(Pred::IsNotNull(c()));
    let d = &fam.dom;
    let n = d.len();
    for (lo, hi) in [(1, n - 2), (0, n - 1), (n - 2, 1), (2, 2)] {
        atoms.push(Pred::Between(c(), d[lo].clone(), d[hi].clone()));
    }
    atoms.push(Pred::In(c(), vec![d[1].clone(), d[n - 1].clone()]));
    atoms.push(Pred::In(c(), vec![d[2].clone(), Cell::Null]));
    let mut out = atoms.clone();
    for a in &atoms {
        out.push(Pred::Not(Box::new(a.clone())));
    }
    let pick = [
        Pred::Cmp(c(), CmpOp::Gt, Expr::Lit(d[1].clone())),
        Pred::Cmp(c(), CmpOp::Le, Expr::Lit(d[n - 2].clone())),
        Pred::Cmp(c(), CmpOp::Eq, Expr::Lit(d[n - 1].clone())),
        Pred::IsNull(c()),
        Pred::Cmp(col("uid"), CmpOp::Lt, Expr::Lit(Cell::I(20))),
    ];
    for i in 0..pick.len() {
        for j in (i + 1)..pick.len() {
            out.push(Pred::And(Box::new(pick[i].clone()), Box::new(pick[j].clone())));
            out.push(Pred::Or(Box::new(pick[i].clone()), Box::new(pick[j].clone())));
            if !quick {
                out.push(Pred::Not(Box::new(Pred::Or(Box::new(pick[i].clone()), Box::new(pick[j].clone())))));
                out.push(Pred::And(Box::new(pick[i].clone()), Box::new(Pred::Not(Box::new(pick[j].clone())))));
            }
        }
    }
    out
}

#[derive(Clone, Debug, Serialize, Deserialize)]
struct Case {
    fam: String,
    /// "legacy-stats" | "zonemap"
    mode: String,
    frags: usize,
    pred: Pred,
}

async fn build(fam: &Fam, mode: &str, frags: usize) -> Result<(Env, Dataset, Vec<(i64, Cell)>, Vec<(i64, Cell)>), String> {
    let env = Env::new();
    let rows = pair_rows(&fam.dom);
    let cols = vec![("uid".to_string(), DataType::Int32), ("c".to_string(), fam.dt.clone())];
    let all: Vec<Row> = rows.iter().map(|(u, c)| vec![Cell::I(*u), c.clone()]).collect();
    // fragments split on a pair boundary
    let cut = if frags == 2 { (all.len() / 4) * 2 } else { all.len() };
    let mut fr = vec![all[..cut].to_vec()];
    if cut < all.len() {
        fr.push(all[cut..].to_vec());
    }
    let tbl = Tbl { cols, frags: fr };
    let o = if mode == "legacy-stats" {
        TOpts { storage_version: Some(LanceFileVersion::Legacy), max_rows_per_group: Some(2), ..Default::default() }
    } else {
        TOpts::default()
    };
    let mut ds = create_tbl(&env, URI, &tbl, &o).await.map_err(|e| format!("create: {e}"))?;
    if mode == "zonemap" {
        create_scalar_index(&mut ds, "c", "zonemap", Some("{\"rows_per_zone\": 2}".into())).await.map_err(|e| format!("zonemap: {e}"))?;
    }
    let ds = env.open(URI).await.map_err(|e| format!("open: {e}"))?;
    // The reference rows are what an unfiltered scan returns: C29 is about pruning relative to the rows
    // that are stored. (The legacy format does not keep NULLs of fixed-width columns / distinguishes
    // NULL from "" differently; such storage infidelity belongs to C11/C25 and is only recorded.)
    let stored = scan_rows(&ds, None, Some(&["uid", "c"]), &Knobs::default()).await?;
    let mut stored: Vec<(i64, Cell)> = stored.into_iter().map(|r| (r[0].as_i64().unwrap_or(-1), r[1].clone())).collect();
    stored.sort_by_key(|r| r.0);
    if stored.len() != rows.len() {
        return Err(format!("unfiltered scan returns {} rows, {} written", stored.len(), rows.len()));
    }
    for ((u, w), (u2, r)) in rows.iter().zip(stored.iter()) {
        if u != u2 {
            return Err(format!("uid mismatch {u} vs {u2}"));
        }
        if w != r {
            FIDELITY.lock().unwrap().insert(format!("{mode}/{}: written {} read back as {}", fam.label, show(&[vec![w.clone()]]), show(&[vec![r.clone()]])));
        }
    }
    Ok((env, ds, stored, rows))
}

static FIDELITY: std::sync::Mutex<std::collections::BTreeSet<String>> = std::sync::Mutex::new(std::collections::BTreeSet::new());

fn knobs(mode: &str, pruning: bool) -> Knobs {
    if mode == "legacy-stats" {
        Knobs { use_stats: Some(pruning), ..Default::default() }
    } else {
        Knobs { use_scalar_index: Some(pruning), ..Default::default() }
    }
}

struct Tally {
    cov: Cov,
    viol: Vec<Violation>,
    rejected: BTreeMap<String, u64>,
    pruning_plans: u64,
}

async fn check(ds: &Dataset, rows: &[(i64, Cell)], written: &[(i64, Cell)], fam: &Fam, mode: &str, frags: usize, p: &Pred, t: &mut Tally) {
    let sql = typed_sql(p, "c", &fam.dt);
    let on = scan_uids(ds, &sql, &knobs(mode, true)).await;
    let off = scan_uids(ds, &sql, &knobs(mode, false)).await;
    let case = json!(Case { fam: fam.label.into(), mode: mode.into(), frags, pred: p.clone() });
    let mut want: Vec<i64> = rows
        .iter()
        .filter(|(u, c)| {
            let get = |n: &str| if n == "uid" { Cell::I(*u) } else { c.clone() };
            p.eval(&get) == Some(true)
        })
        .map(|(u, _)| *u)
        .collect();
    want.sort();
    let nontrivial = !want.is_empty() && want.len() < rows.len();
    t.cov.eval(if nontrivial { Some(vcore::hash64(format!("{}{mode}{frags}{sql}", fam.label).as_bytes())) } else { None });
    let shape = pred_shape(p);
    match (&on, &off) {
        (Err(e), Err(_)) => {
            t.cov.outcome("rejected-under-both");
            *t.rejected.entry(format!("{}: {}", fam.label, err_shape(e))).or_insert(0) += 1;
            return;
        }
        (Err(e), Ok(_)) | (Ok(_), Err(e)) => {
            let which = if on.is_err() { "pruning-on" } else { "pruning-off" };
            t.viol.push(Violation::new("error-only-under-one-setting", &format!("{mode}/{}/{shape}/error-only-{which}/{}", fam.label, err_shape(e)), format!("filter {sql} fails only with {which}: {e}"), case));
            return;
        }
        _ => {}
    }
    let (on, off) = (on.unwrap(), off.unwrap());
    let val = |u: i64| rows.iter().find(|(x, _)| *x == u).map(|(_, c)| show(&[vec![c.clone()]])).unwrap_or_default();
    if on != off {
        let dropped: Vec<i64> = off.iter().filter(|u| !on.contains(u)).cloned().collect();
        let added: Vec<i64> = on.iter().filter(|u| !off.contains(u)).cloned().collect();
        t.cov.outcome("pruning-changes-result");
        // one violation per (direction, class of the differing rows): different root causes show up as
        // different pairs (NaN rows dropped; NULL / NaN rows added; rows whose value the legacy format
        // did not store faithfully)
        let mut pairs: BTreeMap<String, Vec<i64>> = BTreeMap::new();
        for (dir, ids) in [("pruning-drops-matching-rows", &dropped), ("pruning-adds-rows", &added)] {
            for u in ids {
                pairs.entry(format!("{mode}/{dir}/{}", value_class(&[*u], rows, written))).or_default().push(*u);
            }
        }
        for (key, ids) in pairs {
            t.viol.push(Violation::new(
                "pruning-vs-full-scan",
                &key,
                format!("{} {mode}: filter {sql}: pruning on -> {} rows, off -> {} rows; differing uids {ids:?} (stored values {:?})", fam.label, on.len(), off.len(), ids.iter().map(|u| val(*u)).collect::<Vec<_>>()),
                case.clone(),
            ));
        }
    } else {
        t.cov.outcome("agree");
    }
    if off != want {
        let missing: Vec<i64> = want.iter().filter(|u| !off.contains(u)).cloned().collect();
        let extra: Vec<i64> = off.iter().filter(|u| !want.contains(u)).cloned().collect();
        let ids: Vec<i64> = missing.iter().chain(extra.iter()).cloned().collect();
        t.viol.push(Violation::new(
            "scan-vs-model",
            &format!("scan-vs-model/{mode}/{}/{shape}/{}/{}", fam.label, if missing.is_empty() { "scan-adds-rows" } else if extra.is_empty() { "scan-drops-rows" } else { "scan-adds-and-drops" }, value_class(&ids, rows, written)),
            format!("{} {mode}: filter {sql} without pruning: missing uids {missing:?} extra {extra:?} (values {:?})", fam.label, missing.iter().chain(extra.iter()).map(|u| val(*u)).collect::<Vec<_>>()),
            case,
        ));
    }
}

/// classes of the rows on which two answers differ, by what was written and what is stored
fn value_class(ids: &[i64], stored: &[(i64, Cell)], written: &[(i64, Cell)]) -> String {
    let mut k: Vec<&str> = ids
        .iter()
        .map(|u| {
            let st = stored.iter().find(|(x, _)| x == u).map(|(_, c)| c.clone()).unwrap_or(Cell::Null);
            let wr = written.iter().find(|(x, _)| x == u).map(|(_, c)| c.clone()).unwrap_or(Cell::Null);
            if wr != st {
                // the storage format did not keep the value (legacy: NULL of a fixed-width column is read
                // back as 0, "" is read back as NULL) while the statistics describe what was written
                return if wr.is_null() { "written-null-stored-as-zero" } else { "written-empty-string-stored-as-null" };
            }
            match &st {
                Cell::Null => "null",
                Cell::F(b) => {
                    let v = f64::from_bits(*b);
                    if v.is_nan() { "nan" } else if v.is_infinite() { "inf" } else if v == 0.0 { "zero" } else { "finite" }
                }
                Cell::S(s) if s.len() > 64 => "long-string",
                Cell::S(s) if s.is_empty() => "empty-string",
                Cell::S(_) => "string",
                Cell::I(_) | Cell::U(_) => "int",
                _ => "other",
            }
        })
        .collect();
    k.sort();
    k.dedup();
    k.join("+")
}

fn replay(art: &Value) -> Outcome {
    let mut out = Outcome::new("exploration");
    let c: Case = serde_json::from_value(art["case"].clone()).unwrap_or_else(|e| vcore::machinery_error(&format!("bad C29 case: {e}")));
    let fam = fams().into_iter().find(|f| f.label == c.fam).unwrap_or_else(|| vcore::machinery_error("unknown family"));
    let mut t = Tally { cov: Cov::new(), viol: vec![], rejected: BTreeMap::new(), pruning_plans: 0 };
    let r = run_catch(async {
        let (_env, ds, rows, written) = build(&fam, &c.mode, c.frags).await?;
        check(&ds, &rows, &written, &fam, &c.mode, c.frags, &c.pred, &mut t).await;
        Ok::<(), String>(())
    });
    match r {
        Ok(Ok(())) => {}
        Ok(Err(e)) => vcore::machinery_error(&e),
        Err(p) => t.viol.push(Violation::new("panic", &format!("{}/{}/panic/{}", c.mode, c.fam, err_shape(&p)), p, art["case"].clone())),
    }
    t.cov.fill(&mut out, "replay of one case", false);
    out.violations = t.viol;
    out
}

pub fn run(ctx: &Ctx) -> Outcome {
    if let Some(art) = ctx.replay_case() {
        return replay(&art);
    }
    let quick = ctx.quick();
    let mut out = Outcome::new("exploration");
    let mut items: Vec<(usize, &'static str, usize, Vec<Pred>)> = vec![];
    let fs = fams();
    for (fi, fam) in fs.iter().enumerate() {
        let ps = preds(fam, quick);
        for mode in ["legacy-stats", "zonemap"] {
            for frags in [1usize, 2] {
                if quick && frags == 2 && mode == "zonemap" {
                    continue;
                }
                for ch in vcore::smallx::chunks(&ps, 4) {
                    items.push((fi, mode, frags, ch));
                }
            }
        }
    }
    if ctx.seed != 0 {
        let n = items.len();
        items.rotate_left(ctx.seed as usize % n);
    }
    let budget = Budget::new(ctx.opts.get("budget").and_then(|b| b.parse().ok()).unwrap_or(ctx.tier.pick(40.0, 600.0)));
    let results = vcore::par_map(items, ctx.workers, |_, (fi, mode, frags, ps)| {
        let fam = &fs[fi];
        let mut t = Tally { cov: Cov::new(), viol: vec![], rejected: BTreeMap::new(), pruning_plans: 0 };
        let mut complete = true;
        let built = run_catch(async {
            let (env, ds, rows, written) = build(fam, mode, frags).await?;
            // vacuity guard: the pruning path must be the one planned
            let mut sc = ds.scan();
            sc.filter("c IS NOT NULL").map_err(|e| e.to_string())?;
            knobs(mode, true).apply(&mut sc);
            let plan = sc.explain_plan(false).await.map_err(|e| e.to_string())?;
            Ok::<_, String>((env, ds, rows, written, plan))
        });
        let (_env, ds, rows, written, plan) = match built {
            Ok(Ok(x)) => x,
            Ok(Err(e)) => return (t, true, Some(e)),
            Err(p) => return (t, true, Some(format!("panic while building: {p}"))),
        };
        if (mode == "legacy-stats" && plan.contains("LancePushdownScan")) || (mode == "zonemap" && plan.contains("ScalarIndexQuery")) {
            t.pruning_plans += 1;
        }
        for p in &ps {
            if budget.over() {
                complete = false;
                break;
            }
            if let Err(pn) = run_catch(check(&ds, &rows, &written, fam, mode, frags, p, &mut t)) {
                t.viol.push(Violation::new("panic", &format!("{mode}/{}/panic/{}", fam.label, err_shape(&pn)), format!("filter {} panics: {pn}", typed_sql(p, "c", &fam.dt)), json!(Case { fam: fam.label.into(), mode: mode.into(), frags, pred: p.clone() })));
            }
        }
        (t, complete, None)
    });
    let mut cov = Cov::new();
    let mut viol = vec![];
    let mut rejected: BTreeMap<String, u64> = BTreeMap::new();
    let mut complete = true;
    let mut pruning_plans = 0;
    let n_items = results.len();
    for (t, c, merr) in results {
        if let Some(e) = merr {
            vcore::machinery_error(&e);
        }
        cov.merge(t.cov);
        viol.extend(t.viol);
        for (k, v) in t.rejected {
            *rejected.entry(k).or_insert(0) += v;
        }
        pruning_plans += t.pruning_plans;
        complete &= c;
    }
    if pruning_plans == 0 {
        vcore::machinery_error("no plan used statistics / zone maps: the exploration is vacuous");
    }
    cov.sample(json!({"fam":"float64","mode":"legacy-stats","filter":"(c >= CAST('NaN' AS DOUBLE))"}));
    cov.sample(json!({"fam":"utf8","mode":"legacy-stats","filter":"(c > 'pppp...p' (64 x p))"}));
    cov.sample(json!({"fam":"float32","mode":"zonemap","filter":"(NOT (c < -0.0))"}));
    cov.fill(
        &mut out,
        "per family one table holding every unordered pair of the boundary domain (+NULL) as its own row group / zone; every comparison against every domain and in-between literal, IS [NOT] NULL, BETWEEN, IN, NOTs, AND/OR pairs; each scanned with pruning on and off. non-trivial = the model selects some but not all rows",
        complete,
    );
    out.set("work_items", n_items as u64);
    out.set("foreign_findings_storage_fidelity_not_judged", json!(FIDELITY.lock().unwrap().iter().cloned().collect::<Vec<_>>()));
    out.set("items_whose_plan_uses_pruning", pruning_plans);
    out.set("rejected_under_both_settings_not_judged", json!(rejected));
    if !complete {
        out.set("cap_hit", "wall budget");
    }
    out.assume("legacy page statistics are exercised through the public scanner (use_stats on/off) on data_storage_version=legacy tables with 2-row groups; zone maps through a zonemap index with rows_per_zone=2");
    out.violations = viol;
    out
}
