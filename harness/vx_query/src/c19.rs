//! C19 – exact scalar indices (btree, bitmap, label_list) answer filters exactly like a full scan.
//!
//! Enumerated: (column type, index kind) x histories over {append (unindexed fragment), delete,
//! update (value / NULL), compact, optimize_indices} up to a depth, on a fixed 6-row 2-fragment table
//! whose column holds every value of a small per-type domain (NULL, duplicates, NaN, +-0, type
//! min/max, "") x every predicate of a family of depth <= 2 (six comparisons x domain and boundary
//! literals, BETWEEN, IN (with and without NULL), IS [NOT] NULL, IS TRUE/FALSE, NOT, AND/OR pairs,
//! also mixed with an unindexed column; array_has_any/all, array_contains for label_list).
//! Oracle: scan(use_scalar_index=true) == scan(use_scalar_index=false) == 3VL model, and
//! count_rows(filter) == number of rows. A filter rejected under both settings is counted only.

use crate::common::*;
use crate::qutil::*;
use arrow_schema::{DataType, Field, TimeUnit};
use lance::dataset::optimize::{compact_files, CompactionOptions};
use lance::dataset::UpdateBuilder;
use lance::Dataset;
use lance_index::optimize::OptimizeOptions;
use lance_index::DatasetIndexExt;
use serde::{Deserialize, Serialize};
use serde_json::{json, Value};
use std::collections::BTreeMap;
use std::sync::Arc;
use vcore::{Cov, Ctx, Outcome, Violation};
use vds::cells::Cell;
use vds::pred::{col, CmpOp, Expr, Pred};
use vds::{block_on, run_catch, Env, URI};

// ------------------------------------------------------------------------------------------------
// column families

#[derive(Clone, Debug)]
pub(crate) struct ColFam {
    pub label: &'static str,
    pub dt: DataType,
    /// d0..d4: non-null domain values (ascending where ordered)
    pub dom: Vec<Cell>,
    /// extra literals outside the stored values (boundaries, other values of the type)
    pub extra_lits: Vec<Cell>,
    /// literals of another literal type (judged differentially only)
    pub cross_lits: Vec<Cell>,
}

fn fams() -> Vec<ColFam> {
    let f = Cell::f;
    vec![
        ColFam { label: "int32", dt: DataType::Int32, dom: vec![Cell::I(i32::MIN as i64), Cell::I(-1), Cell::I(0), Cell::I(1), Cell::I(i32::MAX as i64)], extra_lits: vec![Cell::I(2), Cell::I(-2)], cross_lits: vec![f(0.5), Cell::I(1i64 << 40)] },
        ColFam { label: "int8", dt: DataType::Int8, dom: vec![Cell::I(-128), Cell::I(-1), Cell::I(0), Cell::I(1), Cell::I(127)], extra_lits: vec![Cell::I(2)], cross_lits: vec![Cell::I(128), Cell::I(300), f(0.5)] },
        ColFam { label: "int64", dt: DataType::Int64, dom: vec![Cell::I(i64::MIN), Cell::I(-1), Cell::I(0), Cell::I(1), Cell::I(i64::MAX)], extra_lits: vec![Cell::I(2)], cross_lits: vec![f(0.5)] },
        ColFam { label: "uint64", dt: DataType::UInt64, dom: vec![Cell::U(0), Cell::U(1), Cell::U(2), Cell::U(i64::MAX as u64), Cell::U(u64::MAX)], extra_lits: vec![Cell::U(3)], cross_lits: vec![Cell::I(-1), f(0.5)] },
        ColFam { label: "float64", dt: DataType::Float64, dom: vec![f(f64::NEG_INFINITY), f(-0.0), f(0.0), f(1.5), f(f64::NAN)], extra_lits: vec![f(f64::INFINITY), f(1.0)], cross_lits: vec![Cell::I(1), Cell::I(0)] },
        ColFam { label: "float32", dt: DataType::Float32, dom: vec![f(-1.5), f(-0.0), f(0.0), f(16777216.0), f(f64::NAN)], extra_lits: vec![f(f64::INFINITY), f(1.0)], cross_lits: vec![Cell::I(16777217), Cell::I(0)] },
        ColFam { label: "utf8", dt: DataType::Utf8, dom: vec![Cell::s(""), Cell::s("a"), Cell::s("ab"), Cell::s("b"), Cell::s("\u{10FFFF}")], extra_lits: vec![Cell::s("aa"), Cell::s("c")], cross_lits: vec![] },
        ColFam { label: "bool", dt: DataType::Boolean, dom: vec![Cell::Bool(false), Cell::Bool(true), Cell::Bool(true), Cell::Bool(false), Cell::Bool(true)], extra_lits: vec![], cross_lits: vec![] },
        ColFam { label: "date32", dt: DataType::Date32, dom: vec![Cell::I(-1), Cell::I(0), Cell::I(1), Cell::I(18262), Cell::I(20000)], extra_lits: vec![Cell::I(2)], cross_lits: vec![] },
        ColFam { label: "timestamp_us", dt: DataType::Timestamp(TimeUnit::Microsecond, None), dom: vec![Cell::I(-1_000_000), Cell::I(0), Cell::I(1_000_000), Cell::I(1_500_000), Cell::I(1_600_000_000_000_000)], extra_lits: vec![Cell::I(2_000_000)], cross_lits: vec![] },
    ]
}

fn tags_dt() -> DataType {
    DataType::List(Arc::new(Field::new("item", DataType::Utf8, true)))
}

fn tags_dom() -> Vec<Cell> {
    let l = |v: &[&str]| Cell::L(v.iter().map(|s| Cell::s(s)).collect());
    vec![l(&[]), l(&["a"]), l(&["a", "b"]), l(&["b", "c"]), l(&["c", "c", "a"])]
}

/// rows (uid, c): base fragment 0, base fragment 1, appended rows (by append count)
fn base_rows(dom: &[Cell]) -> Vec<Vec<(i64, Cell)>> {
    vec![
        vec![(0, dom[0].clone()), (1, dom[1].clone()), (2, Cell::Null)],
        vec![(3, dom[1].clone()), (4, dom[2].clone()), (5, dom[3].clone()), (6, Cell::Null), (7, dom[4].clone())],
    ]
}
fn appended_rows(dom: &[Cell], nth: usize) -> Vec<(i64, Cell)> {
    let b = 100 + 10 * nth as i64;
    vec![(b, dom[(nth + 1) % 5].clone()), (b + 1, Cell::Null), (b + 2, dom[(nth + 4) % 5].clone())]
}

/// high-cardinality family: ~6000 distinct int32 values (every 10th twice) and 20 NULL rows in two
/// fragments: the bitmap index file spans several pages, the NULL key may sit anywhere in it
pub(crate) fn highcard_fam() -> ColFam {
    ColFam { label: "highcard", dt: DataType::Int32, dom: vec![Cell::I(-20000), Cell::I(-19993), Cell::I(1000), Cell::I(21986), Cell::I(21993)], extra_lits: vec![Cell::I(3)], cross_lits: vec![] }
}

fn highcard_rows() -> Vec<Vec<(i64, Cell)>> {
    let mut rows = vec![];
    let mut uid = 0i64;
    for i in 0..6000i64 {
        let v = Cell::I(i * 7 - 20000);
        rows.push((uid, v.clone()));
        uid += 1;
        if i % 10 == 0 {
            rows.push((uid, v));
            uid += 1;
        }
        if i % 300 == 150 {
            rows.push((uid, Cell::Null));
            uid += 1;
        }
    }
    let cut = rows.len() / 2;
    vec![rows[..cut].to_vec(), rows[cut..].to_vec()]
}

fn highcard_appended(nth: usize) -> Vec<(i64, Cell)> {
    let b = 100_000 + 100 * nth as i64;
    vec![(b, Cell::I(1000)), (b + 1, Cell::Null), (b + 2, Cell::I(50_001 + nth as i64)), (b + 3, Cell::Null), (b + 4, Cell::I(-20000))]
}

fn highcard_preds() -> Vec<Q> {
    let c = || col("c");
    let lit = |v: i64| Expr::Lit(Cell::I(v));
    let ps = vec![
        Pred::IsNull(c()),
        Pred::IsNotNull(c()),
        Pred::Cmp(c(), CmpOp::Eq, lit(1000)),
        Pred::Cmp(c(), CmpOp::Eq, lit(-20000)),
        Pred::Cmp(c(), CmpOp::Eq, lit(21993)),
        Pred::Cmp(c(), CmpOp::Eq, lit(3)),
        Pred::In(c(), vec![Cell::I(-19993), Cell::I(1000), Cell::I(3), Cell::I(50_001)]),
        Pred::And(bx(Pred::IsNull(c())), bx(Pred::Cmp(col("uid"), CmpOp::Lt, lit(3000)))),
        Pred::Or(bx(Pred::IsNull(c())), bx(Pred::Cmp(c(), CmpOp::Eq, lit(1000)))),
        Pred::Between(c(), Cell::I(1000), Cell::I(1000)),
        Pred::Between(c(), Cell::I(-20000), Cell::I(-19900)),
    ];
    ps.into_iter().map(|p| Q { sql: typed_sql(&p, "c", &DataType::Int32), pred: Some(p), lpred: None, model_ok: true }).collect()
}

// ------------------------------------------------------------------------------------------------
// histories

#[derive(Clone, Copy, Debug, PartialEq, Eq, Hash, Serialize, Deserialize, PartialOrd, Ord)]
pub enum HOp {
    Append,
    Delete,
    UpdateVal,
    UpdateNull,
    Compact,
    CompactDefer,
    Optimize,
    OptimizeMerge,
}

pub(crate) const QUICK_OPS: [HOp; 5] = [HOp::Append, HOp::Delete, HOp::UpdateVal, HOp::Compact, HOp::Optimize];
pub(crate) const ALL_OPS: [HOp; 8] = [HOp::Append, HOp::Delete, HOp::UpdateVal, HOp::UpdateNull, HOp::Compact, HOp::CompactDefer, HOp::Optimize, HOp::OptimizeMerge];

pub(crate) fn histories(ops: &[HOp], depth: usize) -> Vec<Vec<HOp>> {
    vcore::smallx::sequences(ops.len(), 0, depth)
        .into_iter()
        .map(|s| s.into_iter().map(|i| ops[i]).collect())
        .collect()
}

#[derive(Clone, Debug, Serialize, Deserialize)]
pub struct Case {
    fam: String,
    index: String,
    history: Vec<HOp>,
    /// SQL filter (and, when the model applies, the model predicate)
    filter: String,
    pred: Option<Pred>,
    lpred: Option<LPred>,
}

pub(crate) struct State {
    pub env: Env,
    pub model: Vec<(i64, Cell)>,
    appends: usize,
    deletes: usize,
    updates: usize,
}

/// index label = kind[-params][+stable]: "btree", "bitmap", "labellist", "ngram", "zonemap-rpz2",
/// "bloomfilter-n4-p01", any of them with "+stable" (stable row ids)
pub(crate) fn parse_index(label: &str) -> (String, Option<String>, bool) {
    let (l, stable) = match label.strip_suffix("+stable") {
        Some(x) => (x, true),
        None => (label, false),
    };
    let mut parts = l.split('-');
    let kind = parts.next().unwrap().to_string();
    let rest: Vec<&str> = parts.collect();
    let params = match kind.as_str() {
        "zonemap" => rest.first().and_then(|p| p.strip_prefix("rpz")).map(|n| format!("{{\"rows_per_zone\": {n}}}")),
        "bloomfilter" => {
            let n = rest.first().and_then(|p| p.strip_prefix('n'));
            let p = rest.get(1).and_then(|p| p.strip_prefix('p'));
            match (n, p) {
                (Some(n), Some(p)) => Some(format!("{{\"number_of_items\": {n}, \"probability\": 0.{p}}}")),
                _ => None,
            }
        }
        _ => None,
    };
    (kind, params, stable)
}

async fn build_state(fam: &ColFam, index: &str, history: &[HOp]) -> Result<State, String> {
    let (dt, dom) = (&fam.dt, &fam.dom[..]);
    let hc = fam.label == "highcard";
    let (kind, params, stable) = parse_index(index);
    let env = Env::new();
    let cols = vec![("uid".to_string(), DataType::Int32), ("c".to_string(), dt.clone())];
    let base = if hc { highcard_rows() } else { base_rows(dom) };
    let tbl = Tbl {
        cols: cols.clone(),
        frags: base.iter().map(|f| f.iter().map(|(u, c)| vec![Cell::I(*u), c.clone()]).collect()).collect(),
    };
    let mut ds = create_tbl(&env, URI, &tbl, &TOpts { stable_row_ids: stable, ..Default::default() }).await.map_err(|e| format!("create: {e}"))?;
    create_scalar_index(&mut ds, "c", &kind, params).await.map_err(|e| format!("create_index({index}): {e}"))?;
    let mut st = State { env, model: base.into_iter().flatten().collect(), appends: 0, deletes: 0, updates: 0 };
    for op in history {
        match op {
            HOp::Append => {
                let rows = if hc { highcard_appended(st.appends) } else { appended_rows(dom, st.appends) };
                st.appends += 1;
                let r: Vec<Row> = rows.iter().map(|(u, c)| vec![Cell::I(*u), c.clone()]).collect();
                ds = append_rows(&st.env, URI, &cols, &r).await.map_err(|e| format!("append: {e}"))?;
                st.model.extend(rows);
            }
            HOp::Delete => {
                // one row of each base fragment per delete; never a whole fragment
                let victims: Vec<i64> = match st.deletes {
                    0 => vec![1, 4],
                    1 => vec![0, 6],
                    _ => vec![2, 7],
                };
                st.deletes += 1;
                ds.delete(&format!("uid IN ({})", victims.iter().map(|v| v.to_string()).collect::<Vec<_>>().join(", ")))
                    .await
                    .map_err(|e| format!("delete: {e}"))?;
                st.model.retain(|(u, _)| !victims.contains(u));
            }
            HOp::UpdateVal | HOp::UpdateNull => {
                let (victims, newv) = if *op == HOp::UpdateNull {
                    (vec![3i64, 0], Cell::Null)
                } else if st.updates % 2 == 0 {
                    (vec![2i64, 5], dom[2].clone())
                } else {
                    (vec![5i64, 6], dom[0].clone())
                };
                st.updates += 1;
                // an empty list literal `[]` has no element type in SQL: use a non-empty list instead
                let newv = if matches!(&newv, Cell::L(items) if items.is_empty()) { dom[1].clone() } else { newv };
                let sql = typed_lit_sql(&newv, dt);
                let val = if matches!(dt, DataType::List(_)) {
                    match &newv {
                        Cell::Null => "NULL".to_string(),
                        Cell::L(items) => format!("[{}]", items.iter().map(vds::pred::lit_sql).collect::<Vec<_>>().join(", ")),
                        _ => unreachable!(),
                    }
                } else {
                    sql
                };
                let r = UpdateBuilder::new(Arc::new(ds.clone()))
                    .update_where(&format!("uid IN ({})", victims.iter().map(|v| v.to_string()).collect::<Vec<_>>().join(", ")))
                    .map_err(|e| format!("update where: {e}"))?
                    .set("c", &val)
                    .map_err(|e| format!("update set c = {val}: {e}"))?
                    .build()
                    .map_err(|e| format!("update build: {e}"))?
                    .execute()
                    .await
                    .map_err(|e| format!("update: {e}"))?;
                ds = r.new_dataset.as_ref().clone();
                for (u, c) in st.model.iter_mut() {
                    if victims.contains(u) {
                        *c = newv.clone();
                    }
                }
            }
            HOp::Compact | HOp::CompactDefer => {
                let o = CompactionOptions { defer_index_remap: *op == HOp::CompactDefer, ..Default::default() };
                compact_files(&mut ds, o, None).await.map_err(|e| format!("compact: {e}"))?;
            }
            HOp::Optimize => {
                ds.optimize_indices(&OptimizeOptions::default()).await.map_err(|e| format!("optimize_indices: {e}"))?;
            }
            HOp::OptimizeMerge => {
                ds.optimize_indices(&OptimizeOptions::merge(10)).await.map_err(|e| format!("optimize_indices(merge): {e}"))?;
            }
        }
    }
    Ok(st)
}

// ------------------------------------------------------------------------------------------------
// predicates

struct Q {
    sql: String,
    pred: Option<Pred>,
    lpred: Option<LPred>,
    /// model applies (same-type literals); otherwise differential only
    model_ok: bool,
}

fn bx(p: Pred) -> Box<Pred> {
    Box::new(p)
}

fn scalar_preds(fam: &ColFam, quick: bool) -> Vec<Q> {
    let c = || col("c");
    let mut atoms: Vec<(Pred, bool)> = vec![];
    let mut lits: Vec<Cell> = fam.dom.clone();
    lits.sort();
    lits.dedup();
    lits.extend(fam.extra_lits.clone());
    if fam.label == "bool" {
        atoms.push((Pred::BoolCol("c".into()), true));
        atoms.push((Pred::IsTrue(bx(Pred::BoolCol("c".into()))), true));
        atoms.push((Pred::IsFalse(bx(Pred::BoolCol("c".into()))), true));
        for l in [Cell::Bool(true), Cell::Bool(false)] {
            atoms.push((Pred::Cmp(c(), CmpOp::Eq, Expr::Lit(l.clone())), true));
            atoms.push((Pred::Cmp(c(), CmpOp::Ne, Expr::Lit(l.clone())), true));
        }
    } else {
        for op in [CmpOp::Eq, CmpOp::Ne, CmpOp::Lt, CmpOp::Le, CmpOp::Gt, CmpOp::Ge] {
            for l in &lits {
                atoms.push((Pred::Cmp(c(), op, Expr::Lit(l.clone())), true));
            }
            for l in &fam.cross_lits {
                atoms.push((Pred::Cmp(c(), op, Expr::Lit(l.clone())), false));
            }
        }
        let d = &fam.dom;
        for (lo, hi) in [(1usize, 3usize), (0, 4), (3, 1), (1, 1), (2, 2), (3, 3)] {
            atoms.push((Pred::Between(c(), d[lo].clone(), d[hi].clone()), true));
        }
        // ranges with equal inclusive bounds written as a conjunction (one value selected)
        for v in [1usize, 2, 3] {
            atoms.push((
                Pred::And(
                    bx(Pred::Cmp(c(), CmpOp::Ge, Expr::Lit(d[v].clone()))),
                    bx(Pred::Cmp(c(), CmpOp::Le, Expr::Lit(d[v].clone()))),
                ),
                true,
            ));
        }
        atoms.push((Pred::In(c(), vec![d[1].clone()]), true));
        atoms.push((Pred::In(c(), vec![d[0].clone(), d[3].clone(), fam.extra_lits[0].clone()]), true));
        atoms.push((Pred::In(c(), vec![d[1].clone(), Cell::Null]), true));
        atoms.push((Pred::Cmp(c(), CmpOp::Eq, Expr::Lit(Cell::Null)), true));
    }
    atoms.push((Pred::IsNull(c()), true));
    atoms.push((Pred::IsNotNull(c()), true));
    let mut out: Vec<(Pred, bool)> = atoms.clone();
    for (a, ok) in &atoms {
        out.push((Pred::Not(bx(a.clone())), *ok));
    }
    // pairs over a reduced atom set, also with an unindexed column
    let pick: Vec<Pred> = if fam.label == "bool" {
        vec![atoms[0].0.clone(), atoms[2].0.clone(), Pred::IsNull(c()), atoms[4].0.clone()]
    } else {
        let d = &fam.dom;
        vec![
            Pred::Cmp(c(), CmpOp::Eq, Expr::Lit(d[1].clone())),
            Pred::Cmp(c(), CmpOp::Lt, Expr::Lit(d[2].clone())),
            Pred::Cmp(c(), CmpOp::Ge, Expr::Lit(d[3].clone())),
            Pred::IsNull(c()),
            Pred::Cmp(c(), CmpOp::Ne, Expr::Lit(d[1].clone())),
            Pred::In(c(), vec![d[0].clone(), d[3].clone()]),
        ]
    };
    let uid_atoms = vec![Pred::Cmp(col("uid"), CmpOp::Lt, Expr::Lit(Cell::I(4))), Pred::Cmp(col("uid"), CmpOp::Eq, Expr::Lit(Cell::I(6)))];
    for i in 0..pick.len() {
        for j in (i + 1)..pick.len() {
            out.push((Pred::And(bx(pick[i].clone()), bx(pick[j].clone())), true));
            out.push((Pred::Or(bx(pick[i].clone()), bx(pick[j].clone())), true));
            if !quick || (i + j) % 3 == 0 {
                out.push((Pred::Not(bx(Pred::And(bx(pick[i].clone()), bx(pick[j].clone())))), true));
                out.push((Pred::Not(bx(Pred::Or(bx(pick[i].clone()), bx(pick[j].clone())))), true));
                out.push((Pred::And(bx(pick[i].clone()), bx(Pred::Not(bx(pick[j].clone())))), true));
                out.push((Pred::Or(bx(Pred::Not(bx(pick[i].clone()))), bx(pick[j].clone())), true));
            }
        }
        for u in &uid_atoms {
            out.push((Pred::And(bx(pick[i].clone()), bx(u.clone())), true));
            out.push((Pred::Or(bx(pick[i].clone()), bx(u.clone())), true));
            out.push((Pred::Not(bx(Pred::Or(bx(pick[i].clone()), bx(u.clone())))), true));
        }
    }
    out.into_iter()
        .map(|(p, ok)| Q { sql: typed_sql(&p, "c", &fam.dt), pred: Some(p), lpred: None, model_ok: ok })
        .collect()
}

/// label-list predicates with their own small evaluator
#[derive(Clone, Debug, Serialize, Deserialize, PartialEq)]
pub enum LPred {
    Any(Vec<String>),
    All(Vec<String>),
    Contains(String),
    /// `contains(c, 's')` on a string column (n-gram index)
    StrContains(String),
    UidLt(i64),
    IsNull,
    Not(Box<LPred>),
    And(Box<LPred>, Box<LPred>),
    Or(Box<LPred>, Box<LPred>),
}

impl LPred {
    fn sql(&self) -> String {
        let arr = |v: &Vec<String>| format!("[{}]", v.iter().map(|s| format!("'{s}'")).collect::<Vec<_>>().join(", "));
        match self {
            LPred::Any(v) => format!("array_has_any(c, {})", arr(v)),
            LPred::All(v) => format!("array_has_all(c, {})", arr(v)),
            LPred::Contains(s) => format!("array_contains(c, '{s}')"),
            LPred::StrContains(s) => format!("contains(c, '{s}')"),
            LPred::UidLt(n) => format!("(uid < {n})"),
            LPred::IsNull => "(c IS NULL)".into(),
            LPred::Not(p) => format!("(NOT {})", p.sql()),
            LPred::And(a, b) => format!("({} AND {})", a.sql(), b.sql()),
            LPred::Or(a, b) => format!("({} OR {})", a.sql(), b.sql()),
        }
    }
    fn eval(&self, uid: i64, c: &Cell) -> Option<bool> {
        let items = |c: &Cell| -> Option<Vec<String>> {
            match c {
                Cell::L(v) => Some(v.iter().filter_map(|x| x.as_str().map(|s| s.to_string())).collect()),
                _ => None,
            }
        };
        match self {
            LPred::Any(q) => items(c).map(|l| q.iter().any(|x| l.contains(x))),
            LPred::All(q) => items(c).map(|l| q.iter().all(|x| l.contains(x))),
            LPred::Contains(s) => items(c).map(|l| l.contains(s)),
            LPred::StrContains(s) => c.as_str().map(|x| x.contains(s.as_str())),
            LPred::UidLt(n) => Some(uid < *n),
            LPred::IsNull => Some(c.is_null()),
            LPred::Not(p) => p.eval(uid, c).map(|b| !b),
            LPred::And(a, b) => vds::pred::and3(a.eval(uid, c), b.eval(uid, c)),
            LPred::Or(a, b) => vds::pred::or3(a.eval(uid, c), b.eval(uid, c)),
        }
    }
    fn has_negation(&self) -> bool {
        match self {
            LPred::Not(_) => true,
            LPred::And(a, b) | LPred::Or(a, b) => a.has_negation() || b.has_negation(),
            _ => false,
        }
    }
    fn shape(&self) -> String {
        match self {
            LPred::Any(_) => "has_any".into(),
            LPred::All(_) => "has_all".into(),
            LPred::Contains(_) => "contains".into(),
            LPred::StrContains(_) => "str-contains".into(),
            LPred::UidLt(_) => "uid".into(),
            LPred::IsNull => "isnull".into(),
            LPred::Not(p) => format!("not({})", p.shape()),
            LPred::And(a, b) => format!("and({},{})", a.shape(), b.shape()),
            LPred::Or(a, b) => format!("or({},{})", a.shape(), b.shape()),
        }
    }
}

fn label_preds() -> Vec<Q> {
    let s = |v: &[&str]| v.iter().map(|x| x.to_string()).collect::<Vec<_>>();
    let mut atoms = vec![];
    for q in [s(&["a"]), s(&["a", "b"]), s(&["c", "z"]), s(&["z"]), s(&["b", "c"])] {
        atoms.push(LPred::Any(q.clone()));
        atoms.push(LPred::All(q));
    }
    for x in ["a", "c", "z"] {
        atoms.push(LPred::Contains(x.to_string()));
    }
    let mut out = atoms.clone();
    for a in &atoms {
        out.push(LPred::Not(Box::new(a.clone())));
    }
    let pick = [atoms[0].clone(), atoms[3].clone(), atoms[8].clone(), atoms[10].clone()];
    for i in 0..pick.len() {
        for j in (i + 1)..pick.len() {
            out.push(LPred::And(Box::new(pick[i].clone()), Box::new(pick[j].clone())));
            out.push(LPred::Or(Box::new(pick[i].clone()), Box::new(pick[j].clone())));
            out.push(LPred::Not(Box::new(LPred::Or(Box::new(pick[i].clone()), Box::new(pick[j].clone())))));
            out.push(LPred::And(Box::new(pick[i].clone()), Box::new(LPred::Not(Box::new(pick[j].clone())))));
        }
        out.push(LPred::And(Box::new(pick[i].clone()), Box::new(LPred::UidLt(4))));
        out.push(LPred::Or(Box::new(pick[i].clone()), Box::new(LPred::UidLt(4))));
        out.push(LPred::Or(Box::new(pick[i].clone()), Box::new(LPred::IsNull)));
    }
    // the value of array_has*/array_contains on a NULL list is DataFusion's business (not an index
    // matter): label-list predicates are judged differentially only
    out.into_iter().map(|p| Q { sql: p.sql(), pred: None, lpred: Some(p), model_ok: false }).collect()
}

/// `contains` predicates for the n-gram index (judged against the model: substring semantics are plain)
fn ngram_preds() -> Vec<Q> {
    let mut atoms = vec![];
    for x in ["abc", "ab", "a", "", "bcd", "ABC", "xab", "d\u{e9}", "\u{65e5}\u{672c}\u{8a9e}", "\u{672c}\u{8a9e}a", "c d", "zzz", "abcd"] {
        atoms.push(LPred::StrContains(x.to_string()));
    }
    let mut out = atoms.clone();
    for a in &atoms {
        out.push(LPred::Not(Box::new(a.clone())));
    }
    let pick = [atoms[0].clone(), atoms[4].clone(), atoms[5].clone(), atoms[8].clone()];
    for i in 0..pick.len() {
        for j in (i + 1)..pick.len() {
            out.push(LPred::And(Box::new(pick[i].clone()), Box::new(pick[j].clone())));
            out.push(LPred::Or(Box::new(pick[i].clone()), Box::new(pick[j].clone())));
            out.push(LPred::And(Box::new(pick[i].clone()), Box::new(LPred::Not(Box::new(pick[j].clone())))));
        }
        out.push(LPred::And(Box::new(pick[i].clone()), Box::new(LPred::UidLt(4))));
        out.push(LPred::Or(Box::new(pick[i].clone()), Box::new(LPred::UidLt(4))));
        out.push(LPred::Or(Box::new(pick[i].clone()), Box::new(LPred::IsNull)));
    }
    out.into_iter().map(|p| Q { sql: p.sql(), pred: None, lpred: Some(p), model_ok: true }).collect()
}

// ------------------------------------------------------------------------------------------------
// judging one (state, predicate)

fn model_uids(model: &[(i64, Cell)], q: &Q) -> Vec<i64> {
    let mut v: Vec<i64> = model
        .iter()
        .filter(|(u, c)| {
            if let Some(p) = &q.pred {
                let get = |n: &str| if n == "uid" { Cell::I(*u) } else { c.clone() };
                p.eval(&get) == Some(true)
            } else {
                q.lpred.as_ref().unwrap().eval(*u, c) == Some(true)
            }
        })
        .map(|(u, _)| *u)
        .collect();
    v.sort();
    v
}

fn short_ids(v: &[i64]) -> String {
    if v.len() <= 24 {
        format!("{v:?}")
    } else {
        format!("[{} ids: {:?} ...]", v.len(), &v[..12])
    }
}

fn diff(a: &[i64], b: &[i64]) -> (Vec<i64>, Vec<i64>) {
    (a.iter().filter(|x| !b.contains(x)).cloned().collect(), b.iter().filter(|x| !a.contains(x)).cloned().collect())
}

struct Tally {
    cov: Cov,
    viol: Vec<Violation>,
    rejected: BTreeMap<String, u64>,
    index_used: u64,
}

pub(crate) fn hist_label_pub(h: &[HOp]) -> String {
    hist_label(h)
}

pub(crate) async fn build_state_pub(fam: &ColFam, index: &str, history: &[HOp]) -> Result<State, String> {
    build_state(fam, index, history).await
}

fn hist_label(h: &[HOp]) -> String {
    let mut k: Vec<String> = h.iter().map(|o| format!("{o:?}")).collect();
    k.sort();
    k.dedup();
    if k.is_empty() { "fresh-index".into() } else { k.join("+") }
}

async fn check_pred(ds: &Dataset, st: &State, fam: &str, index: &str, history: &[HOp], q: &Q, t: &mut Tally) {
    let on = Knobs { use_scalar_index: Some(true), ..Default::default() };
    let off = Knobs { use_scalar_index: Some(false), ..Default::default() };
    let with = scan_uids(ds, &q.sql, &on).await;
    let without = scan_uids(ds, &q.sql, &off).await;
    let case = json!(Case { fam: fam.into(), index: index.into(), history: history.to_vec(), filter: q.sql.clone(), pred: q.pred.clone(), lpred: q.lpred.clone() });
    let shape = q.pred.as_ref().map(pred_shape).unwrap_or_else(|| q.lpred.as_ref().unwrap().shape());
    let neg = negation_like(q);
    let null_uids: Vec<i64> = st.model.iter().filter(|(_, c)| c.is_null()).map(|(u, _)| *u).collect();
    let want = model_uids(&st.model, q);
    let nontrivial = !want.is_empty() && want.len() < st.model.len();
    t.cov.eval(if nontrivial { Some(vcore::hash64(format!("{fam}{index}{history:?}{}", q.sql).as_bytes())) } else { None });
    match (&with, &without) {
        (Err(a), Err(_)) => {
            t.cov.outcome("rejected-under-both");
            *t.rejected.entry(format!("{fam}: {}", err_shape(a))).or_insert(0) += 1;
            return;
        }
        (Err(e), Ok(_)) | (Ok(_), Err(e)) => {
            let which = if with.is_err() { "with-index" } else { "without-index" };
            t.cov.outcome("error-under-one-setting");
            t.viol.push(Violation::new("error-only-under-one-setting", &format!("{index}/{fam}/{shape}/error-only-{which}/{}", err_shape(e)), format!("filter {} fails only {which}: {e}", q.sql), case));
            return;
        }
        _ => {}
    }
    let (with, without) = (with.unwrap(), without.unwrap());
    if with != without {
        let (only_with, only_without) = diff(&with, &without);
        let (ikind, _, istable) = parse_index(index);
        let dk = if only_without.is_empty() && neg && only_with.iter().all(|u| null_uids.contains(u)) {
            // the suspected 3VL defect: the complement of an exact index answer contains the NULL rows
            "negation-over-indexed-nullable-column/index-returns-null-rows".to_string()
        } else if istable
            && !["zonemap", "bloomfilter"].contains(&ikind.as_str())
            && update_then_optimize(history)
            // (a negation may add the NULL rows on top: the other known defect)
            && only_with.iter().chain(only_without.iter()).all(|u| updated_uids(history).contains(u) || (neg && null_uids.contains(u)))
            && only_with.iter().chain(only_without.iter()).any(|u| updated_uids(history).contains(u))
        {
            // an update keeps the row id on a stable-row-id table; optimize_indices merges the new delta
            // without retiring the old entries of those ids: the index answers with the old values
            "stable-row-ids/update-then-optimize/stale-index-entries".to_string()
        } else if (ikind == "zonemap" || ikind == "bloomfilter") && istable && only_with.is_empty() {
            // zone maps / bloom filter blocks answer in row addresses, which are not row ids on a
            // stable-row-id table
            format!("{ikind}/stable-row-ids/index-drops-rows")
        } else if only_with.is_empty() && history.contains(&HOp::CompactDefer) && ["zonemap", "bloomfilter", "ngram"].contains(&ikind.as_str()) {
            // compaction with deferred index remap: rows of the rewritten fragment are taken as covered
            format!("{ikind}/compaction-with-deferred-index-remap/index-drops-rows")
        } else if ikind == "ngram" && only_with.is_empty() {
            format!("ngram/contains-{}/index-drops-rows", q.lpred.as_ref().map(ngram_class).unwrap_or_default())
        } else {
            let kinds = match (only_with.is_empty(), only_without.is_empty()) {
                (false, true) => if only_with.iter().all(|u| null_uids.contains(u)) { "index-adds-null-rows" } else { "index-adds-rows" },
                (true, false) => "index-drops-rows",
                _ => "index-adds-and-drops-rows",
            };
            format!("{index}/{fam}/{shape}/{kinds}/{}", hist_label(history))
        };
        t.cov.outcome("index-differs-from-scan");
        t.viol.push(Violation::new(
            "index-vs-scan",
            &dk,
            format!("{fam} {index} after {history:?}: filter {} -> uids {} with index, {} without; model {}; table {:?}", q.sql, short_ids(&with), short_ids(&without), short_ids(&want), st.model.iter().take(16).map(|(u, c)| format!("{u}:{}", show(&[vec![c.clone()]]))).collect::<Vec<_>>()),
            case.clone(),
        ));
    } else {
        t.cov.outcome(if q.model_ok { "agree" } else { "agree-differential-only" });
    }
    if q.model_ok && without != want {
        let (extra, missing) = diff(&without, &want);
        t.viol.push(Violation::new(
            "scan-vs-model",
            &format!("scan-vs-model/{fam}/{shape}/{}", if missing.is_empty() { "scan-adds-rows" } else if extra.is_empty() { "scan-drops-rows" } else { "scan-adds-and-drops" }),
            format!("{fam}: filter {} without index -> {without:?}, 3VL model {want:?}", q.sql),
            case.clone(),
        ));
    }
    // count_rows(filter) (default settings = index used) against the rows returned with the index
    match ds.count_rows(Some(q.sql.clone())).await {
        Ok(n) if n == with.len() => {}
        Ok(n) => t.viol.push(Violation::new("count_rows", &format!("{index}/{fam}/count_rows-vs-scan/{shape}"), format!("count_rows({}) = {n} but the scan returns {} rows", q.sql, with.len()), case)),
        Err(e) => t.viol.push(Violation::new("count_rows", &format!("{index}/{fam}/count_rows-error/{shape}"), format!("count_rows({}) fails: {e}", q.sql), case)),
    }
}

/// classes of the `contains` literals of a predicate (n-gram index)
pub(crate) fn ngram_class(p: &LPred) -> String {
    fn go(p: &LPred, out: &mut Vec<&'static str>) {
        match p {
            LPred::StrContains(s) => out.push(str_class(s)),
            LPred::Not(a) => go(a, out),
            LPred::And(a, b) | LPred::Or(a, b) => {
                go(a, out);
                go(b, out);
            }
            _ => {}
        }
    }
    let mut v = vec![];
    go(p, &mut v);
    v.sort();
    v.dedup();
    // the plain class is uninformative next to another one
    if v.len() > 1 {
        v.retain(|c| *c != "plain");
    }
    v.join("+")
}

pub(crate) fn str_class(s: &str) -> &'static str {
    if s.chars().count() < 3 {
        "shorter-than-a-trigram"
    } else if !s.is_ascii() {
        "non-ascii"
    } else if s.chars().any(|c| !c.is_ascii_alphanumeric()) {
        "with-non-alphanumeric"
    } else if s.chars().any(|c| c.is_ascii_uppercase()) {
        "upper-case"
    } else {
        "plain"
    }
}

/// a violation seen on the fresh index is the same violation after any history: merge those keys
pub(crate) fn merge_history_keys(viol: &mut [Violation]) {
    let is_hist = |h: &str| h == "fresh-index" || h.split('+').all(|p| ["Append", "Delete", "UpdateVal", "UpdateNull", "Compact", "CompactDefer", "Optimize", "OptimizeMerge"].contains(&p));
    let fresh: std::collections::BTreeSet<String> = viol.iter().filter_map(|v| v.key.rsplit_once('/')).filter(|(_, h)| *h == "fresh-index").map(|(p, _)| p.to_string()).collect();
    for v in viol.iter_mut() {
        if let Some((p, h)) = v.key.rsplit_once('/') {
            if is_hist(h) && fresh.contains(p) {
                v.key = format!("{p}/with-or-without-history");
            }
        }
    }
}

/// uids rewritten by the update steps of a history (see `build_state`)
fn updated_uids(h: &[HOp]) -> Vec<i64> {
    let mut n = 0;
    let mut v = vec![];
    for op in h {
        match op {
            HOp::UpdateNull => {
                v.extend([3i64, 0]);
                n += 1;
            }
            HOp::UpdateVal => {
                v.extend(if n % 2 == 0 { [2i64, 5] } else { [5i64, 6] });
                n += 1;
            }
            _ => {}
        }
    }
    v
}

fn update_then_optimize(h: &[HOp]) -> bool {
    h.iter().enumerate().any(|(i, a)| matches!(a, HOp::UpdateVal | HOp::UpdateNull) && h[i + 1..].iter().any(|b| matches!(b, HOp::Optimize | HOp::OptimizeMerge)))
}

fn negation_like(q: &Q) -> bool {
    fn go(p: &Pred) -> bool {
        match p {
            Pred::Not(_) | Pred::Cmp(_, CmpOp::Ne, _) | Pred::IsFalse(_) => true,
            // the planner rewrites `b = FALSE` to `NOT b`
            Pred::Cmp(_, CmpOp::Eq, Expr::Lit(Cell::Bool(false))) => true,
            Pred::And(a, b) | Pred::Or(a, b) => go(a) || go(b),
            Pred::IsTrue(p) => go(p),
            _ => false,
        }
    }
    q.pred.as_ref().map(go).unwrap_or_else(|| q.lpred.as_ref().unwrap().has_negation())
}

fn inverted_between(p: &Pred) -> bool {
    match p {
        Pred::Between(_, lo, hi) => vds::pred::cell_cmp(lo, hi) == Some(std::cmp::Ordering::Greater),
        Pred::Not(q) | Pred::IsTrue(q) | Pred::IsFalse(q) => inverted_between(q),
        Pred::And(a, b) | Pred::Or(a, b) => inverted_between(a) || inverted_between(b),
        _ => false,
    }
}

fn run_item(fam: &ColFam, index: &str, history: &[HOp], quick: bool, budget: &Budget) -> Result<(Tally, bool), String> {
    let mut t = Tally { cov: Cov::new(), viol: vec![], rejected: BTreeMap::new(), index_used: 0 };
    let kind = parse_index(index).0;
    let qs = match kind.as_str() {
        _ if fam.label == "highcard" => highcard_preds(),
        "labellist" => label_preds(),
        "ngram" => ngram_preds(),
        _ => scalar_preds(fam, quick),
    };
    let r = run_catch(async {
        let st = build_state(fam, index, history).await?;
        let ds = st.env.open(URI).await.map_err(|e| format!("open: {e}"))?;
        // vacuity guard: the plan of an indexed predicate must mention the index
        let probe = match kind.as_str() {
            "labellist" => "array_has_any(c, ['a'])".to_string(),
            "ngram" => "contains(c, 'abc')".to_string(),
            _ => "c IS NULL".to_string(),
        };
        let mut sc = ds.scan();
        sc.filter(&probe).map_err(|e| e.to_string())?;
        let plan = sc.explain_plan(false).await.map_err(|e| e.to_string())?;
        Ok::<_, String>((st, ds, plan.contains("ScalarIndexQuery")))
    });
    let (st, ds, used) = match r {
        Ok(Ok(x)) => x,
        Ok(Err(e)) => return Err(e),
        Err(p) => {
            t.viol.push(Violation::new("panic", &format!("{index}/{}/panic-in-history/{}", fam.label, err_shape(&p)), format!("panic while building {history:?}: {p}"), json!({"fam": fam.label, "index": index, "history": history})));
            return Ok((t, true));
        }
    };
    if used {
        t.index_used += 1;
    }
    let mut complete = true;
    for q in &qs {
        if budget.over() {
            complete = false;
            break;
        }
        if let Err(p) = run_catch(check_pred(&ds, &st, fam.label, index, history, q, &mut t)) {
            let shape = q.pred.as_ref().map(pred_shape).unwrap_or_else(|| q.lpred.as_ref().unwrap().shape());
            let what = if q.pred.as_ref().map(inverted_between).unwrap_or(false) { "between-with-inverted-bounds".to_string() } else { shape };
            let case = json!(Case { fam: fam.label.into(), index: index.into(), history: history.to_vec(), filter: q.sql.clone(), pred: q.pred.clone(), lpred: q.lpred.clone() });
            t.cov.outcome("panic");
            let _ = what;
            t.viol.push(Violation::new("panic", &format!("{}/panic/{}", parse_index(index).0, err_shape(&p)), format!("{} {index} after {history:?}: filter {} panics: {p}", fam.label, q.sql), case));
        }
    }
    Ok((t, complete))
}

pub(crate) fn replay(art: &Value) -> Outcome {
    let mut out = Outcome::new("exploration");
    let case: Case = serde_json::from_value(art["case"].clone()).unwrap_or_else(|e| vcore::machinery_error(&format!("bad C19 case: {e}")));
    let fam = fam_by_label(&case.fam);
    let mut t = Tally { cov: Cov::new(), viol: vec![], rejected: BTreeMap::new(), index_used: 0 };
    let q = Q { sql: case.filter.clone(), pred: case.pred.clone(), lpred: case.lpred.clone(), model_ok: case.pred.is_some() };
    let r = run_catch(async {
        let st = build_state(&fam, &case.index, &case.history).await?;
        let ds = st.env.open(URI).await.map_err(|e| format!("open: {e}"))?;
        check_pred(&ds, &st, fam.label, &case.index, &case.history, &q, &mut t).await;
        Ok::<(), String>(())
    });
    match r {
        Ok(Ok(())) => {}
        Ok(Err(e)) => vcore::machinery_error(&format!("replay failed: {e}")),
        Err(p) => t.viol.push(Violation::new("panic", &format!("{}/panic/{}", case.index, err_shape(&p)), format!("filter {} panics: {p}", case.filter), art["case"].clone())),
    }
    t.cov.fill(&mut out, "replay of one case", false);
    out.violations = t.viol;
    out
}

fn tags_fam() -> ColFam {
    ColFam { label: "tags", dt: tags_dt(), dom: tags_dom(), extra_lits: vec![], cross_lits: vec![] }
}

/// what a generic "index vs scan" exploration enumerates
pub(crate) struct Plan {
    /// (family, index label)
    pub combos: Vec<(ColFam, String)>,
    pub histories: Vec<Vec<HOp>>,
    /// families on which depth-3 histories are run
    pub deep_fams: Vec<&'static str>,
    pub rule: &'static str,
    pub quick_budget_s: f64,
    /// explicit (family, index, history) items run first (not multiplied with `histories`)
    pub extra_items: Vec<(ColFam, String, Vec<HOp>)>,
}

pub(crate) fn fam_by_label(l: &str) -> ColFam {
    match l {
        "tags" => tags_fam(),
        "text" => text_fam(),
        "highcard" => highcard_fam(),
        _ => fams().into_iter().find(|f| f.label == l).unwrap_or_else(|| vcore::machinery_error("unknown family")),
    }
}

/// strings for the n-gram index (case, unicode, spaces, shorter than a trigram)
pub(crate) fn text_fam() -> ColFam {
    ColFam {
        label: "text",
        dt: DataType::Utf8,
        dom: vec![Cell::s(""), Cell::s("abc"), Cell::s("xabcd"), Cell::s("ABC d\u{e9}"), Cell::s("\u{65e5}\u{672c}\u{8a9e}abc d")],
        extra_lits: vec![Cell::s("ab")],
        cross_lits: vec![],
    }
}

pub fn run(ctx: &Ctx) -> Outcome {
    if let Some(art) = ctx.replay_case() {
        return replay(&art);
    }
    let quick = ctx.quick();
    // (family, index) combinations
    let all = fams();
    let mut combos: Vec<(ColFam, String)> = vec![];
    for f in &all {
        let q_btree = ["int32", "float64", "bool"].contains(&f.label);
        let q_bitmap = ["int32", "utf8"].contains(&f.label);
        if !quick || q_btree {
            combos.push((f.clone(), "btree".into()));
        }
        if !quick || q_bitmap {
            combos.push((f.clone(), "bitmap".into()));
        }
    }
    combos.push((tags_fam(), "labellist".into()));
    if !quick {
        combos.push((fam_by_label("int32"), "btree+stable".into()));
        combos.push((fam_by_label("utf8"), "bitmap+stable".into()));
        combos.push((tags_fam(), "labellist+stable".into()));
    }
    // histories: quick = depth <=1 over 5 ops + the depth-2 ones that combine an unindexed fragment /
    // deletion with a later index maintenance step; thorough = depth <=2 over 8 ops + depth 3 over 4 ops
    let mut hs: Vec<Vec<HOp>> = if quick {
        let mut h = histories(&QUICK_OPS, 1);
        h.extend([
            vec![HOp::Append, HOp::Optimize],
            vec![HOp::Delete, HOp::Compact],
            vec![HOp::UpdateNull, HOp::Optimize],
        ]);
        h
    } else {
        let mut h = histories(&ALL_OPS, 2);
        for s in histories(&[HOp::Append, HOp::Delete, HOp::Compact, HOp::Optimize], 3) {
            if s.len() == 3 {
                h.push(s);
            }
        }
        h
    };
    hs.sort();
    hs.dedup();
    let plan = Plan {
        combos,
        histories: hs,
        deep_fams: vec!["int32", "utf8", "tags"],
        quick_budget_s: 40.0,
        // the position of the NULL key inside the bitmap index file follows a HashMap iteration order:
        // the same table is built and indexed several times
        extra_items: {
            let mut v = vec![];
            for rep in 0..ctx.tier.pick(5, 8) {
                let h = if rep % 2 == 0 { vec![] } else { vec![HOp::Append, HOp::Optimize] };
                v.push((highcard_fam(), "bitmap".to_string(), h));
            }
            v.push((highcard_fam(), "btree".to_string(), vec![HOp::Append, HOp::Optimize]));
            v
        },
        rule: "items = (column family, index kind, history); per item every predicate of the family (6 comparisons x domain/boundary/cross-type literals, BETWEEN, IN, IS [NOT] NULL, IS TRUE/FALSE, NOT, AND/OR pairs incl. an unindexed column; array_has_any/all/contains for label_list) is scanned with and without the index and counted. non-trivial = the model selects some but not all rows",
    };
    let mut out = run_plan(ctx, plan);
    out.assume("tables are fixed per family (8 rows, 2 fragments, every domain value, duplicates, NULLs in both fragments); what is enumerated is histories x predicates");
    out.assume("cross-type literals and label-list functions are judged differentially only (index vs no index); same-type literals also against the harness 3VL model with Arrow total order on floats");
    out
}

pub(crate) fn run_plan(ctx: &Ctx, plan: Plan) -> Outcome {
    let quick = ctx.quick();
    let mut out = Outcome::new("exploration");
    let hs = plan.histories.clone();
    let combos = plan.combos.clone();
    let mut items: Vec<(ColFam, String, Vec<HOp>)> = plan.extra_items.clone();
    for h in &hs {
        for (f, i) in &combos {
            // depth-3 histories only on the named families
            if h.len() == 3 && !plan.deep_fams.contains(&f.label) {
                continue;
            }
            items.push((f.clone(), i.clone(), h.clone()));
        }
    }
    if ctx.seed != 0 {
        let n = items.len();
        items.rotate_left(ctx.seed as usize % n);
    }
    let n_items = items.len();
    let budget = Budget::new(ctx.opts.get("budget").and_then(|b| b.parse().ok()).unwrap_or(ctx.tier.pick(plan.quick_budget_s, 840.0)));
    let results = vcore::par_map(items, ctx.workers, |_, (f, i, h)| {
        if budget.over() {
            return (f.label, i, h, Err("budget".to_string()));
        }
        let r = run_item(&f, &i, &h, quick, &budget);
        (f.label, i, h, r)
    });
    let mut cov = Cov::new();
    let mut viol = vec![];
    let mut rejected: BTreeMap<String, u64> = BTreeMap::new();
    let mut complete = true;
    let mut done = 0u64;
    let mut index_used = 0u64;
    let mut unsupported: BTreeMap<String, u64> = BTreeMap::new();
    let mut setup_rejected: BTreeMap<String, u64> = BTreeMap::new();
    let mut merr = vec![];
    for (fl, i, h, r) in results {
        match r {
            Ok((t, c)) => {
                cov.merge(t.cov);
                viol.extend(t.viol);
                for (k, v) in t.rejected {
                    *rejected.entry(k).or_insert(0) += v;
                }
                index_used += t.index_used;
                complete &= c;
                if c {
                    done += 1;
                }
            }
            Err(e) if e == "budget" => complete = false,
            Err(e) if e.starts_with("create_index") => {
                *unsupported.entry(format!("{fl}/{i}: {}", err_shape(&e))).or_insert(0) += 1;
            }
            // a history step that Lance rejects with an explicit invalid-input / not-supported error:
            // recorded, the item is skipped (panics and wrong results stay judged)
            Err(e) if e.contains("Invalid user input") || e.contains("InvalidInput") || e.contains("Not supported") || e.contains("NotSupported") || e.contains("not supported") => {
                *setup_rejected.entry(format!("{fl}/{i}/{}: {}", hist_label(&h), err_shape(&e))).or_insert(0) += 1;
            }
            Err(e) => merr.push(format!("{fl}/{i}/{h:?}: {e}")),
        }
    }
    if !merr.is_empty() {
        vcore::machinery_error(&format!("{} history set-ups failed, first: {}", merr.len(), merr[0]));
    }
    if index_used == 0 {
        vcore::machinery_error("no plan used a scalar index: the exploration is vacuous");
    }
    cov.sample(json!({"fam": combos[0].0.label, "index": combos[0].1, "history": ["Append","Optimize"], "filter": "(NOT (c = -1))"}));
    cov.sample(json!({"fam": combos[combos.len() - 1].0.label, "index": combos[combos.len() - 1].1, "history": ["Delete"], "filter": "first predicate of the family"}));
    cov.fill(&mut out, plan.rule, complete);
    out.set("items", n_items as u64);
    out.set("items_completed", done);
    out.set("histories", hs.len() as u64);
    out.set("family_index_combinations", combos.iter().map(|(f, i)| format!("{}/{i}", f.label)).collect::<Vec<_>>());
    out.set("items_whose_plan_uses_the_index", index_used);
    out.set("rejected_under_both_settings_not_judged", json!(rejected));
    out.set("index_kind_not_supported_for_type", json!(unsupported));
    out.set("history_setup_step_rejected_not_judged", json!(setup_rejected));
    if !complete {
        out.set("cap_hit", "wall budget");
    }
    merge_history_keys(&mut viol);
    out.violations = viol;
    out
}
