//! vx_query: see /verif/harness/AGENTS-GUIDE.md; one module per property, dispatched on the property id.

mod c12;
mod c16;
mod c19;
mod c20;
mod c29;
mod common;
mod qutil;

/// lance-index keeps its split-block bloom filter (`Sbbf`) in a private module; the very source files
/// are compiled here (unchanged, by path) so that C20 can drive them directly. The module path mirrors
/// lance-index's so that `crate::scalar::bloomfilter::as_bytes` resolves.
#[allow(dead_code, clippy::all)]
pub mod scalar {
    pub mod bloomfilter {
        #[path = "/repo/rust/lance-index/src/scalar/bloomfilter/as_bytes.rs"]
        pub mod as_bytes;
        #[path = "/repo/rust/lance-index/src/scalar/bloomfilter/sbbf.rs"]
        pub mod sbbf;
    }
}

use vcore::{machinery_error, Ctx};

fn main() {
    let ctx = Ctx::from_args();
    if std::env::var("VX_LOUD").is_err() {
        vcore::quiet_panics();
    }
    let out: vcore::Outcome = match ctx.id.as_str() {
        "C12" => c12::run(&ctx),
        "C16" => c16::run(&ctx),
        "C19" => c19::run(&ctx),
        "C20" => c20::run(&ctx),
        "C29" => c29::run(&ctx),
        other => machinery_error(&format!("vx_query does not implement {other}")),
    };
    vcore::finish(&ctx, out);
}
