//! C16 – scanner results equal a reference query and do not depend on execution knobs.
//!
//! Tables: three fixed typed tables (numeric: int8/16/32/64, uint8/64, float32/64 with min/max, NaN,
//! +-0, +-inf, 2^24, 2^53+1; text: utf8 incl. "" and max code point, bool, date32, timestamp[us],
//! timestamp[s]; nested: struct<x:int32,y:utf8>), each 2 fragments, NULLs in every column, one
//! deleted row, a btree on one column.
//! Enumerated: (a) every filter of the grammar (atoms = column x 6 comparisons x {in-domain,
//! boundary, out-of-range, cross-type literals}, IS [NOT] NULL, IN, BETWEEN; depth 2 = NOT, AND/OR
//! over a reduced atom set) at default knobs and at every single-knob deviation; (b) a reduced
//! filter set x projections x limit/offset in {-,0,1,2,n,n+1}^2 x order_by (asc/desc x nulls
//! first/last) at default knobs and a few deviations; (c) the pure seam `safe_coerce_scalar`.
//! Oracle: rows == 3VL model (ordered: the scanner is ordered by default); equal across knobs;
//! count_rows(filter) == rows returned. A filter rejected under ALL knob settings is counted only.

use crate::common::*;
use crate::qutil::*;
use arrow_schema::{DataType, TimeUnit};
use datafusion_common::ScalarValue;
use lance::dataset::scanner::ColumnOrdering;
use lance::Dataset;
use lance_datafusion::expr::safe_coerce_scalar;
use serde::{Deserialize, Serialize};
use serde_json::{json, Value};
use std::collections::BTreeMap;
use vcore::{Cov, Ctx, Outcome, Violation};
use vds::cells::Cell;
use vds::pred::{cell_cmp, col, CmpOp, Expr, Pred};
use vds::{run_catch, Env, URI};

// ------------------------------------------------------------------------------------------------
// tables

struct TableDef {
    name: &'static str,
    tbl: Tbl,
    deleted_uid: i64,
    index_col: &'static str,
}

fn f(v: f64) -> Cell {
    Cell::f(v)
}
const P53: i64 = 9007199254740993; // 2^53 + 1

fn num_table() -> TableDef {
    let n = Cell::Null;
    let cols: Vec<(String, DataType)> = vec![
        ("uid".into(), DataType::Int32),
        ("i8".into(), DataType::Int8),
        ("i16".into(), DataType::Int16),
        ("i32".into(), DataType::Int32),
        ("i64".into(), DataType::Int64),
        ("u8".into(), DataType::UInt8),
        ("u64".into(), DataType::UInt64),
        ("f32".into(), DataType::Float32),
        ("f64".into(), DataType::Float64),
    ];
    let i = Cell::I;
    let u = Cell::U;
    let rows: Vec<Row> = vec![
        vec![i(0), i(-128), i(-32768), i(i32::MIN as i64), i(i64::MIN), u(0), u(0), f(f64::NEG_INFINITY), f(f64::NEG_INFINITY)],
        vec![i(1), i(-1), i(-1), i(-1), i(-1), u(1), u(1), f(-0.0), f(-0.0)],
        vec![i(2), i(0), i(0), i(0), i(0), u(0), u(P53 as u64), f(0.0), f(0.0)],
        vec![i(3), n.clone(), n.clone(), n.clone(), n.clone(), n.clone(), n.clone(), n.clone(), n.clone()],
        vec![i(8), i(5), i(5), i(5), i(5), u(5), u(5), f(5.0), f(5.0)], // deleted
        vec![i(4), i(1), i(1), i(1), i(1), u(1), u(1), f(1.5), f(1.5)],
        vec![i(5), i(127), i(32767), i(i32::MAX as i64), i(i64::MAX), u(255), u(u64::MAX), f(f64::INFINITY), f(f64::INFINITY)],
        vec![i(6), i(1), i(300), i(300), i(P53), u(200), u(300), f(16777216.0), f(9007199254740992.0)],
        vec![i(7), n.clone(), i(0), n.clone(), i(0), n.clone(), n.clone(), f(f64::NAN), f(f64::NAN)],
    ];
    TableDef { name: "num", tbl: Tbl { cols, frags: vec![rows[..5].to_vec(), rows[5..].to_vec()] }, deleted_uid: 8, index_col: "i32" }
}

fn txt_table() -> TableDef {
    let n = Cell::Null;
    let cols: Vec<(String, DataType)> = vec![
        ("uid".into(), DataType::Int32),
        ("s".into(), DataType::Utf8),
        ("b".into(), DataType::Boolean),
        ("d".into(), DataType::Date32),
        ("ts".into(), DataType::Timestamp(TimeUnit::Microsecond, None)),
        ("tss".into(), DataType::Timestamp(TimeUnit::Second, None)),
    ];
    let i = Cell::I;
    let s = Cell::s;
    let b = Cell::Bool;
    let rows: Vec<Row> = vec![
        vec![i(0), s(""), b(false), i(-1), i(-1_000_000), i(-1)],
        vec![i(1), s("a"), b(true), i(0), i(0), i(0)],
        vec![i(2), n.clone(), n.clone(), n.clone(), n.clone(), n.clone()],
        vec![i(8), s("zz"), b(true), i(5), i(5), i(5)], // deleted
        vec![i(3), s("ab"), b(true), i(1), i(1_000_000), i(1)],
        vec![i(4), s("a"), b(false), i(18262), i(1_500_000), i(1)],
        vec![i(5), s("B"), n.clone(), i(1), i(1_600_000_000_000_000), i(1_600_000_000)],
        vec![i(6), s("\u{10FFFF}"), b(true), n.clone(), i(0), n.clone()],
        vec![i(7), s("a'b"), b(false), i(20000), n.clone(), i(2)],
    ];
    TableDef { name: "txt", tbl: Tbl { cols, frags: vec![rows[..4].to_vec(), rows[4..].to_vec()] }, deleted_uid: 8, index_col: "s" }
}

fn st_table() -> TableDef {
    let cols: Vec<(String, DataType)> = vec![
        ("uid".into(), DataType::Int32),
        ("st".into(), DataType::Struct(struct_fields(vec![("x", DataType::Int32), ("y", DataType::Utf8)]))),
        ("k".into(), DataType::Int32),
    ];
    let st = |x: Cell, y: Cell| Cell::St(vec![("x".into(), x), ("y".into(), y)]);
    let i = Cell::I;
    let n = Cell::Null;
    let rows: Vec<Row> = vec![
        vec![i(0), st(i(1), Cell::s("a")), i(0)],
        vec![i(1), st(n.clone(), Cell::s("b")), i(1)],
        vec![i(8), st(i(9), Cell::s("z")), i(9)], // deleted
        vec![i(2), st(i(0), n.clone()), n.clone()],
        vec![i(3), st(i(1), Cell::s("")), i(1)],
        vec![i(4), st(n.clone(), n.clone()), i(0)],
        vec![i(5), st(i(-1), Cell::s("a")), i(2)],
    ];
    TableDef { name: "st", tbl: Tbl { cols, frags: vec![rows[..3].to_vec(), rows[3..].to_vec()] }, deleted_uid: 8, index_col: "k" }
}

fn table_by_name(n: &str) -> TableDef {
    match n {
        "num" => num_table(),
        "txt" => txt_table(),
        "st" => st_table(),
        _ => vcore::machinery_error("unknown table"),
    }
}

impl TableDef {
    /// live rows in scan order with their expected _rowid (fragment << 32 | offset)
    fn model_rows(&self) -> Vec<(Row, u64)> {
        let mut out = vec![];
        for (fi, fr) in self.tbl.frags.iter().enumerate() {
            for (off, r) in fr.iter().enumerate() {
                if r[0] != Cell::I(self.deleted_uid) {
                    out.push((r.clone(), ((fi as u64) << 32) | off as u64));
                }
            }
        }
        out
    }
    fn dt(&self, c: &str) -> DataType {
        if let Some((a, b)) = c.split_once('.') {
            if let DataType::Struct(fs) = &self.tbl.cols.iter().find(|x| x.0 == a).unwrap().1 {
                return fs.iter().find(|x| x.name() == b).unwrap().data_type().clone();
            }
        }
        self.tbl.cols.iter().find(|x| x.0 == c).unwrap().1.clone()
    }
}

async fn build(t: &TableDef) -> Result<(Env, Dataset), String> {
    let env = Env::new();
    let mut ds = create_tbl(&env, URI, &t.tbl, &TOpts::default()).await.map_err(|e| format!("create: {e}"))?;
    ds.delete(&format!("uid = {}", t.deleted_uid)).await.map_err(|e| format!("delete: {e}"))?;
    create_scalar_index(&mut ds, t.index_col, "btree", None).await.map_err(|e| format!("index: {e}"))?;
    let ds = env.open(URI).await.map_err(|e| format!("open: {e}"))?;
    Ok((env, ds))
}

// ------------------------------------------------------------------------------------------------
// filters: a SQL predicate and the model predicate side by side

#[derive(Clone, Debug, Serialize, Deserialize)]
pub struct F2 {
    sql: Pred,
    model: Pred,
    /// false: literal semantics not fixed by the property (judged by knob independence and count only)
    model_ok: bool,
}

fn bx(p: Pred) -> Box<Pred> {
    Box::new(p)
}
impl F2 {
    fn not(&self) -> F2 {
        F2 { sql: Pred::Not(bx(self.sql.clone())), model: Pred::Not(bx(self.model.clone())), model_ok: self.model_ok }
    }
    fn and(&self, o: &F2) -> F2 {
        F2 { sql: Pred::And(bx(self.sql.clone()), bx(o.sql.clone())), model: Pred::And(bx(self.model.clone()), bx(o.model.clone())), model_ok: self.model_ok && o.model_ok }
    }
    fn or(&self, o: &F2) -> F2 {
        F2 { sql: Pred::Or(bx(self.sql.clone()), bx(o.sql.clone())), model: Pred::Or(bx(self.model.clone()), bx(o.model.clone())), model_ok: self.model_ok && o.model_ok }
    }
}

/// a literal: SQL text, model value after coercion to the column's type, and whether the
/// coercion semantics are fixed by the property's conventions
struct Lit {
    sql: String,
    cell: Cell,
    ok: bool,
}

fn int_range(dt: &DataType) -> Option<(i128, i128)> {
    Some(match dt {
        DataType::Int8 => (i8::MIN as i128, i8::MAX as i128),
        DataType::Int16 => (i16::MIN as i128, i16::MAX as i128),
        DataType::Int32 => (i32::MIN as i128, i32::MAX as i128),
        DataType::Int64 => (i64::MIN as i128, i64::MAX as i128),
        DataType::UInt8 => (0, u8::MAX as i128),
        DataType::UInt64 => (0, u64::MAX as i128),
        _ => return None,
    })
}

/// literals for a column of type `dt` (harness-side coercion model; independent of Lance)
fn lits_for(dt: &DataType) -> Vec<Lit> {
    let int = |v: i128| -> Lit {
        // beyond 64 bits the harness model has no exact representation: judged by knob independence only
        if v > u64::MAX as i128 || v < i64::MIN as i128 {
            return Lit { sql: v.to_string(), cell: Cell::f(v as f64), ok: false };
        }
        let cell = if v > i64::MAX as i128 { Cell::U(v as u64) } else { Cell::I(v as i64) };
        Lit { sql: v.to_string(), cell, ok: true }
    };
    let flt = |v: f64| Lit { sql: vds::pred::lit_sql(&Cell::f(v)), cell: Cell::f(v), ok: true };
    if let Some((lo, hi)) = int_range(dt) {
        let mut v = vec![int(lo), int(-1), int(0), int(1), int(2), int(hi)];
        // out of range for the column type: numeric comparison is still well defined; Lance is known to
        // reject these at planning (counted, not judged) - if it answers, it must answer numerically
        v.push(int(hi + 1));
        if lo < 0 {
            v.push(int(lo - 1));
        }
        if *dt != DataType::Int64 && *dt != DataType::UInt64 {
            v.push(int(300));
        } else {
            v.push(int(P53 as i128));
        }
        // float literals on an integer column: numeric comparison
        v.push(flt(0.5));
        v.push(flt(1.0));
        v.push(flt(-0.0));
        return v;
    }
    match dt {
        DataType::Float32 => {
            let as32 = |x: f64| Cell::f((x as f32) as f64);
            let mut v: Vec<Lit> = [f64::NEG_INFINITY, -0.0, 0.0, 1.5, 16777216.0, f64::INFINITY, f64::NAN, 0.1]
                .iter()
                .map(|x| Lit { sql: vds::pred::lit_sql(&Cell::f(*x)), cell: as32(*x), ok: true })
                .collect();
            // integer literals are coerced to the column type (2^24 + 1 rounds to 2^24)
            for i in [0i64, 1, 16777217, -1] {
                v.push(Lit { sql: i.to_string(), cell: Cell::f((i as f32) as f64), ok: true });
            }
            v
        }
        DataType::Float64 => {
            let mut v: Vec<Lit> = [f64::NEG_INFINITY, -0.0, 0.0, 1.5, 9007199254740992.0, f64::INFINITY, f64::NAN, 0.1].iter().map(|x| flt(*x)).collect();
            for i in [0i64, 1, P53, -1] {
                v.push(Lit { sql: i.to_string(), cell: Cell::f(i as f64), ok: true });
            }
            v
        }
        DataType::Utf8 => {
            let mut v: Vec<Lit> = ["", "a", "ab", "B", "b", "a'b", "\u{10FFFF}", "zz"].iter().map(|s| Lit { sql: vds::pred::lit_sql(&Cell::s(s)), cell: Cell::s(s), ok: true }).collect();
            v.push(Lit { sql: "1".into(), cell: Cell::s("1"), ok: false });
            v
        }
        DataType::Boolean => vec![
            Lit { sql: "TRUE".into(), cell: Cell::Bool(true), ok: true },
            Lit { sql: "FALSE".into(), cell: Cell::Bool(false), ok: true },
        ],
        DataType::Date32 => {
            let mut v: Vec<Lit> = [-1i64, 0, 1, 2, 18262, 20000].iter().map(|d| Lit { sql: typed_lit_sql(&Cell::I(*d), dt), cell: Cell::I(*d), ok: true }).collect();
            // a string literal is coerced to the column's type
            v.push(Lit { sql: "'1970-01-02'".into(), cell: Cell::I(1), ok: true });
            v
        }
        DataType::Timestamp(TimeUnit::Microsecond, None) => {
            let mut v: Vec<Lit> = [-1_000_000i64, 0, 1, 1_000_000, 1_500_000, 1_600_000_000_000_000].iter().map(|d| Lit { sql: typed_lit_sql(&Cell::I(*d), dt), cell: Cell::I(*d), ok: true }).collect();
            v.push(Lit { sql: "'1970-01-01 00:00:01'".into(), cell: Cell::I(1_000_000), ok: true });
            v
        }
        DataType::Timestamp(TimeUnit::Second, None) => {
            // whole seconds, and literals with a fractional part (an instant between two representable
            // values: the comparison is still well defined; the model compares instants)
            let us = DataType::Timestamp(TimeUnit::Microsecond, None);
            let mut v: Vec<Lit> = [-1i64, 0, 1, 2, 1_600_000_000].iter().map(|s| Lit { sql: typed_lit_sql(&Cell::I(*s * 1_000_000), &us), cell: Cell::I(*s), ok: true }).collect();
            for (micros, secs) in [(500_000i64, 0.5f64), (1_500_000, 1.5), (-500_000, -0.5)] {
                v.push(Lit { sql: typed_lit_sql(&Cell::I(micros), &us), cell: Cell::f(secs), ok: true });
            }
            v
        }
        other => panic!("no literal family for {other}"),
    }
}

fn atoms_for(t: &TableDef, cname: &str, quick: bool) -> Vec<F2> {
    let dt = t.dt(cname);
    let lits = lits_for(&dt);
    let c = || col(cname);
    let mut out = vec![];
    let big = |s: &str| Expr::Lit(Cell::Big(s.to_string()));
    for l in &lits {
        for op in [CmpOp::Eq, CmpOp::Ne, CmpOp::Lt, CmpOp::Le, CmpOp::Gt, CmpOp::Ge] {
            if dt == DataType::Boolean && !matches!(op, CmpOp::Eq | CmpOp::Ne) {
                continue;
            }
            out.push(F2 { sql: Pred::Cmp(c(), op, big(&l.sql)), model: Pred::Cmp(c(), op, Expr::Lit(l.cell.clone())), model_ok: l.ok });
        }
    }
    out.push(F2 { sql: Pred::IsNull(c()), model: Pred::IsNull(c()), model_ok: true });
    out.push(F2 { sql: Pred::IsNotNull(c()), model: Pred::IsNotNull(c()), model_ok: true });
    if dt == DataType::Boolean {
        out.push(F2 { sql: Pred::BoolCol(cname.into()), model: Pred::BoolCol(cname.into()), model_ok: true });
        out.push(F2 { sql: Pred::IsTrue(bx(Pred::BoolCol(cname.into()))), model: Pred::IsTrue(bx(Pred::BoolCol(cname.into()))), model_ok: true });
        out.push(F2 { sql: Pred::IsFalse(bx(Pred::BoolCol(cname.into()))), model: Pred::IsFalse(bx(Pred::BoolCol(cname.into()))), model_ok: true });
    } else {
        let okl: Vec<&Lit> = lits.iter().filter(|l| l.ok).collect();
        // IN with / without NULL, BETWEEN (also inverted bounds)
        let pick = [okl[1], okl[3 % okl.len()], okl[okl.len() - 1]];
        out.push(F2 {
            sql: Pred::In(c(), pick.iter().map(|l| Cell::Big(l.sql.clone())).collect()),
            model: Pred::In(c(), pick.iter().map(|l| l.cell.clone()).collect()),
            model_ok: true,
        });
        out.push(F2 {
            sql: Pred::In(c(), vec![Cell::Big(okl[1].sql.clone()), Cell::Big("NULL".into())]),
            model: Pred::In(c(), vec![okl[1].cell.clone(), Cell::Null]),
            model_ok: true,
        });
        for (a, b) in [(1usize, 3usize), (3, 1), (0, okl.len() - 1)] {
            let (a, b) = (okl[a % okl.len()], okl[b % okl.len()]);
            out.push(F2 {
                sql: Pred::Between(c(), Cell::Big(a.sql.clone()), Cell::Big(b.sql.clone())),
                model: Pred::Between(c(), a.cell.clone(), b.cell.clone()),
                model_ok: true,
            });
        }
        out.push(F2 { sql: Pred::Cmp(c(), CmpOp::Eq, big("NULL")), model: Pred::Cmp(c(), CmpOp::Eq, Expr::Lit(Cell::Null)), model_ok: true });
    }
    let _ = quick;
    out
}

fn filters_for(t: &TableDef, quick: bool) -> Vec<F2> {
    let names: Vec<String> = match t.name {
        "st" => vec!["st.x".into(), "st.y".into(), "k".into()],
        _ => t.tbl.cols.iter().skip(1).map(|c| c.0.clone()).collect(),
    };
    let mut out = vec![];
    let mut reduced: Vec<F2> = vec![];
    for n in &names {
        let a = atoms_for(t, n, quick);
        // reduced atom set for depth 2: one equality, one range, IS NULL per column
        let eq = a.iter().find(|x| x.model_ok && matches!(x.model, Pred::Cmp(_, CmpOp::Eq, _))).cloned();
        let rng = a.iter().filter(|x| x.model_ok && matches!(x.model, Pred::Cmp(_, CmpOp::Ge, _))).nth(2).cloned();
        let isn = a.iter().find(|x| matches!(x.model, Pred::IsNull(_))).cloned();
        for x in [eq, rng, isn].into_iter().flatten() {
            reduced.push(x);
        }
        // NOT of every 5th atom (all in thorough)
        for (i, x) in a.iter().enumerate() {
            if !quick || i % 5 == 0 {
                out.push(x.not());
            }
        }
        out.extend(a);
    }
    // AND/OR pairs over the reduced set (quick: neighbours and every 4th pair)
    let mut k = 0;
    for i in 0..reduced.len() {
        for j in (i + 1)..reduced.len() {
            k += 1;
            if quick && !(j == i + 1 || k % 4 == 0) {
                continue;
            }
            out.push(reduced[i].and(&reduced[j]));
            out.push(reduced[i].or(&reduced[j]));
            if !quick || k % 3 == 0 {
                out.push(reduced[i].and(&reduced[j]).not());
                out.push(reduced[i].or(&reduced[j].not()));
            }
        }
    }
    out.push(F2 { sql: Pred::True, model: Pred::True, model_ok: true });
    out.push(F2 { sql: Pred::False, model: Pred::False, model_ok: true });
    out
}

fn knob_deviations() -> Vec<Knobs> {
    let d = Knobs::default;
    vec![
        Knobs { batch_size: Some(1), ..d() },
        Knobs { batch_size: Some(2), ..d() },
        Knobs { batch_size: Some(1024), ..d() },
        Knobs { batch_readahead: Some(1), ..d() },
        Knobs { fragment_readahead: Some(1), ..d() },
        Knobs { materialization: Some("early".into()), ..d() },
        Knobs { materialization: Some("late".into()), ..d() },
        Knobs { use_stats: Some(false), ..d() },
        Knobs { use_scalar_index: Some(false), ..d() },
        Knobs { prefilter: Some(true), ..d() },
        Knobs { strict_batch_size: Some(true), ..d() },
        Knobs { io_buffer_size: Some(1), ..d() },
        Knobs { scan_in_order: Some(false), ..d() },
    ]
}

// ------------------------------------------------------------------------------------------------
// (a) filters x knobs

#[derive(Clone, Debug, Serialize, Deserialize)]
struct CaseA {
    kind: String,
    table: String,
    filter: F2,
    knobs: Vec<Knobs>,
}

struct Tally {
    cov: Cov,
    viol: Vec<Violation>,
    rejected: BTreeMap<String, u64>,
}

fn getter<'a>(names: &'a [String], r: &'a [Cell]) -> impl Fn(&str) -> Cell + 'a {
    move |c: &str| row_get(names, r, c)
}

/// which column families a filter touches (classification keys)
fn filter_cols(p: &Pred) -> String {
    p.columns().join("+")
}

/// does every differing row hold NULL in one of the filter's columns (3VL suspicion)?
fn diff_all_null(names: &[String], p: &Pred, diff: &[Row]) -> bool {
    let cs = p.columns();
    !diff.is_empty() && diff.iter().all(|r| cs.iter().any(|c| row_get(names, r, c).is_null()))
}

fn negation_like(p: &Pred) -> bool {
    match p {
        Pred::Not(_) | Pred::Cmp(_, CmpOp::Ne, _) | Pred::IsFalse(_) => true,
        Pred::Cmp(_, CmpOp::Eq, Expr::Lit(Cell::Bool(false))) => true,
        Pred::And(a, b) | Pred::Or(a, b) => negation_like(a) || negation_like(b),
        Pred::IsTrue(p) => negation_like(p),
        _ => false,
    }
}

/// an integer literal outside the range of the 64-bit integer column it is compared with
fn wide_out_of_range_literal(t: &TableDef, p: &Pred) -> bool {
    let out = |e: &Expr, l: &Cell| match e {
        Expr::Col(c) => match (t.dt(c), l) {
            (DataType::Int64, Cell::U(u)) => *u > i64::MAX as u64,
            (DataType::UInt64, Cell::I(i)) => *i < 0,
            _ => false,
        },
        _ => false,
    };
    match p {
        Pred::Cmp(a, _, Expr::Lit(l)) => out(a, l),
        Pred::In(e, ls) => ls.iter().any(|l| out(e, l)),
        Pred::Between(e, lo, hi) => out(e, lo) || out(e, hi),
        Pred::Not(q) | Pred::IsTrue(q) | Pred::IsFalse(q) => wide_out_of_range_literal(t, q),
        Pred::And(a, b) | Pred::Or(a, b) => wide_out_of_range_literal(t, a) || wide_out_of_range_literal(t, b),
        _ => false,
    }
}

/// a literal with a sub-second part compared with the timestamp[s] column
fn fractional_ts_literal(p: &Pred) -> bool {
    let frac = |c: &Cell| matches!(c, Cell::F(_));
    let on = |e: &Expr| matches!(e, Expr::Col(c) if c == "tss");
    match p {
        Pred::Cmp(a, _, Expr::Lit(l)) => on(a) && frac(l),
        Pred::In(e, l) => on(e) && l.iter().any(frac),
        Pred::Between(e, lo, hi) => on(e) && (frac(lo) || frac(hi)),
        Pred::Not(q) | Pred::IsTrue(q) | Pred::IsFalse(q) => fractional_ts_literal(q),
        Pred::And(a, b) | Pred::Or(a, b) => fractional_ts_literal(a) || fractional_ts_literal(b),
        _ => false,
    }
}

async fn check_filter(ds: &Dataset, t: &TableDef, fl: &F2, knobs: &[Knobs], ta: &mut Tally) {
    let names = t.tbl.col_names();
    let sql = fl.sql.sql();
    let model: Vec<Row> = t.model_rows().into_iter().map(|x| x.0).filter(|r| fl.model.eval(&getter(&names, r)) == Some(true)).collect();
    let n_live = t.model_rows().len();
    let nontrivial = !model.is_empty() && model.len() < n_live;
    let case = json!(CaseA { kind: "filter".into(), table: t.name.into(), filter: fl.clone(), knobs: knobs.to_vec() });
    let shape = pred_shape(&fl.model);
    let fcols = filter_cols(&fl.model);
    let base = scan_rows(ds, Some(&sql), None, &Knobs::default()).await;
    let mut all_err = base.is_err();
    let mut results: Vec<(String, Result<Vec<Row>, String>)> = vec![];
    for k in knobs {
        let r = scan_rows(ds, Some(&sql), None, k).await;
        all_err &= r.is_err();
        results.push((k.label(), r));
    }
    ta.cov.eval(if nontrivial { Some(vcore::hash64(format!("{}{sql}", t.name).as_bytes())) } else { None });
    if all_err {
        ta.cov.outcome("rejected-under-all-knobs");
        *ta.rejected.entry(format!("{}/{fcols}: {}", t.name, err_shape(base.as_ref().unwrap_err()))).or_insert(0) += 1;
        return;
    }
    // knob independence
    for (label, r) in &results {
        let kname = label.split('=').next().unwrap().to_string();
        match (&base, r) {
            (Ok(b), Ok(x)) => {
                let same = if label.starts_with("scan_in_order") { bag(b.clone()) == bag(x.clone()) } else { b == x };
                if !same {
                    // rows only in the default (index-using) answer
                    let extra: Vec<Row> = b.iter().filter(|r| !x.contains(r)).cloned().collect();
                    let missing: Vec<Row> = x.iter().filter(|r| !b.contains(r)).cloned().collect();
                    let idx_neg = kname == "use_scalar_index"
                        && missing.is_empty()
                        && negation_like(&fl.model)
                        && fl.model.columns().contains(&t.index_col.to_string())
                        && extra.iter().all(|r| row_get(&names, r, t.index_col).is_null());
                    let key = if idx_neg {
                        "negation-over-indexed-nullable-column/index-returns-null-rows".to_string()
                    } else {
                        format!("knob/{kname}/{}/{fcols}/{shape}/rows-differ", t.name)
                    };
                    ta.viol.push(Violation::new("knob-independence", &key, format!("{}: filter {sql}: default knobs -> {} but {label} -> {}", t.name, show(b), show(x)), case.clone()));
                }
            }
            (Ok(_), Err(e)) => ta.viol.push(Violation::new("knob-independence", &format!("knob/{kname}/{}/{fcols}/{shape}/error-only-with-knob/{}", t.name, err_shape(e)), format!("{}: filter {sql} fails only with {label}: {e}", t.name), case.clone())),
            (Err(e), Ok(_)) => ta.viol.push(Violation::new("knob-independence", &format!("knob/{kname}/{}/{fcols}/{shape}/error-only-at-default/{}", t.name, err_shape(e)), format!("{}: filter {sql} fails at default knobs ({e}) but not with {label}", t.name), case.clone())),
            (Err(_), Err(_)) => {}
        }
    }
    let Ok(b) = &base else {
        ta.cov.outcome("error-at-default-only");
        return;
    };
    // reference model (ordered scan)
    if fl.model_ok {
        if *b != model {
            let missing: Vec<Row> = model.iter().filter(|r| !b.contains(r)).cloned().collect();
            let extra: Vec<Row> = b.iter().filter(|r| !model.contains(r)).cloned().collect();
            let kind = if missing.is_empty() && extra.is_empty() {
                "order-differs"
            } else if missing.is_empty() {
                if diff_all_null(&names, &fl.model, &extra) { "returns-null-predicate-rows" } else { "extra-rows" }
            } else if extra.is_empty() {
                "missing-rows"
            } else {
                "missing-and-extra-rows"
            };
            ta.cov.outcome("differs-from-model");
            let idx_neg = kind == "returns-null-predicate-rows"
                && negation_like(&fl.model)
                && fl.model.columns().contains(&t.index_col.to_string())
                && extra.iter().all(|r| row_get(&names, r, t.index_col).is_null());
            let key = if idx_neg {
                "negation-over-indexed-nullable-column/index-returns-null-rows".to_string()
            } else if wide_out_of_range_literal(t, &fl.model) {
                "model/out-of-range-64-bit-integer-literal/compared-in-floating-point".to_string()
            } else if fractional_ts_literal(&fl.model) {
                "timestamp-literal-coerced-to-coarser-unit-by-truncation".to_string()
            } else {
                format!("model/{}/{fcols}/{shape}/{kind}", t.name)
            };
            ta.viol.push(Violation::new("model", &key, format!("{}: filter {sql}: scan -> {} but 3VL model -> {}", t.name, show(b), show(&model)), case.clone()));
        } else {
            ta.cov.outcome("equals-model");
        }
    } else {
        ta.cov.outcome("knob-independence-only");
    }
    // count_rows(filter)
    match ds.count_rows(Some(sql.clone())).await {
        Ok(n) if n == b.len() => {}
        Ok(n) => ta.viol.push(Violation::new("count_rows", &format!("count_rows/{}/{fcols}/{shape}", t.name), format!("{}: count_rows({sql}) = {n} but the scan returns {} rows", t.name, b.len()), case)),
        Err(e) => ta.viol.push(Violation::new("count_rows", &format!("count_rows-error/{}/{fcols}/{shape}/{}", t.name, err_shape(&e.to_string())), format!("{}: count_rows({sql}) fails: {e}", t.name), case)),
    }
}

// ------------------------------------------------------------------------------------------------
// (b) projection x limit/offset x order_by

#[derive(Clone, Debug, Serialize, Deserialize)]
struct CaseB {
    kind: String,
    table: String,
    filter: Option<F2>,
    projection: Option<Vec<String>>,
    with_row_id: bool,
    limit: Option<i64>,
    offset: Option<i64>,
    /// (column, ascending, nulls_first)
    order: Option<(String, bool, bool)>,
    knobs: Knobs,
}

fn sort_key_cmp(a: &Cell, b: &Cell, asc: bool, nulls_first: bool) -> std::cmp::Ordering {
    use std::cmp::Ordering::*;
    match (a.is_null(), b.is_null()) {
        (true, true) => Equal,
        (true, false) => if nulls_first { Less } else { Greater },
        (false, true) => if nulls_first { Greater } else { Less },
        _ => {
            let o = cell_cmp(a, b).unwrap_or(Equal);
            if asc { o } else { o.reverse() }
        }
    }
}

async fn run_b(ds: &Dataset, t: &TableDef, c: &CaseB) -> Result<Vec<Row>, String> {
    let mut sc = ds.scan();
    if let Some(p) = &c.projection {
        sc.project(p).map_err(|e| format!("project: {e}"))?;
    }
    if c.with_row_id {
        sc.with_row_id();
    }
    if let Some(fl) = &c.filter {
        sc.filter(&fl.sql.sql()).map_err(|e| format!("filter: {e}"))?;
    }
    if c.limit.is_some() || c.offset.is_some() {
        sc.limit(c.limit, c.offset).map_err(|e| format!("limit: {e}"))?;
    }
    if let Some((col, asc, nf)) = &c.order {
        let o = match (asc, nf) {
            (true, true) => ColumnOrdering::asc_nulls_first(col.clone()),
            (true, false) => ColumnOrdering::asc_nulls_last(col.clone()),
            (false, true) => ColumnOrdering::desc_nulls_first(col.clone()),
            (false, false) => ColumnOrdering::desc_nulls_last(col.clone()),
        };
        sc.order_by(Some(vec![o])).map_err(|e| format!("order_by: {e}"))?;
    }
    c.knobs.apply(&mut sc);
    use futures::TryStreamExt;
    let batches: Vec<arrow_array::RecordBatch> = tokio::time::timeout(std::time::Duration::from_secs(30), async {
        let st = sc.try_into_stream().await.map_err(|e| format!("plan: {e}"))?;
        st.try_collect().await.map_err(|e| format!("exec: {e}"))
    })
    .await
    .map_err(|_| "timeout: the scan did not finish within 30 s".to_string())??;
    let _ = t;
    Ok(vds::cells::batches_rows(&batches))
}

fn project_model(t: &TableDef, row: &Row, rowid: u64, c: &CaseB) -> Row {
    let names = t.tbl.col_names();
    let mut out: Row = match &c.projection {
        None => row.clone(),
        Some(p) => p.iter().map(|n| row_get(&names, row, n)).collect(),
    };
    if c.with_row_id {
        out.push(Cell::U(rowid));
    }
    out
}

fn query_shape(c: &CaseB) -> String {
    let mut parts = vec![];
    if c.order.is_some() {
        parts.push("order_by");
    }
    match c.limit {
        Some(0) => parts.push("limit0"),
        Some(_) => parts.push("limit"),
        None => {}
    }
    if c.offset.is_some() {
        parts.push("offset");
    }
    if parts.is_empty() {
        parts.push("plain");
    }
    parts.join("+")
}

fn check_b(t: &TableDef, c: &CaseB, got: &Result<Vec<Row>, String>, ta: &mut Tally) {
    let mut tmp = Tally { cov: Cov::new(), viol: vec![], rejected: BTreeMap::new() };
    check_b_inner(t, c, got, &mut tmp, false);
    let neg_on_index = c.filter.as_ref().map(|f| negation_like(&f.model) && f.model.columns().contains(&t.index_col.to_string())).unwrap_or(false);
    if !tmp.viol.is_empty() && got.is_ok() && neg_on_index && c.knobs.use_scalar_index != Some(false) {
        // is the deviation exactly "the negation over the index also returns the NULL rows"?
        let mut alt = Tally { cov: Cov::new(), viol: vec![], rejected: BTreeMap::new() };
        check_b_inner(t, c, got, &mut alt, true);
        if alt.viol.is_empty() {
            for v in tmp.viol.iter_mut() {
                v.key = "negation-over-indexed-nullable-column/index-returns-null-rows".to_string();
            }
        }
    }
    ta.cov.merge(tmp.cov);
    ta.viol.extend(tmp.viol);
}

fn check_b_inner(t: &TableDef, c: &CaseB, got: &Result<Vec<Row>, String>, ta: &mut Tally, null_rows_match: bool) {
    let names = t.tbl.col_names();
    let case = serde_json::to_value(c).unwrap();
    let desc = format!(
        "{} filter={} proj={:?} rowid={} limit={:?} offset={:?} order={:?} knobs={}",
        t.name,
        c.filter.as_ref().map(|f| f.sql.sql()).unwrap_or("-".into()),
        c.projection,
        c.with_row_id,
        c.limit,
        c.offset,
        c.order,
        c.knobs.label()
    );
    let shape = query_shape(c);
    let mut matches: Vec<(Row, u64)> = t
        .model_rows()
        .into_iter()
        .filter(|(r, _)| c.filter.as_ref().map(|f| f.model.eval(&getter(&names, r)) == Some(true) || (null_rows_match && row_get(&names, r, t.index_col).is_null())).unwrap_or(true))
        .collect();
    let ordered_scan = c.knobs.scan_in_order != Some(false);
    if let Some((col, asc, nf)) = &c.order {
        matches.sort_by(|a, b| sort_key_cmp(&row_get(&names, &a.0, col), &row_get(&names, &b.0, col), *asc, *nf));
    }
    let off = c.offset.unwrap_or(0).max(0) as usize;
    let lim = c.limit.map(|l| l.max(0) as usize).unwrap_or(usize::MAX);
    let m = matches.len();
    let want_n = m.saturating_sub(off).min(lim);
    let nontrivial = want_n > 0 && want_n < t.model_rows().len();
    ta.cov.eval(if nontrivial { Some(vcore::hash64(desc.as_bytes())) } else { None });
    let got = match got {
        Ok(g) => g,
        Err(e) => {
            ta.cov.outcome("b-error");
            let proj = if c.projection.is_some() { "projection" } else { "all-columns" };
            ta.viol.push(Violation::new("query-error", &format!("query/{shape}/{proj}/error/{}", err_shape(e)), format!("{desc}: {e}"), case));
            return;
        }
    };
    let full: Vec<Row> = matches.iter().map(|(r, id)| project_model(t, r, *id, c)).collect();
    let fail = |ta: &mut Tally, kind: &str, detail: String| {
        ta.cov.outcome("b-differs");
        let key = if c.limit == Some(0) && kind == "row-count" { "limit-zero-not-honoured".to_string() } else { format!("query/{shape}/{kind}") };
        ta.viol.push(Violation::new("query-model", &key, format!("{desc}: {detail}"), case.clone()));
    };
    if got.len() != want_n {
        fail(ta, "row-count", format!("returned {} rows, expected {want_n} of the {m} matches: {}", got.len(), show(got)));
        return;
    }
    if let Some((col, asc, nf)) = &c.order {
        // the sequence of sort keys is determined; ties may come in any order
        let key_of_model: Vec<Cell> = matches.iter().skip(off).take(want_n).map(|(r, _)| row_get(&names, r, col)).collect();
        // find the key in the returned row: via the projection position, else via uid lookup
        let pos = match &c.projection {
            None => names.iter().position(|n| n == col),
            Some(p) => p.iter().position(|n| n == col),
        };
        if let Some(pos) = pos {
            let keys: Vec<Cell> = got.iter().map(|r| r[pos].clone()).collect();
            if keys.iter().zip(&key_of_model).any(|(a, b)| sort_key_cmp(a, b, *asc, *nf) != std::cmp::Ordering::Equal) {
                fail(ta, "sort-keys", format!("sort keys {} but expected {}", show(&[keys]), show(&[key_of_model])));
                return;
            }
        }
        // every returned row is a distinct match
        let mut pool = full.clone();
        for r in got {
            match pool.iter().position(|x| x == r) {
                Some(i) => {
                    pool.remove(i);
                }
                None => {
                    fail(ta, "row-not-a-match", format!("returned row {} is not among the matches {}", show(&[r.clone()]), show(&full)));
                    return;
                }
            }
        }
    } else if ordered_scan {
        let want: Vec<Row> = full.iter().skip(off).take(want_n).cloned().collect();
        if *got != want {
            fail(ta, "rows", format!("returned {} expected {}", show(got), show(&want)));
            return;
        }
    } else {
        let mut pool = full.clone();
        for r in got {
            match pool.iter().position(|x| x == r) {
                Some(i) => {
                    pool.remove(i);
                }
                None => {
                    fail(ta, "row-not-a-match", format!("returned row {} is not among the matches", show(&[r.clone()])));
                    return;
                }
            }
        }
    }
    ta.cov.outcome("b-equals-model");
}

fn b_cases(t: &TableDef, quick: bool) -> Vec<CaseB> {
    let all = filters_for(t, true);
    let pickf: Vec<Option<F2>> = {
        let ok: Vec<F2> = all.iter().filter(|f| f.model_ok).cloned().collect();
        let names = t.tbl.col_names();
        // filters with 0, 1, some, all matches
        let mut chosen: Vec<Option<F2>> = vec![None];
        let live = t.model_rows();
        for target in if quick { vec![2usize, 4] } else { vec![0usize, 1, 2, 3, 4, 5] } {
            if let Some(f) = ok.iter().find(|f| live.iter().filter(|(r, _)| f.model.eval(&getter(&names, r)) == Some(true)).count() == target && !matches!(f.model, Pred::True | Pred::False)) {
                chosen.push(Some(f.clone()));
            }
        }
        chosen
    };
    let n = t.model_rows().len() as i64;
    let lo: Vec<Option<i64>> = vec![None, Some(0), Some(1), Some(2), Some(n), Some(n + 1)];
    let (ocol, pcols): (&str, Vec<Option<Vec<String>>>) = match t.name {
        "num" => ("f64", vec![None, Some(vec!["f64".into()]), Some(vec!["uid".into(), "i8".into(), "f64".into()])]),
        "txt" => ("s", vec![None, Some(vec!["s".into()]), Some(vec!["ts".into(), "uid".into()])]),
        _ => ("k", vec![None, Some(vec!["st.x".into()]), Some(vec!["k".into(), "st".into()])]),
    };
    let mut orders: Vec<Option<(String, bool, bool)>> = vec![None];
    for asc in [true, false] {
        for nf in [true, false] {
            orders.push(Some((ocol.to_string(), asc, nf)));
        }
    }
    if t.name == "num" && !quick {
        for asc in [true, false] {
            orders.push(Some(("i64".to_string(), asc, true)));
        }
    }
    let knobs: Vec<Knobs> = if quick {
        vec![Knobs::default(), Knobs { batch_size: Some(1), ..Default::default() }]
    } else {
        vec![
            Knobs::default(),
            Knobs { batch_size: Some(1), ..Default::default() },
            Knobs { batch_size: Some(2), ..Default::default() },
            Knobs { materialization: Some("late".into()), ..Default::default() },
            Knobs { materialization: Some("early".into()), ..Default::default() },
            Knobs { use_scalar_index: Some(false), ..Default::default() },
            Knobs { scan_in_order: Some(false), ..Default::default() },
            Knobs { fragment_readahead: Some(1), ..Default::default() },
        ]
    };
    let mut out = vec![];
    for f in &pickf {
        for (pi, p) in pcols.iter().enumerate() {
            for rid in [false, true] {
                if rid && pi == 1 && quick {
                    continue;
                }
                for l in &lo {
                    for o in &lo {
                        for ord in &orders {
                            for k in &knobs {
                                // quick: the full limit x offset square only at default knobs; deviations on the diagonal
                                if quick && *k != Knobs::default() && l != o {
                                    continue;
                                }
                                if quick && rid && ord.is_some() && l != o {
                                    continue;
                                }
                                out.push(CaseB { kind: "query".into(), table: t.name.into(), filter: f.clone(), projection: p.clone(), with_row_id: rid, limit: *l, offset: *o, order: ord.clone(), knobs: k.clone() });
                            }
                        }
                    }
                }
            }
        }
    }
    out
}

// ------------------------------------------------------------------------------------------------
// (c) safe_coerce_scalar

fn int_scalar(dt: &DataType, v: i128) -> Option<ScalarValue> {
    Some(match dt {
        DataType::Int8 => ScalarValue::Int8(Some(i8::try_from(v).ok()?)),
        DataType::Int16 => ScalarValue::Int16(Some(i16::try_from(v).ok()?)),
        DataType::Int32 => ScalarValue::Int32(Some(i32::try_from(v).ok()?)),
        DataType::Int64 => ScalarValue::Int64(Some(i64::try_from(v).ok()?)),
        DataType::UInt8 => ScalarValue::UInt8(Some(u8::try_from(v).ok()?)),
        DataType::UInt16 => ScalarValue::UInt16(Some(u16::try_from(v).ok()?)),
        DataType::UInt32 => ScalarValue::UInt32(Some(u32::try_from(v).ok()?)),
        DataType::UInt64 => ScalarValue::UInt64(Some(u64::try_from(v).ok()?)),
        _ => return None,
    })
}

fn scalar_int_value(s: &ScalarValue) -> Option<i128> {
    Some(match s {
        ScalarValue::Int8(Some(v)) => *v as i128,
        ScalarValue::Int16(Some(v)) => *v as i128,
        ScalarValue::Int32(Some(v)) => *v as i128,
        ScalarValue::Int64(Some(v)) => *v as i128,
        ScalarValue::UInt8(Some(v)) => *v as i128,
        ScalarValue::UInt16(Some(v)) => *v as i128,
        ScalarValue::UInt32(Some(v)) => *v as i128,
        ScalarValue::UInt64(Some(v)) => *v as i128,
        _ => return None,
    })
}

/// nearest f32 / f64 of an integer, computed with exact integer arithmetic in the harness
fn nearest_f64(v: i128) -> f64 {
    // i128 -> f64 conversion in Rust is round-to-nearest-even (language guarantee)
    v as f64
}

fn coerce_seam(ta: &mut Tally) {
    let ints = [DataType::Int8, DataType::Int16, DataType::Int32, DataType::Int64, DataType::UInt8, DataType::UInt16, DataType::UInt32, DataType::UInt64];
    let floats = [DataType::Float32, DataType::Float64];
    let mut vals: Vec<i128> = vec![0, 1, -1, (1 << 24) + 1, (1i128 << 53) + 1, -((1i128 << 53) + 1)];
    for (lo, hi) in [(i8::MIN as i128, i8::MAX as i128), (i16::MIN as i128, i16::MAX as i128), (i32::MIN as i128, i32::MAX as i128), (i64::MIN as i128, i64::MAX as i128), (0, u8::MAX as i128), (0, u16::MAX as i128), (0, u32::MAX as i128), (0, u64::MAX as i128)] {
        for v in [lo - 1, lo, lo + 1, hi - 1, hi, hi + 1] {
            vals.push(v);
        }
    }
    vals.sort();
    vals.dedup();
    let mut push = |ta: &mut Tally, key: String, what: String, case: Value| {
        ta.viol.push(Violation::new("safe_coerce_scalar", &key, what, case));
    };
    for src in &ints {
        for v in &vals {
            let Some(sv) = int_scalar(src, *v) else { continue };
            for dst in &ints {
                let r = vcore::catch(|| safe_coerce_scalar(&sv, dst));
                let want = int_scalar(dst, *v);
                ta.cov.eval(Some(vcore::hash64(format!("{src}{v}{dst}").as_bytes())));
                let case = json!({"kind": "coerce", "from": format!("{sv:?}"), "to": format!("{dst}")});
                match r {
                    Err(p) => push(ta, format!("coerce/int-to-int/panic/{}", err_shape(&p)), format!("safe_coerce_scalar({sv:?}, {dst}) panics: {p}"), case),
                    Ok(got) => {
                        let ok = match (&got, &want) {
                            (None, None) => true,
                            (Some(g), Some(w)) => g == w,
                            _ => false,
                        };
                        ta.cov.outcome(if want.is_some() { "coerce-int-representable" } else { "coerce-int-unrepresentable" });
                        if !ok {
                            push(ta, format!("coerce/int-to-int/{}", if want.is_none() { "unrepresentable-value-accepted" } else if got.is_none() { "representable-value-refused" } else { "value-changed" }), format!("safe_coerce_scalar({sv:?}, {dst}) = {got:?}, expected {want:?}"), case);
                        }
                    }
                }
            }
            for dst in &floats {
                let r = vcore::catch(|| safe_coerce_scalar(&sv, dst));
                ta.cov.eval(Some(vcore::hash64(format!("{src}{v}{dst}").as_bytes())));
                let case = json!({"kind": "coerce", "from": format!("{sv:?}"), "to": format!("{dst}")});
                let want64 = nearest_f64(*v);
                match r {
                    Err(p) => push(ta, format!("coerce/int-to-float/panic/{}", err_shape(&p)), format!("safe_coerce_scalar({sv:?}, {dst}) panics: {p}"), case),
                    Ok(Some(ScalarValue::Float64(Some(g)))) if *dst == DataType::Float64 => {
                        ta.cov.outcome("coerce-int-to-float");
                        if g != want64 {
                            push(ta, "coerce/int-to-float64/not-nearest".into(), format!("safe_coerce_scalar({sv:?}, Float64) = {g:?}, nearest is {want64:?}"), case);
                        }
                    }
                    Ok(Some(ScalarValue::Float32(Some(g)))) if *dst == DataType::Float32 => {
                        ta.cov.outcome("coerce-int-to-float");
                        // nearest f32 of the exact integer: the two f32 neighbours of the f64 value
                        let cand = want64 as f32;
                        let exact = *v as f64; // may itself be rounded for |v| > 2^53; compare distances in i128
                        let _ = exact;
                        let d = |x: f32| ((x as f64) as i128 - *v).abs();
                        let lo = f32::from_bits(cand.to_bits().wrapping_sub(1));
                        let hi = f32::from_bits(cand.to_bits().wrapping_add(1));
                        let best = [lo, cand, hi].into_iter().filter(|x| x.is_finite()).map(d).min().unwrap();
                        if !g.is_finite() || d(g) != best {
                            push(ta, "coerce/int-to-float32/not-nearest".into(), format!("safe_coerce_scalar({sv:?}, Float32) = {g:?}, a nearer f32 exists"), case);
                        }
                    }
                    Ok(other) => push(ta, "coerce/int-to-float/unexpected-result".into(), format!("safe_coerce_scalar({sv:?}, {dst}) = {other:?}"), case),
                }
            }
        }
    }
    // float -> float, float -> int
    let fvals = [0.0f64, -0.0, 1.0, 0.5, 16777217.0, 1e39, -1e39, f64::NAN, f64::INFINITY, f64::NEG_INFINITY, 9007199254740993.0];
    for v in fvals {
        let sv = ScalarValue::Float64(Some(v));
        ta.cov.eval(Some(vcore::hash64(format!("f64{v:?}f32").as_bytes())));
        match vcore::catch(|| safe_coerce_scalar(&sv, &DataType::Float32)) {
            Ok(Some(ScalarValue::Float32(Some(g)))) => {
                let want = v as f32;
                ta.cov.outcome("coerce-float-to-float");
                if !(g == want || (g.is_nan() && want.is_nan())) || (g == 0.0 && g.is_sign_negative() != want.is_sign_negative()) {
                    push(ta, "coerce/float64-to-float32/not-nearest".into(), format!("safe_coerce_scalar({sv:?}, Float32) = {g:?}, expected {want:?}"), json!({"kind":"coerce","from":format!("{sv:?}"),"to":"Float32"}));
                }
            }
            other => push(ta, "coerce/float64-to-float32/unexpected-result".into(), format!("safe_coerce_scalar({sv:?}, Float32) = {other:?}"), json!({"kind":"coerce","from":format!("{sv:?}"),"to":"Float32"})),
        }
        for dst in &ints {
            ta.cov.eval(Some(vcore::hash64(format!("f64{v:?}{dst}").as_bytes())));
            match vcore::catch(|| safe_coerce_scalar(&sv, dst)) {
                Ok(None) => ta.cov.outcome("coerce-float-to-int-refused"),
                Ok(Some(g)) => {
                    // allowed only when exactly representable and equal
                    let exact = v.fract() == 0.0 && v.is_finite() && scalar_int_value(&g).map(|i| i as f64 == v && (i as f64) as i128 == i).unwrap_or(false);
                    ta.cov.outcome("coerce-float-to-int-accepted");
                    if !exact {
                        push(ta, "coerce/float-to-int/inexact-value-accepted".into(), format!("safe_coerce_scalar({sv:?}, {dst}) = {g:?}"), json!({"kind":"coerce","from":format!("{sv:?}"),"to":format!("{dst}")}));
                    }
                }
                Err(p) => push(ta, format!("coerce/float-to-int/panic/{}", err_shape(&p)), format!("safe_coerce_scalar({sv:?}, {dst}) panics: {p}"), json!({"kind":"coerce","from":format!("{sv:?}"),"to":format!("{dst}")})),
            }
        }
    }
    // temporal unit conversion: the result must denote the same instant, or be refused
    let units = [TimeUnit::Second, TimeUnit::Millisecond, TimeUnit::Microsecond, TimeUnit::Nanosecond];
    let per_sec = |u: &TimeUnit| -> i128 {
        match u {
            TimeUnit::Second => 1,
            TimeUnit::Millisecond => 1_000,
            TimeUnit::Microsecond => 1_000_000,
            TimeUnit::Nanosecond => 1_000_000_000,
        }
    };
    let mk = |u: &TimeUnit, v: i64| match u {
        TimeUnit::Second => ScalarValue::TimestampSecond(Some(v), None),
        TimeUnit::Millisecond => ScalarValue::TimestampMillisecond(Some(v), None),
        TimeUnit::Microsecond => ScalarValue::TimestampMicrosecond(Some(v), None),
        TimeUnit::Nanosecond => ScalarValue::TimestampNanosecond(Some(v), None),
    };
    let tsval = |s: &ScalarValue| match s {
        ScalarValue::TimestampSecond(Some(v), _) | ScalarValue::TimestampMillisecond(Some(v), _) | ScalarValue::TimestampMicrosecond(Some(v), _) | ScalarValue::TimestampNanosecond(Some(v), _) => Some(*v),
        _ => None,
    };
    for su in &units {
        for v in [0i64, 1, -1, 999, 1000, 1500, -1500, 1_000_000, 1_500_000, i64::MAX, i64::MIN] {
            let sv = mk(su, v);
            for du in &units {
                let dst = DataType::Timestamp(*du, None);
                ta.cov.eval(Some(vcore::hash64(format!("{su:?}{v}{du:?}").as_bytes())));
                let case = json!({"kind":"coerce","from":format!("{sv:?}"),"to":format!("{dst}")});
                match vcore::catch(|| safe_coerce_scalar(&sv, &dst)) {
                    Err(p) => push(ta, format!("coerce/timestamp/panic/{}", err_shape(&p)), format!("safe_coerce_scalar({sv:?}, {dst}) panics: {p}"), case),
                    Ok(None) => ta.cov.outcome("coerce-timestamp-refused"),
                    Ok(Some(g)) => {
                        ta.cov.outcome("coerce-timestamp-accepted");
                        // same instant: v / per_sec(su) == g / per_sec(du)  <=>  v * per_sec(du) == g * per_sec(su)
                        let same = tsval(&g).map(|gv| (v as i128) * per_sec(du) == (gv as i128) * per_sec(su)).unwrap_or(false);
                        if !same {
                            push(ta, if per_sec(du) < per_sec(su) { "timestamp-literal-coerced-to-coarser-unit-by-truncation".to_string() } else { "coerce/timestamp/to-finer-unit/different-instant".to_string() }, format!("safe_coerce_scalar({sv:?}, {dst}) = {g:?}: not the same instant"), case);
                        }
                    }
                }
            }
        }
    }
}

// ------------------------------------------------------------------------------------------------

fn replay(art: &Value) -> Outcome {
    let mut out = Outcome::new("exploration");
    let mut ta = Tally { cov: Cov::new(), viol: vec![], rejected: BTreeMap::new() };
    let case = &art["case"];
    match case["kind"].as_str() {
        Some("coerce") => coerce_seam(&mut ta),
        Some("filter") => {
            let c: CaseA = serde_json::from_value(case.clone()).unwrap_or_else(|e| vcore::machinery_error(&format!("bad case: {e}")));
            let t = table_by_name(&c.table);
            let r = run_catch(async {
                let (_env, ds) = build(&t).await?;
                check_filter(&ds, &t, &c.filter, &c.knobs, &mut ta).await;
                Ok::<(), String>(())
            });
            match r {
                Ok(Ok(())) => {}
                Ok(Err(e)) => vcore::machinery_error(&e),
                Err(p) => ta.viol.push(Violation::new("panic", &format!("panic/{}/{}", c.table, err_shape(&p)), p, case.clone())),
            }
        }
        Some("query") => {
            let c: CaseB = serde_json::from_value(case.clone()).unwrap_or_else(|e| vcore::machinery_error(&format!("bad case: {e}")));
            let t = table_by_name(&c.table);
            let r = run_catch(async {
                let (_env, ds) = build(&t).await?;
                Ok::<_, String>(run_b(&ds, &t, &c).await)
            });
            match r {
                Ok(Ok(got)) => check_b(&t, &c, &got, &mut ta),
                Ok(Err(e)) => vcore::machinery_error(&e),
                Err(p) => ta.viol.push(Violation::new("panic", &if c.limit == Some(0) { "limit-zero-not-honoured".to_string() } else { format!("query/{}/panic/{}", query_shape(&c), err_shape(&p)) }, p, case.clone())),
            }
        }
        _ => vcore::machinery_error("unknown C16 case kind"),
    }
    // only report the replayed key when the artefact names one
    if let Some(k) = art["key"].as_str() {
        ta.viol.retain(|v| v.key == k);
    }
    ta.cov.fill(&mut out, "replay of one case", false);
    out.violations = ta.viol;
    out
}

enum Item {
    Filters(&'static str, Vec<F2>),
    Queries(&'static str, Vec<CaseB>),
    Coerce,
}

pub fn run(ctx: &Ctx) -> Outcome {
    if let Some(art) = ctx.replay_case() {
        return replay(&art);
    }
    let quick = ctx.quick();
    let mut out = Outcome::new("exploration");
    let knobs = knob_deviations();
    let mut items: Vec<Item> = vec![Item::Coerce];
    let mut n_filters = 0usize;
    let mut n_queries = 0usize;
    for t in [num_table(), txt_table(), st_table()] {
        let fs = filters_for(&t, quick);
        n_filters += fs.len();
        for ch in vcore::smallx::chunks(&fs, 12) {
            items.push(Item::Filters(t.name, ch));
        }
        let qs = b_cases(&t, quick);
        n_queries += qs.len();
        for ch in vcore::smallx::chunks(&qs, 12) {
            items.push(Item::Queries(t.name, ch));
        }
    }
    if ctx.seed != 0 {
        let n = items.len();
        items.rotate_left(ctx.seed as usize % n);
    }
    let budget = Budget::new(ctx.opts.get("budget").and_then(|b| b.parse().ok()).unwrap_or(ctx.tier.pick(40.0, 840.0)));
    let results = vcore::par_map(items, ctx.workers, |_, item| {
        let mut ta = Tally { cov: Cov::new(), viol: vec![], rejected: BTreeMap::new() };
        let mut complete = true;
        let mut merr = None;
        match item {
            Item::Coerce => coerce_seam(&mut ta),
            Item::Filters(tn, fs) => {
                let t = table_by_name(tn);
                match run_catch(build(&t)) {
                    Ok(Ok((_env, ds))) => {
                        for fl in &fs {
                            if budget.over() {
                                complete = false;
                                break;
                            }
                            if let Err(p) = run_catch(check_filter(&ds, &t, fl, &knobs, &mut ta)) {
                                ta.viol.push(Violation::new("panic", &format!("panic/{tn}/{}/{}", filter_cols(&fl.model), err_shape(&p)), format!("{tn}: filter {} panics: {p}", fl.sql.sql()), json!(CaseA { kind: "filter".into(), table: tn.into(), filter: fl.clone(), knobs: knobs.clone() })));
                            }
                        }
                    }
                    Ok(Err(e)) => merr = Some(e),
                    Err(p) => merr = Some(format!("panic while building {tn}: {p}")),
                }
            }
            Item::Queries(tn, qs) => {
                let t = table_by_name(tn);
                match run_catch(build(&t)) {
                    Ok(Ok((_env, ds))) => {
                        for c in &qs {
                            if budget.over() {
                                complete = false;
                                break;
                            }
                            match run_catch(run_b(&ds, &t, c)) {
                                Ok(Err(e)) if e.starts_with("plan:") || e.starts_with("project:") || e.starts_with("order_by:") || e.starts_with("limit:") => {
                                    // rejected at planning: counted, not judged - provided the default knobs reject it too
                                    let at_default = if c.knobs == Knobs::default() { Err(e.clone()) } else { run_catch(run_b(&ds, &t, &CaseB { knobs: Knobs::default(), ..c.clone() })).unwrap_or_else(Err) };
                                    if at_default.is_err() {
                                        ta.cov.eval(None);
                                        ta.cov.outcome("b-rejected-at-planning");
                                        *ta.rejected.entry(format!("{tn}/{}: {}", query_shape(c), err_shape(&e))).or_insert(0) += 1;
                                    } else {
                                        check_b(&t, c, &Err(e), &mut ta);
                                    }
                                }
                                Ok(got) => check_b(&t, c, &got, &mut ta),
                                Err(p) => {
                                    let key = if c.limit == Some(0) { "limit-zero-not-honoured".to_string() } else { format!("query/{}/panic/{}", query_shape(c), err_shape(&p)) };
                                    ta.viol.push(Violation::new("panic", &key, format!("{tn}: query {} panics: {p}", query_shape(c)), serde_json::to_value(c).unwrap()))
                                }
                            }
                        }
                    }
                    Ok(Err(e)) => merr = Some(e),
                    Err(p) => merr = Some(format!("panic while building {tn}: {p}")),
                }
            }
        }
        (ta, complete, merr)
    });
    let mut cov = Cov::new();
    let mut viol = vec![];
    let mut rejected: BTreeMap<String, u64> = BTreeMap::new();
    let mut complete = true;
    for (ta, c, merr) in results {
        if let Some(e) = merr {
            vcore::machinery_error(&e);
        }
        cov.merge(ta.cov);
        viol.extend(ta.viol);
        for (k, v) in ta.rejected {
            *rejected.entry(k).or_insert(0) += v;
        }
        complete &= c;
    }
    cov.sample(json!({"table":"num","filter":"(f32 = 16777217)","knobs":"all single deviations"}));
    cov.sample(json!({"table":"txt","filter":"(NOT (s >= 'a'))","knobs":"all single deviations"}));
    cov.sample(json!({"table":"st","query":"filter (st.x = 1) project [st.x] limit 1 offset 1 order k desc nulls first, batch_size=1"}));
    cov.sample(json!({"seam":"safe_coerce_scalar(Int64(16777217), Float32)"}));
    cov.fill(
        &mut out,
        "(a) every filter of the grammar on 3 typed tables at default knobs and at each of 13 single-knob deviations; (b) reduced filters x projections x {_rowid} x limit/offset in {-,0,1,2,n,n+1}^2 x order_by x knob subset; (c) safe_coerce_scalar over integer/float/timestamp boundary values x target types. non-trivial = some but not all live rows expected / a representable-or-not decision",
        complete,
    );
    out.set("filters", n_filters as u64);
    out.set("knob_settings_per_filter", (knobs.len() + 1) as u64);
    out.set("queries_projection_limit_order", n_queries as u64);
    out.set("rejected_under_all_knobs_not_judged", json!(rejected));
    if !complete {
        out.set("cap_hit", "wall budget");
    }
    out.assume("reference = harness 3VL evaluator; floats by Arrow total order; literals coerced to the column type by a harness-side rule (f32 column: nearest f32; integer column vs out-of-range or fractional literal: numeric comparison)");
    out.assume("rows compared in order (the scanner is ordered by default) except under scan_in_order=false; order_by ties may come in any order");
    out.violations = viol;
    out
}
