//! Query-side helpers for C16/C19/C20/C29: typed SQL literals, predicate rewriting, scans with knobs.

use crate::common::*;
use arrow_array::RecordBatch;
use arrow_schema::{DataType, TimeUnit};
use futures::TryStreamExt;
use lance::dataset::scanner::{MaterializationStyle, Scanner};
use lance::Dataset;
use serde::{Deserialize, Serialize};
use vds::cells::{self, Cell};
use vds::pred::{lit_sql, Expr, Pred};

/// SQL text of a model cell as a literal of column type `dt`.
pub fn typed_lit_sql(c: &Cell, dt: &DataType) -> String {
    match (c, dt) {
        (Cell::Null, _) => "NULL".into(),
        (Cell::I(d), DataType::Date32) => {
            let date = chrono::NaiveDate::from_ymd_opt(1970, 1, 1).unwrap() + chrono::Duration::days(*d);
            format!("DATE '{}'", date.format("%Y-%m-%d"))
        }
        (Cell::I(us), DataType::Timestamp(TimeUnit::Microsecond, None)) => {
            let secs = us.div_euclid(1_000_000);
            let micros = us.rem_euclid(1_000_000);
            let dt = chrono::DateTime::from_timestamp(secs, (micros * 1000) as u32).unwrap().naive_utc();
            format!("TIMESTAMP '{}'", dt.format("%Y-%m-%d %H:%M:%S%.6f"))
        }
        (c, _) => lit_sql(c),
    }
}

fn map_expr(e: &Expr, f: &dyn Fn(&Cell) -> Cell) -> Expr {
    match e {
        Expr::Col(c) => Expr::Col(c.clone()),
        Expr::Lit(v) => Expr::Lit(f(v)),
        Expr::Add(a, b) => Expr::Add(Box::new(map_expr(a, f)), Box::new(map_expr(b, f))),
        Expr::Concat(a, b) => Expr::Concat(Box::new(map_expr(a, f)), Box::new(map_expr(b, f))),
    }
}

/// Rewrite every literal of the predicate that is compared with column `colname` (other literals are
/// left alone).
pub fn map_lits(p: &Pred, colname: &str, f: &dyn Fn(&Cell) -> Cell) -> Pred {
    let on_col = |e: &Expr| matches!(e, Expr::Col(c) if c == colname);
    match p {
        Pred::True | Pred::False | Pred::BoolCol(_) => p.clone(),
        Pred::Cmp(a, op, b) => {
            if on_col(a) {
                Pred::Cmp(a.clone(), *op, map_expr(b, f))
            } else if on_col(b) {
                Pred::Cmp(map_expr(a, f), *op, b.clone())
            } else {
                p.clone()
            }
        }
        Pred::IsNull(_) | Pred::IsNotNull(_) => p.clone(),
        Pred::In(e, l) => {
            if on_col(e) {
                Pred::In(e.clone(), l.iter().map(f).collect())
            } else {
                p.clone()
            }
        }
        Pred::Between(e, lo, hi) => {
            if on_col(e) {
                Pred::Between(e.clone(), f(lo), f(hi))
            } else {
                p.clone()
            }
        }
        Pred::Not(q) => Pred::Not(Box::new(map_lits(q, colname, f))),
        Pred::And(a, b) => Pred::And(Box::new(map_lits(a, colname, f)), Box::new(map_lits(b, colname, f))),
        Pred::Or(a, b) => Pred::Or(Box::new(map_lits(a, colname, f)), Box::new(map_lits(b, colname, f))),
        Pred::IsTrue(q) => Pred::IsTrue(Box::new(map_lits(q, colname, f))),
        Pred::IsFalse(q) => Pred::IsFalse(Box::new(map_lits(q, colname, f))),
    }
}

/// SQL of a predicate whose literals on `colname` are model cells of type `dt`.
pub fn typed_sql(p: &Pred, colname: &str, dt: &DataType) -> String {
    map_lits(p, colname, &|c| Cell::Big(typed_lit_sql(c, dt))).sql()
}

/// coarse structural shape of a predicate (classification keys)
pub fn pred_shape(p: &Pred) -> String {
    match p {
        Pred::True | Pred::False => "const".into(),
        Pred::Cmp(_, op, _) => format!("{op:?}").to_lowercase(),
        Pred::IsNull(_) => "isnull".into(),
        Pred::IsNotNull(_) => "isnotnull".into(),
        Pred::In(_, l) => if l.iter().any(|c| c.is_null()) { "in-null".into() } else { "in".into() },
        Pred::Between(..) => "between".into(),
        Pred::Not(q) => format!("not({})", pred_shape(q)),
        Pred::And(a, b) => format!("and({},{})", pred_shape(a), pred_shape(b)),
        Pred::Or(a, b) => format!("or({},{})", pred_shape(a), pred_shape(b)),
        Pred::IsTrue(q) => format!("istrue({})", pred_shape(q)),
        Pred::IsFalse(q) => format!("isfalse({})", pred_shape(q)),
        Pred::BoolCol(_) => "boolcol".into(),
    }
}

/// Scanner knobs (C16); `None` = leave the default.
#[derive(Clone, Debug, Default, Serialize, Deserialize, PartialEq)]
pub struct Knobs {
    pub batch_size: Option<usize>,
    pub batch_readahead: Option<usize>,
    pub fragment_readahead: Option<usize>,
    /// "early" | "late"
    pub materialization: Option<String>,
    pub use_stats: Option<bool>,
    pub use_scalar_index: Option<bool>,
    pub prefilter: Option<bool>,
    pub strict_batch_size: Option<bool>,
    pub io_buffer_size: Option<u64>,
    pub scan_in_order: Option<bool>,
}

impl Knobs {
    pub fn apply(&self, sc: &mut Scanner) {
        if let Some(v) = self.batch_size {
            sc.batch_size(v);
        }
        if let Some(v) = self.batch_readahead {
            sc.batch_readahead(v);
        }
        if let Some(v) = self.fragment_readahead {
            sc.fragment_readahead(v);
        }
        if let Some(v) = &self.materialization {
            sc.materialization_style(if v == "early" { MaterializationStyle::AllEarly } else { MaterializationStyle::AllLate });
        }
        if let Some(v) = self.use_stats {
            sc.use_stats(v);
        }
        if let Some(v) = self.use_scalar_index {
            sc.use_scalar_index(v);
        }
        if let Some(v) = self.prefilter {
            sc.prefilter(v);
        }
        if let Some(v) = self.strict_batch_size {
            sc.strict_batch_size(v);
        }
        if let Some(v) = self.io_buffer_size {
            sc.io_buffer_size(v);
        }
        if let Some(v) = self.scan_in_order {
            sc.scan_in_order(v);
        }
    }
    pub fn label(&self) -> String {
        let mut v = vec![];
        if let Some(x) = self.batch_size {
            v.push(format!("batch_size={x}"));
        }
        if let Some(x) = self.batch_readahead {
            v.push(format!("batch_readahead={x}"));
        }
        if let Some(x) = self.fragment_readahead {
            v.push(format!("fragment_readahead={x}"));
        }
        if let Some(x) = &self.materialization {
            v.push(format!("materialization={x}"));
        }
        if let Some(x) = self.use_stats {
            v.push(format!("use_stats={x}"));
        }
        if let Some(x) = self.use_scalar_index {
            v.push(format!("use_scalar_index={x}"));
        }
        if let Some(x) = self.prefilter {
            v.push(format!("prefilter={x}"));
        }
        if let Some(x) = self.strict_batch_size {
            v.push(format!("strict_batch_size={x}"));
        }
        if let Some(x) = self.io_buffer_size {
            v.push(format!("io_buffer_size={x}"));
        }
        if let Some(x) = self.scan_in_order {
            v.push(format!("scan_in_order={x}"));
        }
        if v.is_empty() {
            "default".into()
        } else {
            v.join(",")
        }
    }
    /// name of the (single) deviating knob
    pub fn knob_name(&self) -> String {
        self.label().split('=').next().unwrap_or("default").to_string()
    }
}

/// Filtered scan projected on `cols` (None = all); Err(message) for a Lance error.
pub async fn scan_rows(ds: &Dataset, filter: Option<&str>, cols: Option<&[&str]>, knobs: &Knobs) -> Result<Vec<Row>, String> {
    let mut sc = ds.scan();
    if let Some(c) = cols {
        sc.project(c).map_err(|e| format!("project: {e}"))?;
    }
    if let Some(f) = filter {
        sc.filter(f).map_err(|e| format!("filter: {e}"))?;
    }
    knobs.apply(&mut sc);
    let batches: Vec<RecordBatch> = tokio::time::timeout(std::time::Duration::from_secs(30), async {
        let st = sc.try_into_stream().await.map_err(|e| format!("plan: {e}"))?;
        st.try_collect().await.map_err(|e| format!("exec: {e}"))
    })
    .await
    .map_err(|_| "timeout: the scan did not finish within 30 s".to_string())??;
    Ok(cells::batches_rows(&batches))
}

/// Sorted uids of the rows matching `filter`.
pub async fn scan_uids(ds: &Dataset, filter: &str, knobs: &Knobs) -> Result<Vec<i64>, String> {
    let rows = scan_rows(ds, Some(filter), Some(&["uid"]), knobs).await?;
    let mut v: Vec<i64> = rows.iter().map(|r| r[0].as_i64().unwrap_or(i64::MIN)).collect();
    v.sort();
    Ok(v)
}

/// error text reduced to a stable class (first words)
pub fn err_shape(e: &str) -> String {
    e.split(|c: char| !c.is_ascii_alphabetic())
        .filter(|w| !w.is_empty())
        .take(9)
        .collect::<Vec<_>>()
        .join("-")
        .to_lowercase()
}
