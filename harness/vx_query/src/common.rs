//! Helpers shared by the vx_query checks: small typed tables built from `Cell`s, scanning with
//! knobs, model-side row access. The reference evaluator itself is `vds::pred` (Kleene 3VL, no
//! DataFusion).

use arrow_array::*;
use arrow_schema::{DataType, Field, Fields, Schema as ArrowSchema, TimeUnit};
use futures::TryStreamExt;
use lance::dataset::{WriteMode, WriteParams};
use lance::Dataset;
use lance_file::version::LanceFileVersion;
use serde_json::{json, Value};
use std::sync::Arc;
use vds::cells::{self, Cell};
use vds::{Env, LResult};

pub type Row = Vec<Cell>;

/// A small typed table: schema + fragments (each a list of rows).
#[derive(Clone, Debug)]
pub struct Tbl {
    pub cols: Vec<(String, DataType)>,
    pub frags: Vec<Vec<Row>>,
}

impl Tbl {
    pub fn rows(&self) -> Vec<Row> {
        self.frags.iter().flatten().cloned().collect()
    }
    pub fn col_names(&self) -> Vec<String> {
        self.cols.iter().map(|c| c.0.clone()).collect()
    }
    pub fn schema(&self) -> ArrowSchema {
        schema_of(&self.cols)
    }
    pub fn json(&self) -> Value {
        json!({"cols": self.cols.iter().map(|(n,t)| format!("{n}:{t}")).collect::<Vec<_>>(), "frags": self.frags})
    }
}

pub fn schema_of(cols: &[(String, DataType)]) -> ArrowSchema {
    ArrowSchema::new(
        cols.iter()
            .map(|(n, t)| Field::new(n, t.clone(), n != "uid"))
            .collect::<Vec<_>>(),
    )
}

fn f64_of(c: &Cell) -> Option<f64> {
    match c {
        Cell::Null => None,
        other => other.as_f64(),
    }
}
fn i64_of(c: &Cell) -> Option<i64> {
    match c {
        Cell::Null => None,
        other => Some(other.as_i64().unwrap_or_else(|| panic!("not an integer cell: {other:?}"))),
    }
}
fn u64_of(c: &Cell) -> Option<u64> {
    match c {
        Cell::Null => None,
        Cell::U(u) => Some(*u),
        Cell::I(i) => Some(*i as u64),
        other => panic!("not an integer cell: {other:?}"),
    }
}

/// Build an Arrow array of type `dt` from cells (harness-side construction, no casts through Arrow
/// compute kernels so that what is stored is exactly what the model holds).
pub fn cells_to_array(cells: &[Cell], dt: &DataType) -> ArrayRef {
    macro_rules! ints {
        ($arr:ty, $t:ty) => {
            Arc::new(<$arr>::from(
                cells.iter().map(|c| i64_of(c).map(|v| v as $t)).collect::<Vec<_>>(),
            )) as ArrayRef
        };
    }
    macro_rules! uints {
        ($arr:ty, $t:ty) => {
            Arc::new(<$arr>::from(
                cells.iter().map(|c| u64_of(c).map(|v| v as $t)).collect::<Vec<_>>(),
            )) as ArrayRef
        };
    }
    match dt {
        DataType::Boolean => Arc::new(BooleanArray::from(
            cells
                .iter()
                .map(|c| match c {
                    Cell::Null => None,
                    Cell::Bool(b) => Some(*b),
                    o => panic!("not bool {o:?}"),
                })
                .collect::<Vec<_>>(),
        )),
        DataType::Int8 => ints!(Int8Array, i8),
        DataType::Int16 => ints!(Int16Array, i16),
        DataType::Int32 => ints!(Int32Array, i32),
        DataType::Int64 => ints!(Int64Array, i64),
        DataType::UInt8 => uints!(UInt8Array, u8),
        DataType::UInt16 => uints!(UInt16Array, u16),
        DataType::UInt32 => uints!(UInt32Array, u32),
        DataType::UInt64 => uints!(UInt64Array, u64),
        DataType::Float32 => Arc::new(Float32Array::from(
            cells.iter().map(|c| f64_of(c).map(|v| v as f32)).collect::<Vec<_>>(),
        )),
        DataType::Float64 => Arc::new(Float64Array::from(
            cells.iter().map(f64_of).collect::<Vec<_>>(),
        )),
        DataType::Date32 => ints!(Date32Array, i32),
        DataType::Timestamp(TimeUnit::Microsecond, None) => ints!(TimestampMicrosecondArray, i64),
        DataType::Timestamp(TimeUnit::Millisecond, None) => ints!(TimestampMillisecondArray, i64),
        DataType::Timestamp(TimeUnit::Second, None) => ints!(TimestampSecondArray, i64),
        DataType::Timestamp(TimeUnit::Nanosecond, None) => ints!(TimestampNanosecondArray, i64),
        DataType::Utf8 => Arc::new(StringArray::from(
            cells
                .iter()
                .map(|c| match c {
                    Cell::Null => None,
                    Cell::S(s) => Some(s.clone()),
                    o => panic!("not string {o:?}"),
                })
                .collect::<Vec<_>>(),
        )),
        DataType::LargeUtf8 => Arc::new(LargeStringArray::from(
            cells
                .iter()
                .map(|c| match c {
                    Cell::Null => None,
                    Cell::S(s) => Some(s.clone()),
                    o => panic!("not string {o:?}"),
                })
                .collect::<Vec<_>>(),
        )),
        DataType::List(f) if f.data_type() == &DataType::Utf8 => {
            let mut b = builder::ListBuilder::new(builder::StringBuilder::new()).with_field(f.clone());
            for c in cells {
                match c {
                    Cell::Null => b.append(false),
                    Cell::L(items) => {
                        for it in items {
                            match it {
                                Cell::Null => b.values().append_null(),
                                Cell::S(s) => b.values().append_value(s),
                                o => panic!("not string {o:?}"),
                            }
                        }
                        b.append(true)
                    }
                    o => panic!("not list {o:?}"),
                }
            }
            Arc::new(b.finish())
        }
        DataType::Struct(fields) => {
            let mut children = vec![];
            for (j, f) in fields.iter().enumerate() {
                let sub: Vec<Cell> = cells
                    .iter()
                    .map(|c| match c {
                        Cell::Null => Cell::Null,
                        Cell::St(kv) => kv[j].1.clone(),
                        o => panic!("not struct {o:?}"),
                    })
                    .collect();
                children.push(cells_to_array(&sub, f.data_type()));
            }
            let nulls: Vec<bool> = cells.iter().map(|c| !c.is_null()).collect();
            let nb = if nulls.iter().all(|x| *x) {
                None
            } else {
                Some(arrow_buffer::NullBuffer::from(nulls))
            };
            Arc::new(StructArray::new(fields.clone(), children, nb))
        }
        other => panic!("cells_to_array: unsupported type {other}"),
    }
}

pub fn make_batch(cols: &[(String, DataType)], rows: &[Row]) -> RecordBatch {
    let schema = Arc::new(schema_of(cols));
    let arrays: Vec<ArrayRef> = cols
        .iter()
        .enumerate()
        .map(|(j, (_, t))| {
            let col: Vec<Cell> = rows.iter().map(|r| r[j].clone()).collect();
            cells_to_array(&col, t)
        })
        .collect();
    RecordBatch::try_new(schema, arrays).unwrap()
}

#[derive(Clone, Debug, Default)]
pub struct TOpts {
    pub stable_row_ids: bool,
    pub storage_version: Option<LanceFileVersion>,
    pub max_rows_per_group: Option<usize>,
}

/// Create the table: one write (create / append) per fragment => one fragment each.
pub async fn create_tbl(env: &Env, uri: &str, t: &Tbl, o: &TOpts) -> LResult<Dataset> {
    let mut ds = None;
    let frags: Vec<Vec<Row>> = if t.frags.is_empty() { vec![vec![]] } else { t.frags.clone() };
    for (i, rows) in frags.iter().enumerate() {
        let mut p: WriteParams = env.write_params(if i == 0 { WriteMode::Create } else { WriteMode::Append });
        p.enable_stable_row_ids = o.stable_row_ids;
        p.data_storage_version = o.storage_version;
        if let Some(g) = o.max_rows_per_group {
            p.max_rows_per_group = g;
        }
        ds = Some(env.write(uri, vec![make_batch(&t.cols, rows)], p).await?);
    }
    Ok(ds.unwrap())
}

pub async fn append_rows(env: &Env, uri: &str, cols: &[(String, DataType)], rows: &[Row]) -> LResult<Dataset> {
    let p = env.write_params(WriteMode::Append);
    env.write(uri, vec![make_batch(cols, rows)], p).await
}

/// model-side row accessor by column name (supports `s.x` for struct fields)
pub fn row_get(cols: &[String], row: &[Cell], name: &str) -> Cell {
    if let Some(i) = cols.iter().position(|c| c == name) {
        return row[i].clone();
    }
    if let Some((a, b)) = name.split_once('.') {
        if let Some(i) = cols.iter().position(|c| c == a) {
            return match &row[i] {
                Cell::St(kv) => kv.iter().find(|(k, _)| k == b).map(|(_, v)| v.clone()).unwrap_or(Cell::Null),
                _ => Cell::Null,
            };
        }
    }
    Cell::Big(format!("<no column {name}>"))
}

/// Unordered full scan as (column names, rows).
pub async fn scan_all(ds: &Dataset) -> LResult<Vec<Row>> {
    let sc = ds.scan();
    let batches: Vec<RecordBatch> = sc.try_into_stream().await?.try_collect().await?;
    Ok(cells::batches_rows(&batches))
}

pub fn bag(rows: Vec<Row>) -> Vec<Row> {
    cells::bag(rows)
}

pub fn struct_fields(fs: Vec<(&str, DataType)>) -> Fields {
    Fields::from(fs.into_iter().map(|(n, t)| Field::new(n, t, true)).collect::<Vec<_>>())
}

/// short rendering of rows for messages
pub fn show(rows: &[Row]) -> String {
    fn c(x: &Cell) -> String {
        match x {
            Cell::Null => "NULL".into(),
            Cell::Bool(b) => b.to_string(),
            Cell::I(i) => i.to_string(),
            Cell::U(u) => u.to_string(),
            Cell::F(b) => format!("{:?}", f64::from_bits(*b)),
            Cell::S(s) => format!("{s:?}"),
            Cell::L(l) => format!("[{}]", l.iter().map(c).collect::<Vec<_>>().join(",")),
            Cell::St(kv) => format!("{{{}}}", kv.iter().map(|(k, v)| format!("{k}:{}", c(v))).collect::<Vec<_>>().join(",")),
            o => format!("{o:?}"),
        }
    }
    let mut s = String::from("[");
    for (i, r) in rows.iter().enumerate() {
        if i > 0 {
            s.push(' ');
        }
        s.push('(');
        s.push_str(&r.iter().map(c).collect::<Vec<_>>().join(","));
        s.push(')');
        if s.len() > 600 {
            s.push_str(" ...");
            break;
        }
    }
    s.push(']');
    s
}

/// A wall-clock budget for an enumeration.
pub struct Budget {
    start: std::time::Instant,
    secs: f64,
}
impl Budget {
    pub fn new(secs: f64) -> Self {
        Self { start: std::time::Instant::now(), secs }
    }
    pub fn over(&self) -> bool {
        self.start.elapsed().as_secs_f64() > self.secs
    }
}

/// Create a scalar index of `kind` ("btree","bitmap","labellist","zonemap","bloomfilter","ngram") on `col`.
pub async fn create_scalar_index(ds: &mut Dataset, col: &str, kind: &str, params: Option<String>) -> LResult<()> {
    use lance_index::scalar::ScalarIndexParams;
    use lance_index::{DatasetIndexExt, IndexType};
    let it = match kind {
        "btree" => IndexType::BTree,
        "bitmap" => IndexType::Bitmap,
        "labellist" => IndexType::LabelList,
        "zonemap" => IndexType::ZoneMap,
        "bloomfilter" => IndexType::BloomFilter,
        "ngram" => IndexType::NGram,
        other => panic!("unknown index kind {other}"),
    };
    let mut p = ScalarIndexParams::new(kind.to_string());
    p.params = params;
    ds.create_index(&[col], it, Some(format!("{col}_{kind}")), &p, true).await
}
