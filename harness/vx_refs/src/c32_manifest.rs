//! C32 section: `Manifest` through the real manifest file writer / reader on a MemStore
//! (`write_manifest_file_to_path` = `write_manifest` + magics, `read_manifest`,
//! `read_manifest_indexes`, inline transaction via `read_message`).
//!
//! Scope (deviation-bounded, exhaustive): a base manifest and, for 19 independent components
//! (17 manifest fields + the index section + the inline transaction), a small domain of alternative
//! values; every manifest that differs from the base in at most 2 components (quick) / 3 components
//! (thorough) is written and read back.

use crate::c32::{short, CaseOut, Sec};
use crate::c32_fmt::{frag_pool, frags_equal, index_pool, indices_equal};
use crate::c32_txn::{all_ops, basepath_pool, cmp_txn, schema_pool};
use lance::dataset::transaction::{Operation, Transaction};
use lance_io::object_store::{ObjectStore, ObjectStoreRegistry};
use lance_io::utils::read_message;
use lance_table::format::{pb, BasePath, DataStorageFormat, Fragment, IndexMetadata, Manifest, WriterVersion};
use lance_table::io::commit::{write_manifest_file_to_path, ManifestLocation, ManifestNamingScheme};
use lance_table::io::manifest::{read_manifest, read_manifest_indexes};
use object_store::path::Path;
use std::collections::HashMap;
use std::sync::Arc;

#[derive(Clone)]
struct Parts {
    m: Manifest,
    indices: Option<Vec<IndexMetadata>>,
    txn: Option<Transaction>,
}

fn smap(kv: &[(&str, &str)]) -> HashMap<String, String> {
    kv.iter().map(|(k, v)| (k.to_string(), v.to_string())).collect()
}

fn base() -> Parts {
    let sp = schema_pool();
    let mut m = Manifest::new(sp[1].clone(), Arc::new(vec![]), DataStorageFormat::default(), HashMap::new());
    m.version = 1;
    Parts { m, indices: None, txn: None }
}

type Dev = Box<dyn Fn(&mut Parts) + Send + Sync>;

/// (component name, alternatives)
fn components() -> Vec<(&'static str, Vec<Dev>)> {
    let sp = schema_pool();
    let fp = frag_pool();
    let ip = index_pool();
    let bp = basepath_pool();
    let mut c: Vec<(&'static str, Vec<Dev>)> = vec![];
    let (s0, s2) = (sp[0].clone(), sp[2].clone());
    c.push(("schema", vec![Box::new(move |p| p.m.schema = s0.clone()), Box::new(move |p| p.m.schema = s2.clone())]));
    c.push((
        "version",
        vec![Box::new(|p| p.m.version = u64::MAX >> 1), Box::new(|p| p.m.version = (1 << 63) | 5), Box::new(|p| p.m.version = u64::MAX)],
    ));
    c.push(("branch", vec![Box::new(|p| p.m.branch = Some("a/b".into())), Box::new(|p| p.m.branch = Some("".into()))]));
    c.push((
        "writer_version",
        vec![
            Box::new(|p| p.m.writer_version = None),
            Box::new(|p| p.m.writer_version = Some(WriterVersion { library: "".into(), version: "".into(), prerelease: None, build_metadata: None })),
            Box::new(|p| {
                p.m.writer_version =
                    Some(WriterVersion { library: "lance".into(), version: "1.2.3".into(), prerelease: Some("beta.1".into()), build_metadata: Some("".into()) })
            }),
        ],
    ));
    let (f1, f01) = (vec![fp[1].clone()], vec![fp[0].clone(), fp[1].clone(), fp[2].clone()]);
    c.push((
        "fragments",
        vec![Box::new(move |p| p.m.fragments = Arc::new(f1.clone())), Box::new(move |p| p.m.fragments = Arc::new(f01.clone()))],
    ));
    c.push((
        "timestamp_nanos",
        vec![
            Box::new(|p| p.m.timestamp_nanos = 1),
            Box::new(|p| p.m.timestamp_nanos = 1_700_000_000_123_456_789),
            Box::new(|p| p.m.timestamp_nanos = 999_999_999),
            Box::new(|p| p.m.timestamp_nanos = 253_402_300_799u128 * 1_000_000_000 + 999_999_999),
        ],
    ));
    c.push(("tag", vec![Box::new(|p| p.m.tag = Some("t".into())), Box::new(|p| p.m.tag = Some("".into()))]));
    c.push((
        "reader_feature_flags",
        vec![
            Box::new(|p| p.m.reader_feature_flags = 1 | 8 | 16),
            Box::new(|p| p.m.reader_feature_flags = 2),
            Box::new(|p| p.m.reader_feature_flags = 64),
            Box::new(|p| p.m.reader_feature_flags = u64::MAX ^ 2),
        ],
    ));
    c.push(("writer_feature_flags", vec![Box::new(|p| p.m.writer_feature_flags = 2 | 4), Box::new(|p| p.m.writer_feature_flags = u64::MAX)]));
    c.push(("max_fragment_id", vec![Box::new(|p| p.m.max_fragment_id = Some(0)), Box::new(|p| p.m.max_fragment_id = Some(u32::MAX))]));
    c.push((
        "transaction_file",
        vec![Box::new(|p| p.m.transaction_file = Some("1-6b0ae5c8.txn".into())), Box::new(|p| p.m.transaction_file = Some("".into()))],
    ));
    c.push(("next_row_id", vec![Box::new(|p| p.m.next_row_id = 1), Box::new(|p| p.m.next_row_id = u64::MAX)]));
    c.push((
        "data_storage_format",
        vec![
            Box::new(|p| p.m.data_storage_format = DataStorageFormat { file_format: "lance".into(), version: "0.1".into() }),
            Box::new(|p| p.m.data_storage_format = DataStorageFormat { file_format: "lance".into(), version: "2.1".into() }),
            Box::new(|p| p.m.data_storage_format = DataStorageFormat { file_format: "".into(), version: "".into() }),
        ],
    ));
    c.push((
        "config",
        vec![Box::new(|p| p.m.config = smap(&[("a", "1")])), Box::new(|p| p.m.config = smap(&[("a", "1"), ("lance.auto_cleanup.interval", ""), ("ü", "ü")]))],
    ));
    c.push((
        "table_metadata",
        vec![Box::new(|p| p.m.table_metadata = smap(&[("a", "1")])), Box::new(|p| p.m.table_metadata = smap(&[("a", ""), ("b", "2")]))],
    ));
    let (b1, b02) = (bp[1].clone(), vec![bp[0].clone(), bp[2].clone()]);
    c.push((
        "base_paths",
        vec![
            Box::new(move |p| p.m.base_paths = [(b1.id, b1.clone())].into_iter().collect()),
            Box::new(move |p| p.m.base_paths = b02.iter().map(|b: &BasePath| (b.id, b.clone())).collect()),
        ],
    ));
    c.push(("version_aux_data", vec![Box::new(|p| p.m.version_aux_data = 7)]));
    let (i0, i10) = (vec![ip[0].clone()], vec![ip[1].clone(), ip[0].clone()]);
    c.push((
        "index_section",
        vec![
            Box::new(|p| p.indices = Some(vec![])),
            Box::new(move |p| p.indices = Some(i0.clone())),
            Box::new(move |p| p.indices = Some(i10.clone())),
        ],
    ));
    // inline transactions: a small one and the largest enumerated CreateIndex / Update (the conversions of every
    // operation are the subject of the txn-op section; here the subject is the section mechanics)
    let ops = all_ops();
    let big_index = ops.iter().filter(|o| matches!(o, Operation::CreateIndex { .. })).next_back().cloned().unwrap();
    let big_update = ops.iter().filter(|o| matches!(o, Operation::Update { .. })).next_back().cloned().unwrap();
    let mk = |op: Operation| Transaction { read_version: 3, uuid: "6b0ae5c8-1b9a-4e5c-9c0e-0d8f6a3b2c1d".into(), operation: op, tag: Some("t".into()), transaction_properties: None };
    let (t0, t1, t2) = (mk(Operation::Restore { version: 2 }), mk(big_index), mk(big_update));
    c.push((
        "inline_transaction",
        vec![Box::new(move |p| p.txn = Some(t0.clone())), Box::new(move |p| p.txn = Some(t1.clone())), Box::new(move |p| p.txn = Some(t2.clone()))],
    ));
    c
}

/// FLAG_STABLE_ROW_IDS requires every fragment to carry row id metadata (enforced by the decoder)
fn well_formed(p: &Parts) -> bool {
    p.m.reader_feature_flags & 2 == 0 || p.m.fragments.iter().all(|f: &Fragment| f.row_id_meta.is_some())
}

fn cmp_manifest(o: &mut CaseOut, a: &Manifest, b: &Manifest) {
    if a.schema.fields != b.schema.fields {
        o.diff("schema.fields", format!("schema.fields: encoded {} decoded {}", short(&a.schema.fields), short(&b.schema.fields)));
    }
    o.eq("schema.metadata", &a.schema.metadata, &b.schema.metadata);
    o.eq("version", &a.version, &b.version);
    o.eq("branch", &a.branch, &b.branch);
    o.eq("writer_version", &a.writer_version, &b.writer_version);
    let mut norms = vec![];
    if !frags_equal(&a.fragments, &b.fragments, &mut norms) {
        o.diff("fragments", format!("fragments: encoded {} decoded {}", short(&a.fragments), short(&b.fragments)));
    }
    for n in norms {
        o.norm(&n);
    }
    o.eq("version_aux_data", &a.version_aux_data, &b.version_aux_data);
    o.eq("index_section", &a.index_section, &b.index_section);
    o.eq("timestamp_nanos", &a.timestamp_nanos, &b.timestamp_nanos);
    o.eq_opt_empty("tag", &a.tag, &b.tag, |s| s.is_empty());
    o.eq("reader_feature_flags", &a.reader_feature_flags, &b.reader_feature_flags);
    o.eq("writer_feature_flags", &a.writer_feature_flags, &b.writer_feature_flags);
    o.eq("max_fragment_id", &a.max_fragment_id, &b.max_fragment_id);
    o.eq_opt_empty("transaction_file", &a.transaction_file, &b.transaction_file, |s| s.is_empty());
    o.eq("transaction_section", &a.transaction_section, &b.transaction_section);
    o.eq("next_row_id", &a.next_row_id, &b.next_row_id);
    o.eq("data_storage_format", &a.data_storage_format, &b.data_storage_format);
    o.eq("config", &a.config, &b.config);
    o.eq("table_metadata", &a.table_metadata, &b.table_metadata);
    o.eq("base_paths", &a.base_paths, &b.base_paths);
    // anything the field list above does not see (private fragment_offsets)
    if o.diffs.is_empty() && o.norms.is_empty() && a != b {
        o.diff("partial-eq", "Manifest PartialEq differs although every public field is equal".to_string());
    }
}

pub fn manifest(s: &mut Sec, thorough: bool) {
    let env = vds::Env::new();
    let (os, root): (Arc<ObjectStore>, Path) = vds::block_on(ObjectStore::from_uri_and_params(
        Arc::new(ObjectStoreRegistry::default()),
        "memory://c32manifest",
        &env.store_params(),
    ))
    .expect("object store over MemStore");
    let comps = components();
    // deviation sets: all subsets of components of size <= bound, with every choice of alternative
    let bound = if thorough { 3 } else { 2 };
    let mut devsets: Vec<Vec<(usize, usize)>> = vec![vec![]];
    fn rec(comps: &[(&'static str, Vec<Dev>)], from: usize, cur: &mut Vec<(usize, usize)>, bound: usize, out: &mut Vec<Vec<(usize, usize)>>) {
        if cur.len() == bound {
            return;
        }
        for ci in from..comps.len() {
            for ai in 0..comps[ci].1.len() {
                cur.push((ci, ai));
                out.push(cur.clone());
                rec(comps, ci + 1, cur, bound, out);
                cur.pop();
            }
        }
    }
    rec(&comps, 0, &mut vec![], bound, &mut devsets);
    let mut n = 0u64;
    for ds in devsets {
        let mut p = base();
        for (ci, ai) in &ds {
            (comps[*ci].1[*ai])(&mut p);
        }
        let label = ds.iter().map(|(ci, ai)| format!("{}#{}", comps[*ci].0, ai)).collect::<Vec<_>>().join("+");
        if !well_formed(&p) {
            s.cov.outcome("manifest:skipped-ill-formed(stable-row-id flag without row ids)");
            continue;
        }
        n += 1;
        let path = root.child(format!("{n}.manifest"));
        let store = env.store.clone();
        let os = os.clone();
        s.case(
            || format!("base+[{label}]"),
            || {
                vds::block_on(async {
                    // `fragment_offsets` is private and derived from the fragments: build through the
                    // constructor, then copy the public fields
                    let mut m = Manifest::new(p.m.schema.clone(), p.m.fragments.clone(), p.m.data_storage_format.clone(), p.m.base_paths.clone());
                    m.version = p.m.version;
                    m.branch = p.m.branch.clone();
                    m.writer_version = p.m.writer_version.clone();
                    m.version_aux_data = p.m.version_aux_data;
                    m.timestamp_nanos = p.m.timestamp_nanos;
                    m.tag = p.m.tag.clone();
                    m.reader_feature_flags = p.m.reader_feature_flags;
                    m.writer_feature_flags = p.m.writer_feature_flags;
                    m.max_fragment_id = p.m.max_fragment_id;
                    m.transaction_file = p.m.transaction_file.clone();
                    m.next_row_id = p.m.next_row_id;
                    m.config = p.m.config.clone();
                    m.table_metadata = p.m.table_metadata.clone();
                    let want_indices = p.indices.clone();
                    let tx_tbl = p.txn.as_ref().map(lance_table::format::Transaction::from);
                    if let Err(e) = write_manifest_file_to_path(&os, &mut m, want_indices.clone(), &path, tx_tbl).await {
                        let mut o = CaseOut::new(vec![1]);
                        o.diff("write-error", format!("write_manifest failed for base+[{label}]: {e}"));
                        return o;
                    }
                    let content = store.read(path.as_ref()).map(|b| b.to_vec()).unwrap_or_default();
                    let mut o = CaseOut::new(content.clone());
                    let m2 = match read_manifest(&os, &path, None).await {
                        Ok(m2) => m2,
                        Err(e) => {
                            o.diff("decode-error", format!("read_manifest failed for base+[{label}]: {e}"));
                            return o;
                        }
                    };
                    cmp_manifest(&mut o, &m, &m2);
                    // with the size known (the normal open path)
                    match read_manifest(&os, &path, Some(content.len() as u64)).await {
                        Ok(m3) => {
                            if m3 != m2 {
                                o.diff("known-size", "read_manifest with known size decodes a different manifest".to_string());
                            }
                        }
                        Err(e) => o.diff("known-size", format!("read_manifest with known size failed: {e}")),
                    }
                    let loc = ManifestLocation { version: m.version, path: path.clone(), size: None, naming_scheme: ManifestNamingScheme::V2, e_tag: None };
                    match read_manifest_indexes(&os, &loc, &m2).await {
                        Ok(ix) => {
                            let want = want_indices.unwrap_or_default();
                            if !indices_equal(&want, &ix) {
                                o.diff("index_section.content", format!("indices: encoded {} decoded {}", short(&want), short(&ix)));
                            }
                        }
                        Err(e) => o.diff("index_section.decode-error", format!("read_manifest_indexes failed: {e}")),
                    }
                    match (&p.txn, m2.transaction_section) {
                        (None, None) => {}
                        (Some(t), Some(pos)) => {
                            let r = async {
                                let reader = os.open(&path).await.map_err(|e| e.to_string())?;
                                let tx: pb::Transaction = read_message(reader.as_ref(), pos).await.map_err(|e| e.to_string())?;
                                Transaction::try_from(tx).map_err(|e| e.to_string())
                            }
                            .await;
                            match r {
                                Ok(t2) => {
                                    let mut t_out = CaseOut::new(vec![]);
                                    cmp_txn(&mut t_out, t, &t2);
                                    for (k, w) in t_out.diffs {
                                        o.diff(&format!("inline_transaction/{k}"), w);
                                    }
                                }
                                Err(e) => o.diff("inline_transaction/decode-error", format!("inline transaction unreadable: {e}")),
                            }
                        }
                        (a, b) => o.diff("transaction_section", format!("inline transaction given={} section={:?}", a.is_some(), b)),
                    }
                    o
                })
            },
        );
        env.store.remove_raw(path.as_ref());
    }
}
