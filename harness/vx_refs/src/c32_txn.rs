//! C32 section: `Transaction` x every `Operation` variant x {empty, one, two}-element collections x
//! Some/None options, through the conversions used for transaction files and inline transactions
//! (`pb::Transaction::from(&t)` -> prost bytes -> `Transaction::try_from`).
//!
//! Lance's own `PartialEq for Operation` ignores element order and `Schema` equality ignores schema
//! metadata, so the comparison here is field-wise and ordered.

use crate::c32::{short, CaseOut, Sec};
use crate::c32_fmt::{colls, colls3, frag_pool, frags_equal, index_pool, indices_equal, memwal_pool};
use arrow_schema::{DataType, Field as ArrowField, Fields as ArrowFields, Schema as ArrowSchema};
use lance::dataset::transaction::{
    DataReplacementGroup, Operation, RewriteGroup, RewrittenIndex, Transaction, UpdateMap,
    UpdateMapEntry, UpdateMode,
};
use lance_core::datatypes::Schema;
use lance_table::format::{pb, BasePath, Fragment};
use prost::Message;
use std::collections::HashMap;
use std::sync::Arc;
use uuid::Uuid;
use vcore::smallx::product;

pub fn schema_pool() -> Vec<Schema> {
    let s0 = Schema::try_from(&ArrowSchema::empty()).unwrap();
    let s1 = Schema::try_from(&ArrowSchema::new(vec![ArrowField::new("k", DataType::Int32, true)])).unwrap();
    let mut md = HashMap::new();
    md.insert("owner".to_string(), "ü".to_string());
    md.insert("b".to_string(), "".to_string());
    let mut fmd = HashMap::new();
    fmd.insert("unit".to_string(), "m".to_string());
    let mut pkmd = HashMap::new();
    pkmd.insert("lance-schema:unenforced-primary-key".to_string(), "true".to_string());
    let s2 = Schema::try_from(&ArrowSchema::new_with_metadata(
        vec![
            ArrowField::new("id", DataType::Int64, false).with_metadata(pkmd),
            ArrowField::new(
                "st",
                DataType::Struct(ArrowFields::from(vec![
                    ArrowField::new("x", DataType::Float32, false).with_metadata(fmd),
                    ArrowField::new("l", DataType::List(Arc::new(ArrowField::new("item", DataType::Utf8, true))), true),
                ])),
                true,
            ),
            ArrowField::new("v", DataType::FixedSizeList(Arc::new(ArrowField::new("item", DataType::Float32, true)), 4), true),
        ],
        md,
    ))
    .unwrap();
    vec![s0, s1, s2]
}

pub fn basepath_pool() -> Vec<BasePath> {
    vec![
        BasePath::new(0, "".into(), None, false),
        BasePath::new(5, "s3://bucket/ü path".into(), Some("n".into()), true),
        BasePath::new(u32::MAX, "memory://x".into(), Some("".into()), false),
    ]
}

fn update_maps() -> Vec<Option<UpdateMap>> {
    vec![
        None,
        Some(UpdateMap { update_entries: vec![], replace: false }),
        Some(UpdateMap { update_entries: vec![], replace: true }),
        Some(UpdateMap { update_entries: vec![UpdateMapEntry::from(("k", "v"))], replace: false }),
        Some(UpdateMap {
            update_entries: vec![UpdateMapEntry::from(("k", None)), UpdateMapEntry::from(("k2", "")), UpdateMapEntry::from(("k", "again"))],
            replace: true,
        }),
    ]
}

fn string_maps() -> Vec<Option<HashMap<String, String>>> {
    let one: HashMap<String, String> = [("a".to_string(), "1".to_string())].into_iter().collect();
    let two: HashMap<String, String> = [("a".to_string(), "1".to_string()), ("b ü".to_string(), "".to_string())].into_iter().collect();
    vec![None, Some(HashMap::new()), Some(one), Some(two)]
}

fn u64_lists() -> Vec<Vec<u64>> {
    vec![vec![], vec![0], vec![1, u64::MAX, 1]]
}
fn u32_lists() -> Vec<Vec<u32>> {
    vec![vec![], vec![0], vec![u32::MAX, 1]]
}

pub fn all_ops() -> Vec<Operation> {
    let fp = frag_pool();
    let fc = colls(&fp);
    let fc3 = colls3(&fp);
    let ip = index_pool();
    let ic = colls(&ip);
    let mp = memwal_pool();
    let sp = schema_pool();
    let bp = basepath_pool();
    let mut v: Vec<Operation> = vec![];

    for f in &fc {
        v.push(Operation::Append { fragments: f.clone() });
    }
    for f in &fc {
        for d in u64_lists() {
            for p in ["", "k = 1 AND v <> 'ü'"] {
                v.push(Operation::Delete {
                    updated_fragments: f.clone(),
                    deleted_fragment_ids: d.clone(),
                    predicate: p.to_string(),
                });
            }
        }
    }
    let bases: Vec<Option<Vec<BasePath>>> = vec![None, Some(vec![]), Some(vec![bp[0].clone()]), Some(vec![bp[1].clone(), bp[2].clone()])];
    for f in &fc {
        for s in &sp {
            for c in string_maps() {
                for b in &bases {
                    v.push(Operation::Overwrite {
                        fragments: f.clone(),
                        schema: s.clone(),
                        config_upsert_values: c.clone(),
                        initial_bases: b.clone(),
                    });
                }
            }
        }
    }
    for a in &ic {
        for b in &ic {
            v.push(Operation::CreateIndex { new_indices: a.clone(), removed_indices: b.clone() });
        }
    }
    let g0 = RewriteGroup { old_fragments: vec![], new_fragments: vec![] };
    let g1 = RewriteGroup { old_fragments: vec![fp[1].clone(), fp[2].clone()], new_fragments: vec![fp[0].clone()] };
    let g2 = RewriteGroup { old_fragments: vec![fp[0].clone()], new_fragments: vec![fp[2].clone(), fp[1].clone()] };
    let groups = vec![vec![], vec![g0.clone()], vec![g1.clone()], vec![g1.clone(), g2.clone()], vec![g2, g1, g0]];
    let r0 = RewrittenIndex {
        old_id: Uuid::nil(),
        new_id: Uuid::max(),
        new_index_details: prost_types::Any { type_url: "".into(), value: vec![] },
        new_index_version: 0,
    };
    let r1 = RewrittenIndex {
        old_id: ip[1].uuid,
        new_id: Uuid::from_u128(77),
        new_index_details: prost_types::Any { type_url: "/lance.table.BTreeIndexDetails".into(), value: vec![9, 0, 255] },
        new_index_version: u32::MAX,
    };
    let rws = vec![vec![], vec![r0.clone()], vec![r1.clone(), r0]];
    for g in &groups {
        for r in &rws {
            for fr in [None, Some(ip[0].clone()), Some(ip[1].clone())] {
                v.push(Operation::Rewrite { groups: g.clone(), rewritten_indices: r.clone(), frag_reuse_index: fr });
            }
        }
    }
    let d0 = DataReplacementGroup(0, fp[1].files[1].clone());
    let d1 = DataReplacementGroup(u64::MAX, fp[1].files[0].clone());
    for r in [vec![], vec![d0.clone()], vec![d0.clone(), d1.clone()], vec![d1, d0]] {
        v.push(Operation::DataReplacement { replacements: r });
    }
    for f in &fc {
        for s in &sp {
            v.push(Operation::Merge { fragments: f.clone(), schema: s.clone() });
        }
    }
    for ver in [0u64, 1, u64::MAX, (1 << 63) | 9] {
        v.push(Operation::Restore { version: ver });
    }
    for n in [0u32, 1, u32::MAX] {
        v.push(Operation::ReserveFragments { num_fragments: n });
    }
    let mws = [None, Some(mp[0].clone()), Some(mp[1].clone())];
    let modes = [None, Some(UpdateMode::RewriteRows), Some(UpdateMode::RewriteColumns)];
    let (ul, u32l) = (u64_lists(), u32_lists());
    product(&[3, 3, 3, 3, 3, 3, 3], |ix| {
        v.push(Operation::Update {
            removed_fragment_ids: ul[ix[0]].clone(),
            updated_fragments: fc3[ix[1]].clone(),
            new_fragments: fc3[ix[2]].clone(),
            fields_modified: u32l[ix[3]].clone(),
            mem_wal_to_merge: mws[ix[4]].clone(),
            fields_for_preserving_frag_bitmap: u32l[ix[5]].clone(),
            update_mode: modes[ix[6]].clone(),
        });
        true
    });
    for s in &sp {
        v.push(Operation::Project { schema: s.clone() });
    }
    let um = update_maps();
    let fmaps: Vec<HashMap<i32, UpdateMap>> = vec![
        HashMap::new(),
        [(0, um[3].clone().unwrap())].into_iter().collect(),
        [(0, um[4].clone().unwrap()), (-1, um[1].clone().unwrap()), (i32::MAX, um[3].clone().unwrap())].into_iter().collect(),
    ];
    product(&[um.len(), um.len(), um.len(), fmaps.len()], |ix| {
        v.push(Operation::UpdateConfig {
            config_updates: um[ix[0]].clone(),
            table_metadata_updates: um[ix[1]].clone(),
            schema_metadata_updates: um[ix[2]].clone(),
            field_metadata_updates: fmaps[ix[3]].clone(),
        });
        true
    });
    let mc = colls3(&mp);
    for a in &mc {
        for b in &mc {
            for c in &mc {
                v.push(Operation::UpdateMemWalState { added: a.clone(), updated: b.clone(), removed: c.clone() });
            }
        }
    }
    let names = [None, Some("".to_string()), Some("a/b".to_string())];
    product(&[2, 3, 3, 2, 3], |ix| {
        v.push(Operation::Clone {
            is_shallow: ix[0] == 1,
            ref_name: names[ix[1]].clone(),
            ref_version: [0u64, 1, u64::MAX][ix[2]],
            ref_path: ["", "memory://src ü"][ix[3]].to_string(),
            branch_name: names[ix[4]].clone(),
        });
        true
    });
    for b in [vec![], vec![bp[0].clone()], vec![bp[1].clone(), bp[2].clone(), bp[0].clone()]] {
        v.push(Operation::UpdateBases { new_bases: b });
    }
    v
}

fn roundtrip(t: &Transaction) -> (Vec<u8>, Result<Transaction, String>) {
    let bytes = pb::Transaction::from(t).encode_to_vec();
    let r = pb::Transaction::decode(bytes.as_slice())
        .map_err(|e| e.to_string())
        .and_then(|p| Transaction::try_from(p).map_err(|e| e.to_string()));
    (bytes, r)
}

fn cmp_frags(o: &mut CaseOut, field: &str, a: &[Fragment], b: &[Fragment]) {
    let mut norms = vec![];
    if !frags_equal(a, b, &mut norms) {
        o.diff(field, format!("{field}: encoded {} decoded {}", short(&a), short(&b)));
    }
    for n in norms {
        o.norm(&n);
    }
}

fn cmp_schema(o: &mut CaseOut, op: &str, a: &Schema, b: &Schema) {
    if a.fields != b.fields {
        o.diff(&format!("{op}/schema.fields"), format!("schema.fields: encoded {} decoded {}", short(&a.fields), short(&b.fields)));
    }
    if a.metadata != b.metadata {
        o.diff(&format!("{op}/schema.metadata"), format!("schema.metadata: encoded {:?} decoded {:?}", sorted(&a.metadata), sorted(&b.metadata)));
    }
}

fn sorted(m: &HashMap<String, String>) -> std::collections::BTreeMap<String, String> {
    m.iter().map(|(k, v)| (k.clone(), v.clone())).collect()
}

/// field-wise, ordered comparison of two operations; keys are `<Variant>/<field>`
pub fn cmp_op(o: &mut CaseOut, a: &Operation, b: &Operation) {
    use Operation as O;
    let name = a.name().to_string();
    let k = |f: &str| format!("{name}/{f}");
    match (a, b) {
        (O::Append { fragments: x }, O::Append { fragments: y }) => cmp_frags(o, &k("fragments"), x, y),
        (
            O::Delete { updated_fragments: xu, deleted_fragment_ids: xd, predicate: xp },
            O::Delete { updated_fragments: yu, deleted_fragment_ids: yd, predicate: yp },
        ) => {
            cmp_frags(o, &k("updated_fragments"), xu, yu);
            o.eq(&k("deleted_fragment_ids"), xd, yd);
            o.eq(&k("predicate"), xp, yp);
        }
        (
            O::Overwrite { fragments: xf, schema: xs, config_upsert_values: xc, initial_bases: xb },
            O::Overwrite { fragments: yf, schema: ys, config_upsert_values: yc, initial_bases: yb },
        ) => {
            cmp_frags(o, &k("fragments"), xf, yf);
            cmp_schema(o, &name, xs, ys);
            o.eq_opt_empty(&k("config_upsert_values"), &xc.as_ref().map(sorted), &yc.as_ref().map(sorted), |m| m.is_empty());
            o.eq_opt_empty(&k("initial_bases"), xb, yb, |v| v.is_empty());
        }
        (O::CreateIndex { new_indices: xn, removed_indices: xr }, O::CreateIndex { new_indices: yn, removed_indices: yr }) => {
            if !indices_equal(xn, yn) {
                o.diff(&k("new_indices"), format!("new_indices: encoded {} decoded {}", short(xn), short(yn)));
            }
            if !indices_equal(xr, yr) {
                o.diff(&k("removed_indices"), format!("removed_indices: encoded {} decoded {}", short(xr), short(yr)));
            }
        }
        (
            O::Rewrite { groups: xg, rewritten_indices: xr, frag_reuse_index: xf },
            O::Rewrite { groups: yg, rewritten_indices: yr, frag_reuse_index: yf },
        ) => {
            let empty_group = |g: &RewriteGroup| g.old_fragments.is_empty() && g.new_fragments.is_empty();
            if xg.is_empty() && yg.len() == 1 && empty_group(&yg[0]) {
                o.norm("Rewrite/groups:[]<->[empty group]");
            } else if xg.len() != yg.len() {
                o.diff(&k("groups"), format!("groups: {} encoded, {} decoded", xg.len(), yg.len()));
            } else {
                for (x, y) in xg.iter().zip(yg.iter()) {
                    cmp_frags(o, &k("groups.old_fragments"), &x.old_fragments, &y.old_fragments);
                    cmp_frags(o, &k("groups.new_fragments"), &x.new_fragments, &y.new_fragments);
                }
            }
            o.eq(&k("rewritten_indices"), xr, yr);
            match (xf, yf) {
                (None, None) => {}
                (Some(x), Some(y)) if indices_equal(std::slice::from_ref(x), std::slice::from_ref(y)) => {}
                _ => o.diff(&k("frag_reuse_index"), format!("frag_reuse_index: encoded {} decoded {}", short(xf), short(yf))),
            }
        }
        (O::DataReplacement { replacements: x }, O::DataReplacement { replacements: y }) => o.eq(&k("replacements"), x, y),
        (O::Merge { fragments: xf, schema: xs }, O::Merge { fragments: yf, schema: ys }) => {
            cmp_frags(o, &k("fragments"), xf, yf);
            cmp_schema(o, &name, xs, ys);
        }
        (O::Restore { version: x }, O::Restore { version: y }) => o.eq(&k("version"), x, y),
        (O::ReserveFragments { num_fragments: x }, O::ReserveFragments { num_fragments: y }) => o.eq(&k("num_fragments"), x, y),
        (
            O::Update {
                removed_fragment_ids: x1,
                updated_fragments: x2,
                new_fragments: x3,
                fields_modified: x4,
                mem_wal_to_merge: x5,
                fields_for_preserving_frag_bitmap: x6,
                update_mode: x7,
            },
            O::Update {
                removed_fragment_ids: y1,
                updated_fragments: y2,
                new_fragments: y3,
                fields_modified: y4,
                mem_wal_to_merge: y5,
                fields_for_preserving_frag_bitmap: y6,
                update_mode: y7,
            },
        ) => {
            o.eq(&k("removed_fragment_ids"), x1, y1);
            cmp_frags(o, &k("updated_fragments"), x2, y2);
            cmp_frags(o, &k("new_fragments"), x3, y3);
            o.eq(&k("fields_modified"), x4, y4);
            o.eq(&k("mem_wal_to_merge"), x5, y5);
            o.eq(&k("fields_for_preserving_frag_bitmap"), x6, y6);
            let canon = |m: &Option<UpdateMode>| m.clone().unwrap_or(UpdateMode::RewriteRows);
            if canon(x7) != canon(y7) {
                o.diff(&k("update_mode"), format!("update_mode: encoded {x7:?} decoded {y7:?}"));
            } else if x7 != y7 {
                o.norm("Update/update_mode:None<->RewriteRows");
            }
        }
        (O::Project { schema: x }, O::Project { schema: y }) => cmp_schema(o, &name, x, y),
        (
            O::UpdateConfig { config_updates: x1, table_metadata_updates: x2, schema_metadata_updates: x3, field_metadata_updates: x4 },
            O::UpdateConfig { config_updates: y1, table_metadata_updates: y2, schema_metadata_updates: y3, field_metadata_updates: y4 },
        ) => {
            o.eq(&k("config_updates"), x1, y1);
            o.eq(&k("table_metadata_updates"), x2, y2);
            o.eq(&k("schema_metadata_updates"), x3, y3);
            if x4 != y4 {
                o.diff(&k("field_metadata_updates"), format!("field_metadata_updates: {} entries encoded, {} decoded", x4.len(), y4.len()));
            }
        }
        (O::UpdateMemWalState { added: x1, updated: x2, removed: x3 }, O::UpdateMemWalState { added: y1, updated: y2, removed: y3 }) => {
            o.eq(&k("added"), x1, y1);
            o.eq(&k("updated"), x2, y2);
            o.eq(&k("removed"), x3, y3);
        }
        (
            O::Clone { is_shallow: x1, ref_name: x2, ref_version: x3, ref_path: x4, branch_name: x5 },
            O::Clone { is_shallow: y1, ref_name: y2, ref_version: y3, ref_path: y4, branch_name: y5 },
        ) => {
            o.eq(&k("is_shallow"), x1, y1);
            o.eq(&k("ref_name"), x2, y2);
            o.eq(&k("ref_version"), x3, y3);
            o.eq(&k("ref_path"), x4, y4);
            o.eq(&k("branch_name"), x5, y5);
        }
        (O::UpdateBases { new_bases: x }, O::UpdateBases { new_bases: y }) => o.eq(&k("new_bases"), x, y),
        (x, y) => o.diff(&k("variant"), format!("operation {} decoded as {}", x.name(), y.name())),
    }
}

pub fn cmp_txn(o: &mut CaseOut, a: &Transaction, b: &Transaction) {
    o.eq("read_version", &a.read_version, &b.read_version);
    o.eq("uuid", &a.uuid, &b.uuid);
    o.eq_opt_empty("tag", &a.tag, &b.tag, |s| s.is_empty());
    let props = |t: &Transaction| t.transaction_properties.as_ref().map(|m| sorted(m));
    o.eq_opt_empty("transaction_properties", &props(a), &props(b), |m| m.is_empty());
    cmp_op(o, &a.operation, &b.operation);
}

fn check(s: &mut Sec, t: Transaction) {
    s.case(
        || short(&t),
        || {
            let (bytes, r) = roundtrip(&t);
            let mut o = CaseOut::new(bytes);
            match r {
                Ok(t2) => cmp_txn(&mut o, &t, &t2),
                Err(e) => o.diff(&format!("{}/decode-error", t.operation.name()), format!("decode failed: {e}")),
            }
            o
        },
    );
}

/// every combination of the envelope fields around one fixed operation
pub fn envelope(s: &mut Sec, _thorough: bool) {
    let rvs = [0u64, 1, u64::MAX, (1 << 63) | 2];
    let uuids = ["", "6b0ae5c8-1b9a-4e5c-9c0e-0d8f6a3b2c1d", "not a uuid ü"];
    let tags = [None, Some("".to_string()), Some("t".to_string()), Some("tag/ü 1".to_string())];
    let props = string_maps();
    product(&[rvs.len(), uuids.len(), tags.len(), props.len()], |ix| {
        check(
            s,
            Transaction {
                read_version: rvs[ix[0]],
                uuid: uuids[ix[1]].to_string(),
                operation: Operation::Restore { version: 1 },
                tag: tags[ix[2]].clone(),
                transaction_properties: props[ix[3]].clone().map(Arc::new),
            },
        );
        true
    });
}

/// every enumerated operation under a minimal and a full envelope
pub fn ops(s: &mut Sec, _thorough: bool) {
    let props = string_maps();
    for op in all_ops() {
        check(s, Transaction { read_version: 0, uuid: "".into(), operation: op.clone(), tag: None, transaction_properties: None });
        check(
            s,
            Transaction {
                read_version: u64::MAX,
                uuid: "6b0ae5c8-1b9a-4e5c-9c0e-0d8f6a3b2c1d".into(),
                operation: op,
                tag: Some("t".into()),
                transaction_properties: props[3].clone().map(Arc::new),
            },
        );
    }
}
