//! C38 branch profile: shared-session vs fresh-session executions of histories with two branches that
//! share version numbers. Side A keeps ONE long-lived main handle (shared `Session`) and reaches the
//! branch `dev` only through it (`checkout_branch` / `checkout_version((dev, v))`), exactly the usage
//! that would store another branch's metadata under the wrong cache prefix. Side B opens everything
//! with a fresh default session.
//!
//! Root: main v1 (3 rows), v2 (+2 rows). Ops: create_branch(dev from main v1), append on dev (1 row, so
//! its transaction differs from main's 2-row appends), create_index(k, btree) on dev, append on main,
//! create_index on main, checkout_branch(dev) through the main handle. After every step, for BOTH
//! branches at EVERY version: load_indices (name, fields), read_transaction summary (operation name +
//! appended row counts / index names), `k = 1` through the scalar index and with use_scalar_index(false),
//! ordered scan, count_rows. Any difference between the sides is a violation.

use arrow_array::RecordBatchIterator;
use futures::TryStreamExt;
use lance::dataset::transaction::Operation;
use lance::dataset::{ReadParams, WriteMode, WriteParams};
use lance::session::Session;
use lance::Dataset;
use lance_index::scalar::ScalarIndexParams;
use lance_index::{DatasetIndexExt, IndexType};
use lance_io::object_store::ObjectStoreRegistry;
use serde::{Deserialize, Serialize};
use serde_json::{json, Value};
use std::sync::Arc;
use vcore::seqx::{Step, Sut};
use vcore::Violation;
use vds::{base_batch, default_rows, Env};

const URI: &str = "memory://tbl";

#[derive(Clone, Debug, Serialize, Deserialize, PartialEq)]
pub enum Op {
    CreateBranch,
    AppendDev,
    IndexDev,
    AppendMain,
    IndexMain,
    /// `main_handle.checkout_branch("dev")` (side A: the long-lived handle on the shared session)
    CheckoutDev,
}

#[derive(Clone)]
pub struct St {
    pub cap: String,
    pub ops: Vec<Op>,
    pub dev: bool,
}

struct Side {
    env: Env,
    shared: Option<Arc<Session>>,
    /// side A: the long-lived main handle
    main: Option<Dataset>,
}

impl Side {
    fn session(&self) -> Arc<Session> {
        self.shared.clone().unwrap_or_else(|| Arc::new(Session::default()))
    }
    async fn main_handle(&self) -> lance::Result<Dataset> {
        match &self.main {
            Some(m) => Ok(m.clone()),
            None => self.env.open_with_session(URI, self.session()).await,
        }
    }
    async fn open_main_version(&self, v: u64) -> lance::Result<Dataset> {
        let rp = ReadParams { store_options: Some(self.env.store_params()), session: Some(self.session()), ..Default::default() };
        lance::dataset::builder::DatasetBuilder::from_uri(URI).with_read_params(rp).with_version(v).load().await
    }
    fn wparams(&self, mode: WriteMode) -> WriteParams {
        WriteParams { mode, store_params: Some(self.env.store_params()), session: Some(self.session()), max_rows_per_file: 1000, ..Default::default() }
    }
}

fn ec(e: &lance::Error) -> String {
    format!("error:{}", vds::err_class(e))
}

async fn apply(s: &Side, op: &Op, uid0: i32) -> Result<(), String> {
    let r: lance::Result<()> = async {
        match op {
            Op::CreateBranch => {
                let mut m = s.main_handle().await?;
                m.create_branch("dev", 1u64, None).await.map(|_| ())
            }
            Op::AppendDev | Op::AppendMain => {
                let n = if matches!(op, Op::AppendDev) { 1 } else { 2 };
                let batch = base_batch(&default_rows(uid0..uid0 + n));
                let reader = RecordBatchIterator::new(vec![Ok(batch.clone())], batch.schema());
                let mut ds = if matches!(op, Op::AppendDev) { s.main_handle().await?.checkout_branch("dev").await? } else { s.env.open_with_session(URI, s.session()).await? };
                ds.append(reader, Some(s.wparams(WriteMode::Append))).await
            }
            Op::IndexDev | Op::IndexMain => {
                let mut ds = if matches!(op, Op::IndexDev) { s.main_handle().await?.checkout_branch("dev").await? } else { s.env.open_with_session(URI, s.session()).await? };
                ds.create_index(&["k"], IndexType::BTree, None, &ScalarIndexParams::default(), true).await
            }
            Op::CheckoutDev => s.main_handle().await?.checkout_branch("dev").await.map(|_| ()),
        }
    }
    .await;
    r.map_err(|e| vds::err_class(&e))
}

async fn observe_ds(ds: &Dataset) -> Value {
    let mut o = serde_json::Map::new();
    o.insert(
        "load_indices".into(),
        match ds.load_indices().await {
            Ok(ix) => {
                let mut v: Vec<String> = ix.iter().map(|i| format!("{}:{:?}", i.name, i.fields)).collect();
                v.sort();
                json!(v)
            }
            Err(e) => json!(ec(&e)),
        },
    );
    o.insert(
        "transaction".into(),
        match ds.read_transaction().await {
            Ok(None) => json!("none"),
            Ok(Some(t)) => json!(match &t.operation {
                Operation::Append { fragments } => format!("Append{:?}", fragments.iter().map(|f| f.physical_rows).collect::<Vec<_>>()),
                Operation::Overwrite { fragments, .. } => format!("Overwrite{:?}", fragments.iter().map(|f| f.physical_rows).collect::<Vec<_>>()),
                Operation::CreateIndex { new_indices, .. } => format!("CreateIndex{:?}", new_indices.iter().map(|i| i.name.clone()).collect::<Vec<_>>()),
                Operation::Clone { ref_version, branch_name, .. } => format!("Clone(v{ref_version},{branch_name:?})"),
                other => other.name().to_string(),
            }),
            Err(e) => json!(ec(&e)),
        },
    );
    for (label, use_ix) in [("k=1/index", true), ("k=1/no-index", false)] {
        let r: lance::Result<Vec<String>> = async {
            let mut sc = ds.scan();
            sc.scan_in_order(true);
            sc.filter("k = 1")?;
            sc.use_scalar_index(use_ix);
            let b: Vec<arrow_array::RecordBatch> = sc.try_into_stream().await?.try_collect().await?;
            Ok(vds::cells::batches_rows(&b).iter().map(|r| format!("{r:?}")).collect())
        }
        .await;
        o.insert(label.into(), match r { Ok(v) => json!(v), Err(e) => json!(ec(&e)) });
    }
    o.insert("scan".into(), match vds::scan_cells(ds, false, false).await { Ok((_, r)) => json!(r.iter().map(|x| format!("{x:?}")).collect::<Vec<_>>()), Err(e) => json!(ec(&e)) });
    o.insert("count_rows".into(), match ds.count_rows(None).await { Ok(n) => json!(n), Err(e) => json!(ec(&e)) });
    Value::Object(o)
}

/// main first, then dev (dev is reached through the main handle)
async fn observe(s: &Side, main_versions: u64, dev_versions: Option<(u64, u64)>) -> Vec<(String, Value)> {
    let mut out = vec![];
    // FIRST the long-lived main handle itself (it stays at the root's latest version 2 and is never
    // re-loaded, so it answers from whatever the session cache holds for (main, v2)); side B: a fresh open
    // of main v2. Fresh opens below re-run load_manifest and would re-insert correct entries.
    let val = match &s.main {
        Some(m) => observe_ds(m).await,
        None => match s.open_main_version(2).await {
            Ok(ds) => observe_ds(&ds).await,
            Err(e) => json!(ec(&e)),
        },
    };
    out.push(("main-handle@v2".to_string(), val));
    for v in 1..=main_versions {
        let val = match s.open_main_version(v).await {
            Ok(ds) => observe_ds(&ds).await,
            Err(e) => json!(ec(&e)),
        };
        out.push((format!("main@v{v}"), val));
    }
    if let Some((lo, hi)) = dev_versions {
        for v in lo..=hi {
            let val = match s.main_handle().await {
                Ok(m) => match m.checkout_version(("dev", v)).await {
                    Ok(ds) => observe_ds(&ds).await,
                    Err(e) => json!(ec(&e)),
                },
                Err(e) => json!(ec(&e)),
            };
            out.push((format!("dev@v{v}"), val));
        }
    }
    out
}

struct Run {
    a: Side,
    b: Side,
    next_uid: i32,
    main_versions: u64,
    dev: Option<(u64, u64)>,
}

impl Run {
    async fn new(cap: &str) -> Result<Self, String> {
        let (ic, mc) = match cap {
            "0" => (0, 0),
            "tiny" => (2048, 2048),
            _ => (1 << 30, 1 << 30),
        };
        let shared = Arc::new(Session::new(ic, mc, Arc::new(ObjectStoreRegistry::default())));
        let mut run = Self { a: Side { env: Env::new(), shared: Some(shared), main: None }, b: Side { env: Env::new(), shared: None, main: None }, next_uid: 5, main_versions: 2, dev: None };
        for s in [&run.a, &run.b] {
            for (i, r) in [0..3, 3..5].into_iter().enumerate() {
                let batch = base_batch(&default_rows(r));
                let reader = RecordBatchIterator::new(vec![Ok(batch.clone())], batch.schema());
                Dataset::write(reader, URI, Some(s.wparams(if i == 0 { WriteMode::Create } else { WriteMode::Append }))).await.map_err(|e| e.to_string())?;
            }
        }
        run.a.main = Some(run.a.env.open_with_session(URI, run.a.session()).await.map_err(|e| e.to_string())?);
        if let Some(d) = run.compare().await {
            return Err(format!("root differs already: {d:?}"));
        }
        Ok(run)
    }

    async fn compare(&self) -> Option<(String, String, String)> {
        let oa = observe(&self.a, self.main_versions, self.dev).await;
        let ob = observe(&self.b, self.main_versions, self.dev).await;
        for ((la, va), (_, vb)) in oa.iter().zip(ob.iter()) {
            if va != vb {
                let (ma, mb) = (va.as_object().cloned().unwrap_or_default(), vb.as_object().cloned().unwrap_or_default());
                let order = ["load_indices", "transaction", "k=1/index", "k=1/no-index", "scan", "count_rows"];
                let d = order.iter().find(|k| ma.get(**k) != mb.get(**k)).copied().unwrap_or("open");
                return Some((la.clone(), d.to_string(), format!("{la}: {d}: shared session = {} ; fresh sessions = {}", ma.get(d).cloned().unwrap_or(va.clone()), mb.get(d).cloned().unwrap_or(vb.clone()))));
            }
        }
        None
    }

    async fn step(&mut self, op: &Op) -> Option<(String, String)> {
        let uid0 = self.next_uid;
        let ra = apply(&self.a, op, uid0).await;
        let rb = apply(&self.b, op, uid0).await;
        if ra != rb {
            return Some((format!("branch/op-outcome/{op:?}"), format!("{op:?}: shared session -> {ra:?}, fresh sessions -> {rb:?}")));
        }
        if rb.is_ok() {
            match op {
                Op::CreateBranch => self.dev = Some((1, 1)),
                Op::AppendDev => {
                    self.next_uid += 1;
                    self.dev = self.dev.map(|(l, h)| (l, h + 1));
                }
                Op::IndexDev => self.dev = self.dev.map(|(l, h)| (l, h + 1)),
                Op::AppendMain => {
                    self.next_uid += 2;
                    self.main_versions += 1;
                }
                Op::IndexMain => self.main_versions += 1,
                Op::CheckoutDev => {}
            }
        }
        let (who, obs, what) = self.compare().await?;
        // root-cause class: metadata (index list / transaction / index-backed query) of a (branch, version)
        // whose version number also exists on the other branch, after the other branch was reached through
        // the shared session = entries cached under the wrong branch's prefix
        let v: u64 = who.split("@v").nth(1).and_then(|x| x.parse().ok()).unwrap_or(0);
        let shared_number = self.dev.map(|(l, h)| v >= l && v <= h && v <= self.main_versions).unwrap_or(false);
        let key = if shared_number && matches!(obs.as_str(), "load_indices" | "transaction" | "k=1/index") {
            "branch/cross-branch-checkout-poisons-metadata-cache-of-other-branch".to_string()
        } else {
            format!("branch/{obs}/{}", who.split('@').next().unwrap_or(""))
        };
        Some((key, format!("after {op:?}: {what}")))
    }
}

pub struct BranchCaching {
    pub caps: Vec<&'static str>,
    pub executions: std::sync::atomic::AtomicU64,
}

impl Sut for BranchCaching {
    type State = St;
    type Op = Op;
    fn init(&self) -> Vec<(String, St)> {
        self.caps.iter().map(|c| (format!("branch-profile/cap={c}"), St { cap: c.to_string(), ops: vec![], dev: false })).collect()
    }
    fn ops(&self, st: &St, _d: usize) -> Vec<Op> {
        if st.dev {
            vec![Op::AppendDev, Op::IndexDev, Op::AppendMain, Op::IndexMain, Op::CheckoutDev]
        } else {
            vec![Op::CreateBranch, Op::AppendMain, Op::IndexMain]
        }
    }
    fn step(&self, st: &St, op: &Op) -> Step<St> {
        self.executions.fetch_add(1, std::sync::atomic::Ordering::Relaxed);
        let r = vds::run_catch(async {
            let mut run = match Run::new(&st.cap).await {
                Ok(r) => r,
                Err(e) => return Some(("branch/root".to_string(), e)),
            };
            for o in &st.ops {
                if let Some((k, w)) = run.step(o).await {
                    return Some((format!("nondeterministic-prefix/{k}"), w));
                }
            }
            run.step(op).await
        });
        match r {
            Err(p) => Step { next: None, outcome: "panic".into(), violations: vec![Violation::new("no-panic", "branch/panic", format!("{op:?} panicked: {}", p.chars().take(300).collect::<String>()), json!({}))] },
            Ok(Some((k, w))) => Step { next: None, outcome: "DIFF".into(), violations: vec![Violation::new("shared-vs-fresh-session", &k, w.chars().take(700).collect::<String>(), json!({}))] },
            Ok(None) => {
                let mut n = st.clone();
                n.ops.push(op.clone());
                if matches!(op, Op::CreateBranch) {
                    n.dev = true;
                }
                Step::ok(n, "same")
            }
        }
    }
    fn canon(&self, st: &St) -> u64 {
        vcore::hash64(format!("{}|{:?}", st.cap, st.ops).as_bytes())
    }
    fn op_kind(&self, op: &Op) -> String {
        format!("branch:{op:?}")
    }
}
