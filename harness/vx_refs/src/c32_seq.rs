//! C32 sections: row id sequences (every segment kind x every offset width), row version sequences
//! (many runs), deletion vectors in both file formats around the sparse/dense threshold.

use crate::c32::{short, CaseOut, Sec};
use lance_core::utils::deletion::DeletionVector;
use lance_io::object_store::{ObjectStore, ObjectStoreRegistry};
use lance_table::format::{pb, DeletionFileType, RowDatasetVersionMeta, RowDatasetVersionRun, RowDatasetVersionSequence};
use lance_table::io::deletion::{deletion_file_path, read_deletion_file, write_deletion_file};
use lance_table::rowids::segment::U64Segment;
use lance_table::rowids::{read_row_ids, write_row_ids, RowIdSequence};
use prost::Message;
use roaring::RoaringBitmap;
use std::collections::HashSet;
use std::sync::Arc;

fn kind(s: &U64Segment) -> &'static str {
    match s {
        U64Segment::Range(_) => "Range",
        U64Segment::RangeWithHoles { .. } => "RangeWithHoles",
        U64Segment::RangeWithBitmap { .. } => "RangeWithBitmap",
        U64Segment::SortedArray(_) => "SortedArray",
        U64Segment::Array(_) => "Array",
    }
}

/// width class of the offsets inside the encoded array of a segment (from its Debug form; the
/// payload type is private)
fn width(s: &U64Segment) -> &'static str {
    let d = format!("{s:?}");
    if d.contains("U16") {
        "u16"
    } else if d.contains("U32") {
        "u32"
    } else if d.contains("U64") {
        "u64"
    } else {
        "-"
    }
}

/// value lists that make `U64Segment::from_slice` choose each kind, at bases that make the encoded
/// arrays choose each width
pub fn value_lists() -> Vec<(String, Vec<u64>)> {
    let mut v: Vec<(String, Vec<u64>)> = vec![];
    let bases: [u64; 4] = [0, 1000, 1 << 40, u64::MAX - 200_000];
    for b in bases {
        v.push((format!("range@{b}"), (b..b + 50).collect()));
        v.push((format!("single@{b}"), vec![b]));
        // few holes in a long run
        v.push((format!("holes1@{b}"), (b..b + 100).filter(|x| x - b != 37).collect()));
        v.push((format!("holes3@{b}"), (b..b + 400).filter(|x| ![5, 6, 399 - 1].contains(&(x - b))).collect()));
        // dense with many holes -> bitmap
        v.push((format!("bitmap-even@{b}"), (b..b + 64).filter(|x| (x - b) % 2 == 0).collect()));
        v.push((format!("bitmap-3of4@{b}"), (b..b + 90).filter(|x| (x - b) % 4 != 1).collect()));
        // sparse sorted, span < 2^16, < 2^32, >= 2^32
        v.push((format!("sorted16@{b}"), vec![b, b + 1000, b + 60_000]));
        v.push((format!("sorted32@{b}"), vec![b, b + 70_000, b + 100_000]));
        // unsorted
        v.push((format!("array16@{b}"), vec![b + 9, b, b + 3, b + 65_535]));
        v.push((format!("array32@{b}"), vec![b + 100_000, b, b + 5]));
    }
    // sorted spans >= 2^62 make `U64Segment::from_slice` itself overflow (`4 * n_holes`, segment.rs:157);
    // that is construction, not serialisation (C34's subject) and is recorded as a foreign finding in `rowids`
    v.push(("sorted64".into(), vec![0, 1 << 33, 1 << 61]));
    v.push(("sorted64-high".into(), vec![u64::MAX - (1 << 61), u64::MAX - (1 << 40), u64::MAX]));
    v.push(("array64".into(), vec![u64::MAX, 0, 1 << 33]));
    v.push(("holes-wide32".into(), (0..70_010u64).filter(|x| *x != 70_000 && *x != 3).collect()));
    v.push(("empty".into(), vec![]));
    v.push(("range-to-max".into(), (u64::MAX - 10..u64::MAX).collect()));
    v
}

pub fn rowids(s: &mut Sec, thorough: bool) {
    let lists = value_lists();
    let mut kinds_seen: HashSet<String> = HashSet::new();
    // one segment
    let mut seqs: Vec<(String, RowIdSequence, Vec<u64>)> = vec![];
    for (label, vals) in &lists {
        seqs.push((label.clone(), RowIdSequence::from(vals.as_slice()), vals.clone()));
    }
    // from a range (the constructor used for fresh fragments)
    for r in [0u64..0, 0..1, 5..10_000, (u64::MAX - 3)..u64::MAX] {
        if r.end - r.start <= 10_000 {
            seqs.push((format!("from-range {r:?}"), RowIdSequence::from(r.clone()), r.collect()));
        }
    }
    // two and three segments: every ordered pair (and in thorough every triple over a sub-pool) via `extend`
    let n = lists.len();
    let pool: Vec<usize> = if thorough { (0..n).collect() } else { (0..n).filter(|i| i % 2 == 0 || *i >= n - 6).collect() };
    for &i in &pool {
        for &j in &pool {
            let mut q = RowIdSequence::from(lists[i].1.as_slice());
            q.extend(RowIdSequence::from(lists[j].1.as_slice()));
            let mut vals = lists[i].1.clone();
            vals.extend(lists[j].1.iter().copied());
            seqs.push((format!("{}+{}", lists[i].0, lists[j].0), q, vals));
        }
    }
    let tri: Vec<usize> = pool.iter().copied().filter(|i| i % 5 == 0).collect();
    for &i in &tri {
        for &j in &tri {
            for &k in &tri {
                let mut q = RowIdSequence::from(lists[i].1.as_slice());
                q.extend(RowIdSequence::from(lists[j].1.as_slice()));
                q.extend(RowIdSequence::from(lists[k].1.as_slice()));
                let mut vals = lists[i].1.clone();
                vals.extend(lists[j].1.iter().copied());
                vals.extend(lists[k].1.iter().copied());
                seqs.push((format!("{}+{}+{}", lists[i].0, lists[j].0, lists[k].0), q, vals));
            }
        }
    }
    // which (kind, width) shapes do the single-segment values exercise (read from the pb form, which is public)
    for (_, seq, _) in seqs.iter().take(lists.len()) {
        for sg in &pb::RowIdSequence::from(seq.clone()).segments {
            if let Ok(u) = U64Segment::try_from(sg.clone()) {
                kinds_seen.insert(format!("{}/{}", kind(&u), width(&u)));
            }
        }
    }
    for (label, seq, vals) in seqs {
        s.case(
            || format!("{label}: {}", short(&seq)),
            || {
                let bytes = write_row_ids(&seq);
                let mut o = CaseOut::new(bytes.clone());
                match read_row_ids(&bytes) {
                    Ok(s2) => {
                        if s2 != seq {
                            o.diff("sequence", format!("row id sequence {label}: encoded {} decoded {}", short(&seq), short(&s2)));
                        }
                        // the decoded sequence must also still denote the source values
                        let got: Vec<u64> = s2.iter().collect();
                        if got != vals {
                            o.diff("values", format!("row id sequence {label}: decoded sequence iterates {} values, first difference at {:?}", got.len(), got.iter().zip(vals.iter()).position(|(a, b)| a != b)));
                        }
                    }
                    Err(e) => o.diff("decode-error", format!("read_row_ids failed on {label}: {e}")),
                }
                o
            },
        );
    }
    // foreign finding probe (not judged here): constructing a sorted segment spanning >= 2^62
    if s.only.is_none() {
        let r = vcore::catch(|| RowIdSequence::from([0u64, 1 << 33, 1 << 62].as_slice()).len());
        s.cov.outcome(&format!(
            "foreign:C34:U64Segment::from_slice([0,2^33,2^62]) {}",
            match r {
                Ok(_) => "ok".to_string(),
                Err(p) => format!("panicked: {p}"),
            }
        ));
    }
    let mut k: Vec<String> = kinds_seen.into_iter().collect();
    k.sort();
    for x in k {
        s.cov.outcome(&format!("rowids-kind:{x}"));
    }
}

fn enc16(base: u64, offs: &[u16]) -> pb::EncodedU64Array {
    pb::EncodedU64Array {
        array: Some(pb::encoded_u64_array::Array::U16Array(pb::encoded_u64_array::U16Array {
            base,
            offsets: offs.iter().flat_map(|o| o.to_le_bytes()).collect(),
        })),
    }
}
fn enc32(base: u64, offs: &[u32]) -> pb::EncodedU64Array {
    pb::EncodedU64Array {
        array: Some(pb::encoded_u64_array::Array::U32Array(pb::encoded_u64_array::U32Array {
            base,
            offsets: offs.iter().flat_map(|o| o.to_le_bytes()).collect(),
        })),
    }
}
fn enc64(vals: &[u64]) -> pb::EncodedU64Array {
    pb::EncodedU64Array {
        array: Some(pb::encoded_u64_array::Array::U64Array(pb::encoded_u64_array::U64Array {
            values: vals.iter().flat_map(|o| o.to_le_bytes()).collect(),
        })),
    }
}

/// hand-built protobuf segments of every (kind, width) shape, including shapes the constructors never
/// choose (holes stored as u32/u64 arrays, bitmaps with trailing bits, arrays at base u64::MAX-k)
pub fn pb_segments() -> Vec<pb::U64Segment> {
    use pb::u64_segment as ps;
    use pb::u64_segment::Segment as S;
    let mut v = vec![];
    let seg = |s: S| pb::U64Segment { segment: Some(s) };
    for (a, b) in [(0u64, 0u64), (0, 1), (7, 1 << 40), (u64::MAX - 1, u64::MAX)] {
        v.push(seg(S::Range(ps::Range { start: a, end: b })));
    }
    let arrays = |base: u64| vec![enc16(base, &[]), enc16(base, &[0]), enc16(base, &[1, 2, u16::MAX]), enc32(base, &[0, 70_000, u32::MAX]), enc64(&[]), enc64(&[base, base.saturating_add(1 << 33)])];
    for base in [0u64, 1 << 40] {
        for a in arrays(base) {
            v.push(seg(S::RangeWithHoles(ps::RangeWithHoles {
                start: base,
                end: base + (1 << 34),
                holes: Some(a.clone()),
            })));
            v.push(seg(S::SortedArray(a.clone())));
            v.push(seg(S::Array(a)));
        }
    }
    for (start, end, bm) in [(0u64, 0u64, vec![]), (0, 8, vec![0b1010_1010u8]), (100, 110, vec![0xff, 0b1100_0000]), (1 << 40, (1 << 40) + 17, vec![1, 2, 3])] {
        v.push(seg(S::RangeWithBitmap(ps::RangeWithBitmap { start, end, bitmap: bm })));
    }
    v
}

pub fn rowids_pb(s: &mut Sec, _thorough: bool) {
    let segs = pb_segments();
    // every single segment and every ordered pair
    let mut msgs: Vec<pb::RowIdSequence> = vec![pb::RowIdSequence { segments: vec![] }];
    for a in &segs {
        msgs.push(pb::RowIdSequence { segments: vec![a.clone()] });
    }
    for a in &segs {
        for b in &segs {
            msgs.push(pb::RowIdSequence { segments: vec![a.clone(), b.clone()] });
        }
    }
    for m in msgs {
        s.case(
            || short(&m),
            || {
                let bytes0 = m.encode_to_vec();
                let mut o = CaseOut::new(bytes0.clone());
                // x := decode(bytes0) is the value under test; then decode(encode(x)) must equal x
                let x = match read_row_ids(&bytes0) {
                    Ok(x) => x,
                    Err(e) => {
                        o.diff("decode-error", format!("read_row_ids rejected a well-formed message: {e}"));
                        return o;
                    }
                };
                let bytes1 = write_row_ids(&x);
                match read_row_ids(&bytes1) {
                    Ok(x2) => {
                        if x2 != x {
                            o.diff("sequence", format!("encoded {} decoded {}", short(&x), short(&x2)));
                        }
                    }
                    Err(e) => o.diff("decode-error", format!("read_row_ids failed on re-encoded value: {e}")),
                }
                if bytes1 != bytes0 {
                    o.diff("bytes", "write_row_ids(read_row_ids(b)) != b for a canonical prost encoding".to_string());
                }
                o
            },
        );
    }
}

pub fn versions(s: &mut Sec, thorough: bool) {
    let lists = value_lists();
    let vers = [0u64, 1, 7, u64::MAX, (1 << 63) | 3];
    // spans of every kind (positions within a fragment are small, but the type allows any u64)
    let spans: Vec<U64Segment> = lists.iter().map(|(_, v)| U64Segment::from_slice(v)).collect();
    let mut seqs: Vec<(String, RowDatasetVersionSequence)> = vec![("empty".into(), RowDatasetVersionSequence::new())];
    for (n, v) in [(0u64, 1u64), (1, 1), (5, u64::MAX), (1 << 20, 3)] {
        seqs.push((format!("uniform({n},{v})"), RowDatasetVersionSequence::from_uniform_row_count(n, v)));
    }
    for (i, sp) in spans.iter().enumerate() {
        for v in vers {
            seqs.push((
                format!("one-run {} v{v}", lists[i].0),
                RowDatasetVersionSequence {
                    runs: vec![RowDatasetVersionRun { span: sp.clone(), version: v }],
                },
            ));
        }
    }
    // many runs: r contiguous runs of length l with versions cycling through `vers`
    let run_counts: &[usize] = if thorough { &[2, 3, 10, 100, 1000, 5000] } else { &[2, 3, 10, 100, 1000] };
    for &r in run_counts {
        for l in [1u64, 2, 50] {
            let runs = (0..r as u64)
                .map(|i| RowDatasetVersionRun {
                    span: U64Segment::Range(i * l..(i + 1) * l),
                    version: vers[(i as usize) % vers.len()],
                })
                .collect();
            seqs.push((format!("{r} runs of {l}"), RowDatasetVersionSequence { runs }));
        }
        // runs whose spans cycle through every segment kind
        let runs = (0..r)
            .map(|i| RowDatasetVersionRun {
                span: spans[i % spans.len()].clone(),
                version: vers[i % vers.len()],
            })
            .collect();
        seqs.push((format!("{r} runs of mixed kinds"), RowDatasetVersionSequence { runs }));
    }
    for (label, q) in seqs {
        s.case(
            || format!("{label}: {}", short(&q)),
            || {
                let bytes = lance_table::rowids::version::write_dataset_versions(&q);
                let mut o = CaseOut::new(bytes.clone());
                match lance_table::rowids::version::read_dataset_versions(&bytes) {
                    Ok(q2) => {
                        if q2 != q {
                            o.diff("sequence", format!("version sequence {label}: {} runs encoded, decoded {}", q.runs.len(), short(&q2)));
                        }
                    }
                    Err(e) => o.diff("decode-error", format!("read_dataset_versions failed on {label}: {e}")),
                }
                // the metadata wrapper used in fragments
                match RowDatasetVersionMeta::from_sequence(&q).and_then(|m| m.load_sequence()) {
                    Ok(q3) => {
                        if q3 != q {
                            o.diff("meta", format!("RowDatasetVersionMeta::from_sequence/load_sequence changed {label}"));
                        }
                    }
                    Err(e) => o.diff("meta.decode-error", format!("load_sequence failed on {label}: {e}")),
                }
                o
            },
        );
    }
}

/// BITMAP_THRESDHOLD in lance-core/src/utils/deletion.rs
const THRESHOLD: u32 = 5_000;

pub fn deletion(s: &mut Sec, thorough: bool) {
    let env = vds::Env::new();
    let (os, base): (Arc<ObjectStore>, _) = vds::block_on(ObjectStore::from_uri_and_params(
        Arc::new(ObjectStoreRegistry::default()),
        "memory://c32del",
        &env.store_params(),
    ))
    .expect("object store over MemStore");
    let sizes: Vec<u32> = if thorough {
        vec![0, 1, 2, 3, 100, THRESHOLD - 1, THRESHOLD, THRESHOLD + 1, 2 * THRESHOLD, 70_000]
    } else {
        vec![0, 1, 2, 100, THRESHOLD - 1, THRESHOLD, THRESHOLD + 1]
    };
    let patterns: [(&str, fn(u32, u32) -> u32); 4] = [
        ("prefix", |i, _| i),
        ("stride7", |i, _| i * 7),
        ("high", |i, n| u32::MAX - (n - 1 - i)),
        ("two-containers", |i, _| if i % 2 == 0 { i } else { (1 << 16) + i }),
    ];
    let mut frag = 0u64;
    for n in sizes {
        for (pname, f) in patterns {
            let vals: Vec<u32> = (0..n).map(|i| f(i, n)).collect();
            for variant in ["set", "bitmap", "collected"] {
                let dv = match variant {
                    "set" => DeletionVector::Set(vals.iter().copied().collect::<HashSet<u32>>()),
                    "bitmap" => DeletionVector::Bitmap(vals.iter().copied().collect::<RoaringBitmap>()),
                    _ => vals.iter().copied().collect::<DeletionVector>(),
                };
                frag += 1;
                let fid = frag;
                let store = env.store.clone();
                s.case(
                    || format!("{variant} n={n} pattern={pname}"),
                    || {
                        vds::block_on(async {
                            let rv = (fid % 3) * (u64::MAX / 2);
                            let written = write_deletion_file(&base, fid, rv, &dv, &os).await;
                            let df = match written {
                                Err(e) => {
                                    let mut o = CaseOut::new(vec![1]);
                                    o.diff("write-error", format!("write_deletion_file failed: {e}"));
                                    return o;
                                }
                                Ok(None) => {
                                    let mut o = CaseOut::new(vec![]);
                                    if !matches!(dv, DeletionVector::NoDeletions) {
                                        o.diff("not-written", format!("{variant} n={n}: no file written for a {} vector", kind_dv(&dv)));
                                    }
                                    return o;
                                }
                                Ok(Some(df)) => df,
                            };
                            let path = deletion_file_path(&base, fid, &df);
                            let content = store.read(path.as_ref()).map(|b| b.to_vec()).unwrap_or_default();
                            let mut o = CaseOut::new(content.clone());
                            if content.is_empty() {
                                o.diff("file-missing", format!("deletion file {path} not in the store"));
                            }
                            let want_type = match dv {
                                DeletionVector::Set(_) => DeletionFileType::Array,
                                _ => DeletionFileType::Bitmap,
                            };
                            o.eq("descriptor.file_type", &want_type, &df.file_type);
                            o.eq("descriptor.num_deleted_rows", &Some(n as usize), &df.num_deleted_rows);
                            o.eq("descriptor.read_version", &rv, &df.read_version);
                            match read_deletion_file(fid, &df, &base, &os).await {
                                Ok(dv2) => {
                                    if kind_dv(&dv2) != kind_dv(&dv) {
                                        o.diff("variant", format!("{} vector decoded as {}", kind_dv(&dv), kind_dv(&dv2)));
                                    }
                                    let a: Vec<u32> = dv.to_sorted_iter().collect();
                                    let b: Vec<u32> = dv2.to_sorted_iter().collect();
                                    if a != b || dv2 != dv {
                                        o.diff("content", format!("{variant} n={n} {pname}: {} offsets encoded, {} decoded, first difference at {:?}", a.len(), b.len(), a.iter().zip(b.iter()).position(|(x, y)| x != y)));
                                    }
                                }
                                Err(e) => o.diff("decode-error", format!("read_deletion_file failed ({variant} n={n} {pname}): {e}")),
                            }
                            o
                        })
                    },
                );
            }
        }
    }
    // NoDeletions writes nothing
    s.case(
        || "NoDeletions".to_string(),
        || {
            vds::block_on(async {
                let mut o = CaseOut::new(vec![]);
                match write_deletion_file(&base, 0, 0, &DeletionVector::NoDeletions, &os).await {
                    Ok(None) => {}
                    other => o.diff("no-deletions", format!("NoDeletions produced {other:?}")),
                }
                o
            })
        },
    );
}

fn kind_dv(d: &DeletionVector) -> &'static str {
    match d {
        DeletionVector::NoDeletions => "NoDeletions",
        DeletionVector::Set(_) => "Set",
        DeletionVector::Bitmap(_) => "Bitmap",
    }
}
