//! C32 – metadata serialisation round trips (K5, structured bounded-exhaustive enumerators).
//!
//! Every section enumerates a stated finite domain of *well-formed* values of one persisted metadata
//! type with odometers (no randomness), pushes each value through the real encode and decode path of
//! Lance (protobuf conversions + prost bytes, JSON, manifest files and deletion files on a MemStore)
//! and compares the decoded value with the original, field by field.
//!
//! Equality is strict except for the *sentinel encodings* that the storage schema itself defines
//! (proto3 scalars have no presence: `0` / `""` / empty map are the documented spelling of
//! "absent"). Those are applied to BOTH sides before comparing and every time one is exercised it is
//! counted in the evidence (`norm:*` outcomes), never hidden:
//!   tag `Some("")`≡`None`; properties / config_upsert_values / initial_bases `Some(empty)`≡`None`;
//!   physical_rows / num_deleted_rows `Some(0)`≡`None` ("0 = unknown"); update_mode `None`≡`RewriteRows`
//!   (enum default); `Rewrite.groups == []` ≡ one empty group (legacy fallback of the decoder);
//!   index `created_at` has millisecond resolution ("UTC timestamp in milliseconds since epoch").
//!
//! Replay: a case is (section, index); the enumerators are deterministic, so the artefact re-runs
//! exactly that value.

use serde_json::{json, Value};
use std::collections::BTreeMap;
use vcore::{Cov, Ctx, Outcome, Violation};

pub struct CaseOut {
    /// the encoded form (bytes written to storage); hashed for the distinct-encodings count
    pub encoded: Vec<u8>,
    /// (key suffix, description) of every field that did not survive
    pub diffs: Vec<(String, String)>,
    /// sentinel normalisations exercised by this value
    pub norms: Vec<String>,
}

impl CaseOut {
    pub fn new(encoded: Vec<u8>) -> Self {
        Self {
            encoded,
            diffs: vec![],
            norms: vec![],
        }
    }
    pub fn diff(&mut self, field: &str, what: String) {
        self.diffs.push((field.to_string(), what));
    }
    pub fn norm(&mut self, n: &str) {
        self.norms.push(n.to_string());
    }
    /// strict comparison of one field
    pub fn eq<T: PartialEq + std::fmt::Debug>(&mut self, field: &str, want: &T, got: &T) {
        if want != got {
            self.diff(field, format!("{field}: encoded {} decoded {}", short(want), short(got)));
        }
    }
    /// comparison modulo "`None` ≡ `Some(empty)`"
    pub fn eq_opt_empty<T: PartialEq + std::fmt::Debug>(
        &mut self,
        field: &str,
        want: &Option<T>,
        got: &Option<T>,
        is_empty: impl Fn(&T) -> bool,
    ) {
        let canon = |o: &Option<T>| o.as_ref().map(|v| !is_empty(v)).unwrap_or(false);
        let same = match (canon(want), canon(got)) {
            (false, false) => true,
            (true, true) => want == got,
            _ => false,
        };
        if !same {
            self.diff(field, format!("{field}: encoded {} decoded {}", short(want), short(got)));
        } else if want.is_some() != got.is_some() {
            self.norm(&format!("{field}:empty<->absent"));
        }
    }
}

pub fn short<T: std::fmt::Debug>(v: &T) -> String {
    let s = format!("{v:?}");
    if s.len() > 300 {
        format!("{}…({} chars)", &s[..s.char_indices().take_while(|(i, _)| *i < 300).last().map(|(i, c)| i + c.len_utf8()).unwrap_or(0)], s.len())
    } else {
        s
    }
}

pub struct Sec {
    pub name: &'static str,
    pub cov: Cov,
    pub viol: Vec<Violation>,
    pub idx: usize,
    pub only: Option<usize>,
}

impl Sec {
    pub fn new(name: &'static str, only: Option<usize>) -> Self {
        Self {
            name,
            cov: Cov::new(),
            viol: vec![],
            idx: 0,
            only,
        }
    }
    /// Run one enumerated value. `desc` renders the value for artefacts / samples.
    pub fn case(&mut self, desc: impl Fn() -> String, f: impl FnOnce() -> CaseOut) {
        let idx = self.idx;
        self.idx += 1;
        if let Some(o) = self.only {
            if o != idx {
                return;
            }
        }
        let case = || json!({"section": self.name, "index": idx, "value": desc()});
        let t0 = std::time::Instant::now();
        let res = vcore::catch(f);
        if t0.elapsed().as_millis() > 200 && std::env::var("VX_DEBUG").is_ok() {
            eprintln!("slow case {} #{idx}: {:?} {}", self.name, t0.elapsed(), desc().chars().take(120).collect::<String>());
        }
        match res {
            Err(p) => {
                self.cov.eval(None);
                self.cov.outcome(&format!("{}:panic", self.name));
                let site: String = p.chars().take(60).collect();
                self.viol.push(Violation::new(
                    "no-panic",
                    &format!("{}/panic/{}", self.name, site.replace(char::is_whitespace, "_")),
                    format!("{}: encode/decode panicked: {p}", self.name),
                    case(),
                ));
            }
            Ok(out) => {
                let h = if out.encoded.is_empty() {
                    None
                } else {
                    let mut b = self.name.as_bytes().to_vec();
                    b.extend_from_slice(&out.encoded);
                    Some(vcore::hash64(&b))
                };
                self.cov.eval(h);
                if idx % 211 == 3 {
                    self.cov.sample(case());
                }
                for n in &out.norms {
                    self.cov.outcome(&format!("norm:{}:{}", self.name, n));
                }
                if out.diffs.is_empty() {
                    self.cov.outcome(&format!("{}:ok", self.name));
                } else {
                    self.cov.outcome(&format!("{}:DIFF", self.name));
                }
                for (k, what) in out.diffs {
                    self.viol.push(Violation::new(
                        "roundtrip",
                        &format!("{}/{}", self.name, k),
                        format!("{}: {}", self.name, what),
                        case(),
                    ));
                }
            }
        }
    }
}

type SecFn = fn(&mut Sec, bool);

fn sections() -> Vec<(&'static str, SecFn)> {
    vec![
        ("datafile", crate::c32_fmt::datafile as SecFn),
        ("fragment", crate::c32_fmt::fragment),
        ("fragment-json", crate::c32_fmt::fragment_json),
        ("index", crate::c32_fmt::index_meta),
        ("rowids", crate::c32_seq::rowids),
        ("rowids-pb", crate::c32_seq::rowids_pb),
        ("versions", crate::c32_seq::versions),
        ("deletion", crate::c32_seq::deletion),
        ("memwal", crate::c32_fmt::memwal),
        ("refs-json", crate::c32_fmt::refs_json),
        ("txn-envelope", crate::c32_txn::envelope),
        ("txn-op", crate::c32_txn::ops),
        ("manifest", crate::c32_manifest::manifest),
    ]
}

pub fn run(ctx: &Ctx) -> Outcome {
    let mut out = Outcome::new("exploration");
    let thorough = !ctx.quick();
    if let Some(art) = ctx.replay_case() {
        let case = &art["case"];
        let name = case["section"].as_str().unwrap_or("").to_string();
        let idx = case["index"].as_u64().unwrap_or(0) as usize;
        let Some((n, f)) = sections().into_iter().find(|(n, _)| *n == name) else {
            vcore::machinery_error(&format!("replay: unknown section {name}"));
        };
        // a thorough-only index may be out of range of the quick enumeration: enumerate thorough
        let mut s = Sec::new(n, Some(idx));
        f(&mut s, true);
        if s.cov.evaluations == 0 {
            vcore::machinery_error("replay: index out of range");
        }
        out.violations = s.viol;
        s.cov.fill(&mut out, "replay of one case", false);
        return out;
    }
    let secs = sections();
    let results = vcore::par_map(secs, ctx.workers, |_, (n, f)| {
        let t = std::time::Instant::now();
        let mut s = Sec::new(n, None);
        f(&mut s, thorough);
        (s, t.elapsed().as_secs_f64())
    });
    let mut cov = Cov::new();
    let mut per: BTreeMap<String, Value> = BTreeMap::new();
    for (s, secs) in results {
        per.insert(
            s.name.to_string(),
            json!({"values": s.cov.evaluations, "distinct_encodings": s.cov.nontrivial.len(),
                   "violations": s.viol.len(), "wall_s": (secs * 1000.0).round() / 1000.0}),
        );
        // one sample per section first
        if let Some(x) = s.cov.samples.first() {
            if cov.samples.len() < 6 {
                cov.samples.push(x.clone());
            }
        }
        out.violations.extend(s.viol);
        cov.merge(s.cov);
    }
    cov.fill(
        &mut out,
        "distinct non-empty encodings (hash of section + the bytes / JSON text / file content that was persisted)",
        true,
    );
    out.set("sections", json!(per));
    out.assume("well-formedness: map keys of Manifest.base_paths equal the BasePath id; Field metadata maps have <= 1 entry in the enumerated schemas; IndexMetadata.created_at within chrono's range");
    out.assume("sentinel encodings defined by the proto3 schema (0 / \"\" / empty map = absent, enum default, ms timestamps, legacy Rewrite fallback) are applied to both sides and counted under norm:* outcomes, see module docs");
    out.assume("RowIdSequence segment payload types are private: segment kinds are reached through RowIdSequence::from(&[u64]) / extend and through hand-built protobuf messages");
    out
}
