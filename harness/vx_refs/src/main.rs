//! vx_refs: see /verif/harness/AGENTS-GUIDE.md; one module per property, dispatched on the property id.
mod c09;
mod c09_grammar;
mod c32;
mod c32_fmt;
mod c32_manifest;
mod c32_seq;
mod c32_txn;
mod c38;
mod c38_branch;

use vcore::{machinery_error, Ctx};

fn main() {
    let ctx = Ctx::from_args();
    if std::env::var("VX_DEBUG").is_err() {
        vcore::quiet_panics();
    }
    let out: vcore::Outcome = match ctx.id.as_str() {
        "C09" => c09::run(&ctx),
        "C32" => c32::run(&ctx),
        "C38" => c38::run(&ctx),
        other => machinery_error(&format!("vx_refs does not implement {other}")),
    };
    vcore::finish(&ctx, out);
}
