//! vx_refs: see /verif/harness/AGENTS-GUIDE.md; one module per property, dispatched on the property id.

use vcore::{machinery_error, Ctx};

fn main() {
    let ctx = Ctx::from_args();
    vcore::quiet_panics();
    #[allow(clippy::match_single_binding)]
    let out: vcore::Outcome = match ctx.id.as_str() {
        other => machinery_error(&format!("vx_refs does not implement {other}")),
    };
    #[allow(unreachable_code)]
    vcore::finish(&ctx, out);
}
