//! C38 – caching is transparent (differential K1).
//!
//! Every history is executed twice in lock-step on two separate MemStores:
//!   side A: ONE shared `Session::new(index_cache, metadata_cache, registry)` with capacity
//!           c in {0, tiny, large} is used for every open and every write of the 1-2 tables;
//!   side B: a fresh default `Session` for every open / write.
//! After every step both sides are observed through their own session discipline: per table the
//! op outcome, the latest version number, ordered scan with `_rowid`, `count_rows`, `take_rows` of
//! the row ids side B reports, an index-eligible filtered scan (`k = 1`), `load_indices`
//! (name, fields, fragment bitmap), `versions()`, and the ordered scan of every older version.
//! Any difference is a violation.
//!
//! A `Session` cannot be snapshotted, so the search is stateless: a state is its op list and a step
//! re-executes the history from the root on fresh stores and a fresh shared session (no state
//! de-duplication – cache content is hidden state). `vcore::seqx` drives it breadth-first, so the
//! first violation of a key is a shortest history; a violating history is not extended.

use arrow_array::RecordBatchIterator;
use lance::dataset::optimize::{compact_files, CompactionOptions};
use lance::dataset::{ReadParams, UpdateBuilder, WriteMode, WriteParams};
use lance::session::Session;
use lance::Dataset;
use lance_index::scalar::ScalarIndexParams;
use lance_index::{DatasetIndexExt, IndexType};
use lance_io::object_store::ObjectStoreRegistry;
use serde::{Deserialize, Serialize};
use serde_json::{json, Value};
use std::sync::Arc;
use vcore::seqx::{self, Caps, Step, Sut};
use vcore::{Ctx, Outcome, Violation};
use vds::cells::Cell;
use vds::{base_batch, default_rows, Env};

const URIS: [&str; 2] = ["memory://tbl", "memory://tbl2"];
const ROOTS: [&str; 2] = ["tbl/", "tbl2/"];

#[derive(Clone, Debug, Serialize, Deserialize, PartialEq)]
pub enum Op {
    Append { t: usize },
    Delete { t: usize },
    Update { t: usize },
    Overwrite { t: usize },
    Compact { t: usize },
    CreateIndex { t: usize },
    Restore { t: usize },
    /// delete every object under the table root directly in the store
    Drop { t: usize },
    /// create a new table at the same URI
    Recreate { t: usize },
}

fn kind(op: &Op) -> &'static str {
    match op {
        Op::Append { .. } => "append",
        Op::Delete { .. } => "delete",
        Op::Update { .. } => "update",
        Op::Overwrite { .. } => "overwrite",
        Op::Compact { .. } => "compact",
        Op::CreateIndex { .. } => "create_index",
        Op::Restore { .. } => "restore",
        Op::Drop { .. } => "drop",
        Op::Recreate { .. } => "recreate",
    }
}
fn table(op: &Op) -> usize {
    match op {
        Op::Append { t } | Op::Delete { t } | Op::Update { t } | Op::Overwrite { t } | Op::Compact { t } | Op::CreateIndex { t } | Op::Restore { t } | Op::Drop { t } | Op::Recreate { t } => *t,
    }
}

#[derive(Clone, Debug, Serialize, Deserialize, PartialEq)]
pub struct Cfg {
    /// "0" | "tiny" | "large"
    pub cap: String,
    pub stable: bool,
    pub tables: usize,
}

impl Cfg {
    fn label(&self) -> String {
        format!("cap={}/{}/tables={}", self.cap, if self.stable { "stable-row-ids" } else { "row-addresses" }, self.tables)
    }
    fn parse(l: &str) -> Option<Self> {
        let p: Vec<&str> = l.split('/').collect();
        Some(Self {
            cap: p.first()?.strip_prefix("cap=")?.to_string(),
            stable: *p.get(1)? == "stable-row-ids",
            tables: p.get(2)?.strip_prefix("tables=")?.parse().ok()?,
        })
    }
    fn session(&self) -> Arc<Session> {
        let (ic, mc) = match self.cap.as_str() {
            "0" => (0, 0),
            // smaller than any manifest / index entry: every insert is evicted at once or soon
            "tiny" => (2048, 2048),
            _ => (1 << 30, 1 << 30),
        };
        Arc::new(Session::new(ic, mc, Arc::new(ObjectStoreRegistry::default())))
    }
}

#[derive(Clone)]
pub struct St {
    pub cfg: Cfg,
    pub ops: Vec<Op>,
    /// per table: does it exist, how many versions has its current incarnation
    pub exists: Vec<bool>,
    pub versions: Vec<u64>,
}

struct Side {
    env: Env,
    shared: Option<Arc<Session>>,
}

impl Side {
    fn session(&self) -> Arc<Session> {
        self.shared.clone().unwrap_or_else(|| Arc::new(Session::default()))
    }
    async fn open(&self, uri: &str) -> lance::Result<Dataset> {
        self.env.open_with_session(uri, self.session()).await
    }
    async fn open_version(&self, uri: &str, v: u64) -> lance::Result<Dataset> {
        let rp = ReadParams { store_options: Some(self.env.store_params()), session: Some(self.session()), ..Default::default() };
        lance::dataset::builder::DatasetBuilder::from_uri(uri).with_read_params(rp).with_version(v).load().await
    }
    fn wparams(&self, mode: WriteMode, stable: bool) -> WriteParams {
        WriteParams {
            mode,
            store_params: Some(self.env.store_params()),
            session: Some(self.session()),
            enable_stable_row_ids: stable,
            max_rows_per_file: 1000,
            ..Default::default()
        }
    }
}

/// model of one table: uids per version (enough to choose deterministic op arguments)
#[derive(Clone, Default)]
struct TModel {
    versions: Vec<Vec<i32>>,
}

struct Run {
    cfg: Cfg,
    a: Side,
    b: Side,
    next_uid: i32,
    models: Vec<Option<TModel>>,
    /// per table: ops executed so far that restart or rewind fragment ids (overwrite / restore / recreate)
    reuse: Vec<Vec<&'static str>>,
    built: bool,
}

fn err_class(e: &lance::Error) -> String {
    vds::err_class(e)
}

/// rows written by a re-create: the root table is created with 3 rows, an explored re-create with 4, so
/// that the new fragment 0 differs from the one the dropped table had
fn recreate_rows(built: bool) -> i32 {
    if built {
        4
    } else {
        3
    }
}

async fn apply_side(s: &Side, cfg: &Cfg, op: &Op, uid0: i32, m: Option<&TModel>, built: bool) -> Result<(), String> {
    let uri = URIS[table(op)];
    let cur: Vec<i32> = m.and_then(|m| m.versions.last().cloned()).unwrap_or_default();
    let r: lance::Result<()> = async {
        match op {
            Op::Append { .. } | Op::Overwrite { .. } | Op::Recreate { .. } => {
                let (n, mode) = match op {
                    Op::Append { .. } => (2, WriteMode::Append),
                    Op::Overwrite { .. } => (3, WriteMode::Overwrite),
                    _ => (recreate_rows(built), WriteMode::Create),
                };
                let batch = base_batch(&default_rows(uid0..uid0 + n));
                let reader = RecordBatchIterator::new(vec![Ok(batch.clone())], batch.schema());
                Dataset::write(reader, uri, Some(s.wparams(mode, cfg.stable))).await.map(|_| ())
            }
            Op::Delete { .. } => {
                let mut ds = s.open(uri).await?;
                ds.delete(&format!("uid = {}", cur.iter().min().copied().unwrap_or(-1))).await
            }
            Op::Update { .. } => {
                let ds = s.open(uri).await?;
                UpdateBuilder::new(Arc::new(ds))
                    .update_where(&format!("uid = {}", cur.iter().max().copied().unwrap_or(-1)))?
                    .set("v", "'z'")?
                    .build()?
                    .execute()
                    .await
                    .map(|_| ())
            }
            Op::Compact { .. } => {
                let mut ds = s.open(uri).await?;
                compact_files(&mut ds, CompactionOptions { target_rows_per_fragment: 1_000_000, ..Default::default() }, None).await.map(|_| ())
            }
            Op::CreateIndex { .. } => {
                let mut ds = s.open(uri).await?;
                ds.create_index(&["k"], IndexType::BTree, None, &ScalarIndexParams::default(), true).await
            }
            Op::Restore { .. } => {
                let mut ds = s.open_version(uri, 1).await?;
                ds.restore().await
            }
            Op::Drop { .. } => {
                for p in s.env.store.paths_under(ROOTS[table(op)]) {
                    s.env.store.remove_raw(&p);
                }
                Ok(())
            }
        }
    }
    .await;
    r.map_err(|e| err_class(&e))
}

fn rows_json(rows: &[Vec<Cell>]) -> Value {
    json!(rows.iter().map(|r| format!("{r:?}")).collect::<Vec<_>>())
}

/// observe one table through the side's session discipline; `ids` = row ids to take
async fn observe(s: &Side, uri: &str, ids: Option<&[u64]>) -> (Value, Vec<u64>) {
    let mut o = serde_json::Map::new();
    let mut rowids = vec![];
    let ds = match s.open(uri).await {
        Ok(d) => d,
        Err(e) => {
            o.insert("open".into(), json!(format!("error:{}", err_class(&e))));
            return (Value::Object(o), rowids);
        }
    };
    let latest = ds.version().version;
    o.insert("version".into(), json!(latest));
    match vds::scan_cells(&ds, true, false).await {
        Ok((cols, rows)) => {
            let ix = cols.iter().position(|c| c == "_rowid");
            if let Some(ix) = ix {
                rowids = rows.iter().filter_map(|r| r[ix].as_i64().map(|x| x as u64).or(match &r[ix] { Cell::U(u) => Some(*u), _ => None })).collect();
            }
            o.insert("scan+rowid".into(), rows_json(&rows));
        }
        Err(e) => {
            o.insert("scan+rowid".into(), json!(format!("error:{}", err_class(&e))));
        }
    }
    o.insert("count_rows".into(), match ds.count_rows(None).await { Ok(n) => json!(n), Err(e) => json!(format!("error:{}", err_class(&e))) });
    o.insert("filter-scan(k=1)".into(), match vds::scan_filter_cells(&ds, "k = 1").await { Ok(r) => rows_json(&r), Err(e) => json!(format!("error:{}", err_class(&e))) });
    let take_ids: Vec<u64> = ids.map(|i| i.to_vec()).unwrap_or_else(|| rowids.clone());
    o.insert(
        "take_rows".into(),
        match ds.take_rows(&take_ids, ds.schema().clone()).await {
            Ok(b) => rows_json(&vds::cells::batch_rows(&b)),
            Err(e) => json!(format!("error:{}", err_class(&e))),
        },
    );
    o.insert(
        "load_indices".into(),
        match ds.load_indices().await {
            Ok(ix) => {
                let mut v: Vec<String> = ix.iter().map(|i| format!("{}:{:?}:v{}:{:?}", i.name, i.fields, i.dataset_version, i.fragment_bitmap.as_ref().map(|b| b.iter().collect::<Vec<u32>>()))).collect();
                v.sort();
                json!(v)
            }
            Err(e) => json!(format!("error:{}", err_class(&e))),
        },
    );
    let versions: Vec<u64> = match ds.versions().await {
        Ok(v) => v.iter().map(|x| x.version).collect(),
        Err(e) => {
            o.insert("versions".into(), json!(format!("error:{}", err_class(&e))));
            vec![]
        }
    };
    if !o.contains_key("versions") {
        o.insert("versions".into(), json!(versions));
    }
    // older versions (time travel through the same session)
    for v in versions.iter().filter(|v| **v != latest).take(6) {
        let val = match s.open_version(uri, *v).await {
            Ok(d) => match vds::scan_cells(&d, true, false).await {
                Ok((_, rows)) => rows_json(&rows),
                Err(e) => json!(format!("error:{}", err_class(&e))),
            },
            Err(e) => json!(format!("error:{}", err_class(&e))),
        };
        o.insert(format!("scan+rowid@v{v}"), val);
    }
    (Value::Object(o), rowids)
}

impl Run {
    async fn new(cfg: &Cfg) -> Result<Self, String> {
        let mut run = Self {
            cfg: cfg.clone(),
            a: Side { env: Env::new(), shared: Some(cfg.session()) },
            b: Side { env: Env::new(), shared: None },
            next_uid: 0,
            models: vec![None; cfg.tables],
            reuse: vec![vec![]; cfg.tables],
            built: false,
        };
        for t in 0..cfg.tables {
            // every table starts as: create (3 rows) + append (2 rows)
            for op in [Op::Recreate { t }, Op::Append { t }] {
                let d = run.step(&op).await;
                if let Some((k, w)) = d {
                    return Err(format!("root construction differs already: {k}: {w}"));
                }
            }
        }
        run.built = true;
        Ok(run)
    }

    /// apply `op` on both sides, observe every table on both sides; returns the first difference
    async fn step(&mut self, op: &Op) -> Option<(String, String)> {
        let t = table(op);
        let uid0 = self.next_uid;
        let ra = apply_side(&self.a, &self.cfg, op, uid0, self.models[t].as_ref(), self.built).await;
        let rb = apply_side(&self.b, &self.cfg, op, uid0, self.models[t].as_ref(), self.built).await;
        // model (arguments only)
        let cur: Vec<i32> = self.models[t].as_ref().and_then(|m| m.versions.last().cloned()).unwrap_or_default();
        if rb.is_ok() {
            match op {
                Op::Append { .. } => {
                    let mut n = cur.clone();
                    n.extend(uid0..uid0 + 2);
                    self.next_uid += 2;
                    self.models[t].as_mut().unwrap().versions.push(n);
                }
                Op::Overwrite { .. } => {
                    self.next_uid += 3;
                    self.models[t].as_mut().unwrap().versions.push((uid0..uid0 + 3).collect());
                }
                Op::Recreate { .. } => {
                    let n = recreate_rows(self.built);
                    self.next_uid += n;
                    self.models[t] = Some(TModel { versions: vec![(uid0..uid0 + n).collect()] });
                }
                Op::Delete { .. } => {
                    let mn = cur.iter().min().copied();
                    self.models[t].as_mut().unwrap().versions.push(cur.iter().copied().filter(|u| Some(*u) != mn).collect());
                }
                Op::Update { .. } | Op::Compact { .. } | Op::CreateIndex { .. } => self.models[t].as_mut().unwrap().versions.push(cur.clone()),
                Op::Restore { .. } => {
                    let v1 = self.models[t].as_ref().unwrap().versions[0].clone();
                    self.models[t].as_mut().unwrap().versions.push(v1);
                }
                Op::Drop { .. } => self.models[t] = None,
            }
        }
        let k = kind(op);
        if self.built && matches!(op, Op::Overwrite { .. } | Op::Restore { .. } | Op::Recreate { .. }) && !self.reuse[t].contains(&k) {
            self.reuse[t].push(k);
        }
        let tag = if self.cfg.stable { "stable-row-ids" } else { "row-addresses" };
        if ra != rb {
            return Some((format!("op-outcome/{k}/{tag}"), format!("{op:?}: shared session -> {ra:?}, fresh sessions -> {rb:?}")));
        }
        for tt in 0..self.cfg.tables {
            let (ob, ids) = observe(&self.b, URIS[tt], None).await;
            let (oa, _) = observe(&self.a, URIS[tt], Some(&ids)).await;
            if oa != ob {
                let (ma, mb) = (oa.as_object().cloned().unwrap_or_default(), ob.as_object().cloned().unwrap_or_default());
                let mut keys: Vec<&String> = ma.keys().chain(mb.keys()).collect();
                keys.sort();
                keys.dedup();
                // report the first differing observable in a fixed priority order
                let order = ["open", "version", "versions", "count_rows", "scan+rowid", "take_rows", "filter-scan(k=1)", "load_indices"];
                let mut diffs: Vec<&String> = keys.into_iter().filter(|x| ma.get(*x) != mb.get(*x)).collect();
                diffs.sort_by_key(|d| order.iter().position(|o| o == d).unwrap_or(99));
                let d = diffs[0];
                // classification: which class of observable differs, is the table on stable row ids, which
                // fragment-id restarting ops (overwrite / restore / recreate) has the table seen, and is it
                // the table the last op ran on
                let obs = if d.starts_with("scan+rowid") || d == "take_rows" { "rowid-observables".to_string() } else { d.clone() };
                let which = if tt == t { "same-table" } else { "other-table" };
                // the strongest restart the table has seen (each alone suffices to reuse fragment ids)
                let reuse = ["overwrite", "recreate", "restore"].iter().find(|r| self.reuse[tt].contains(r)).copied().unwrap_or("none");
                // root-cause class: row-id observables of a stable-row-id table that has seen a fragment-id
                // restarting op = stale `row_id_sequence/{fragment_id}` cache entry
                let key = if obs == "rowid-observables" && self.cfg.stable && reuse != "none" && tt == t {
                    "rowid-observables/stable-row-ids/stale-row-id-sequence-after-fragment-id-reuse".to_string()
                } else {
                    format!("{obs}/{tag}/frag-id-restart={reuse}/{which}")
                };
                return Some((
                    key,
                    format!(
                        "after {op:?} table {tt} [{}; fragment-id restarting ops seen: {reuse}]: {d}: shared session = {} ; fresh sessions = {} (all differing observables: {diffs:?})",
                        self.cfg.label(),
                        cut(&ma.get(d).cloned().unwrap_or(Value::Null).to_string()),
                        cut(&mb.get(d).cloned().unwrap_or(Value::Null).to_string())
                    ),
                ));
            }
        }
        None
    }
}

fn cut(s: &str) -> String {
    s.chars().take(300).collect()
}

pub struct Caching {
    pub cfgs: Vec<Cfg>,
    pub executions: std::sync::atomic::AtomicU64,
}

impl Sut for Caching {
    type State = St;
    type Op = Op;

    fn init(&self) -> Vec<(String, St)> {
        self.cfgs.iter().map(|c| (c.label(), St { cfg: c.clone(), ops: vec![], exists: vec![true; c.tables], versions: vec![2; c.tables] })).collect()
    }

    fn ops(&self, st: &St, _depth: usize) -> Vec<Op> {
        let mut v = vec![];
        for t in 0..st.cfg.tables {
            if st.exists[t] {
                v.push(Op::Overwrite { t });
                v.push(Op::Append { t });
                v.push(Op::Delete { t });
                v.push(Op::Update { t });
                v.push(Op::Compact { t });
                v.push(Op::CreateIndex { t });
                v.push(Op::Restore { t });
                v.push(Op::Drop { t });
            } else {
                v.push(Op::Recreate { t });
            }
        }
        v
    }

    fn step(&self, st: &St, op: &Op) -> Step<St> {
        self.executions.fetch_add(1, std::sync::atomic::Ordering::Relaxed);
        let r = vds::run_catch(async {
            let mut run = match Run::new(&st.cfg).await {
                Ok(r) => r,
                Err(e) => return Some(("root".to_string(), e)),
            };
            for o in &st.ops {
                // the prefix was explored before and showed no difference; it is re-executed (with all
                // observations, which are part of what warms the caches) to rebuild the session state
                if let Some((k, w)) = run.step(o).await {
                    return Some((format!("nondeterministic-prefix/{k}"), format!("a prefix that passed before now differs: {w}")));
                }
            }
            run.step(op).await
        });
        let k = kind(op);
        match r {
            Err(p) => Step { next: None, outcome: "panic".into(), violations: vec![Violation::new("no-panic", &format!("{k}/panic"), format!("{op:?} panicked: {}", cut(&p)), json!({}))] },
            Ok(Some((key, what))) => Step { next: None, outcome: "DIFF".into(), violations: vec![Violation::new("shared-vs-fresh-session", &key, what, json!({}))] },
            Ok(None) => {
                let mut n = st.clone();
                n.ops.push(op.clone());
                let t = table(op);
                match op {
                    Op::Drop { .. } => {
                        n.exists[t] = false;
                        n.versions[t] = 0;
                    }
                    Op::Recreate { .. } => {
                        n.exists[t] = true;
                        n.versions[t] = 1;
                    }
                    _ => n.versions[t] += 1,
                }
                Step::ok(n, "same")
            }
        }
    }

    fn canon(&self, st: &St) -> u64 {
        vcore::hash64(format!("{}|{:?}", st.cfg.label(), st.ops).as_bytes())
    }

    fn op_kind(&self, op: &Op) -> String {
        kind(op).to_string()
    }
}

pub fn run(ctx: &Ctx) -> Outcome {
    let mut out = Outcome::new("model_checking");
    if let Some(art) = ctx.replay_case() {
        let case = &art["case"];
        if let Some(cap) = case["root"].as_str().and_then(|r| r.strip_prefix("branch-profile/cap=")) {
            let cap: &'static str = match cap {
                "0" => "0",
                "tiny" => "tiny",
                _ => "large",
            };
            let sut = crate::c38_branch::BranchCaching { caps: vec![cap], executions: Default::default() };
            match seqx::replay(&sut, case) {
                Ok(v) => out.violations = v,
                Err(e) => vcore::machinery_error(&format!("replay: {e}")),
            }
            out.set("states", 1u64).set("transitions", 1u64).set("traces_validated_against_impl", 1u64).set("samples", json!([case]));
            return out;
        }
        let cfg = case["root"].as_str().and_then(Cfg::parse).unwrap_or_else(|| vcore::machinery_error("replay: bad root label"));
        let sut = Caching { cfgs: vec![cfg], executions: Default::default() };
        match seqx::replay(&sut, case) {
            Ok(v) => out.violations = v,
            Err(e) => vcore::machinery_error(&format!("replay: {e}")),
        }
        out.set("states", 1u64).set("transitions", 1u64).set("traces_validated_against_impl", 1u64).set("samples", json!([case]));
        return out;
    }
    let caps3 = ["0", "tiny", "large"];
    let mk = |caps: &[&str], stables: &[bool], tables: usize| -> Vec<Cfg> {
        let mut v = vec![];
        for c in caps {
            for s in stables {
                v.push(Cfg { cap: c.to_string(), stable: *s, tables });
            }
        }
        v
    };
    // (configs, depth, wall)
    let plan: Vec<(Vec<Cfg>, usize, f64)> = if ctx.quick() {
        vec![
            (mk(&["0"], &[true, false], 1), 1, 5.0),
            (mk(&["large", "tiny"], &[true, false], 1), 2, 24.0),
            (mk(&["large"], &[true, false], 2), 1, 8.0),
        ]
    } else {
        vec![(mk(&caps3, &[true, false], 1), 3, 330.0), (mk(&caps3, &[true, false], 2), 2, 220.0), (mk(&["large", "tiny"], &[false, true], 1), 4, 280.0)]
    };
    let mut total = seqx::Report::default();
    let mut profiles = vec![];
    let mut execs = 0u64;
    for (cfgs, depth, wall) in plan {
        let depth = ctx.opts.get("depth").and_then(|d| d.parse().ok()).unwrap_or(depth);
        let labels: Vec<String> = cfgs.iter().map(|c| c.label()).collect();
        let sut = Caching { cfgs, executions: Default::default() };
        let rep = seqx::explore(&sut, &Caps { max_depth: depth, max_states: 5_000_000, wall_s: wall }, ctx.workers);
        profiles.push(json!({"roots": labels, "depth_bound": depth, "max_depth": rep.max_depth, "level_sizes": rep.level_sizes, "histories": rep.transitions, "cap_hit": rep.cap_hit,
                             "bound_completed": if rep.cap_hit.is_none() { rep.max_depth } else { rep.max_depth.saturating_sub(1) }}));
        execs += sut.executions.load(std::sync::atomic::Ordering::Relaxed);
        total.merge(rep);
    }
    // branch profile: two branches sharing version numbers, dev reached through side A's long-lived main handle
    {
        let (caps, depth, wall): (Vec<&'static str>, usize, f64) = if ctx.quick() { (vec!["large"], 3, 14.0) } else { (vec!["large", "tiny", "0"], 4, 150.0) };
        let sut = crate::c38_branch::BranchCaching { caps: caps.clone(), executions: Default::default() };
        let rep = seqx::explore(&sut, &Caps { max_depth: depth, max_states: 5_000_000, wall_s: wall }, ctx.workers);
        profiles.push(json!({"roots": caps.iter().map(|c| format!("branch-profile/cap={c}")).collect::<Vec<_>>(), "depth_bound": depth, "max_depth": rep.max_depth, "level_sizes": rep.level_sizes, "histories": rep.transitions, "cap_hit": rep.cap_hit,
                             "alphabet": ["create_branch(dev from main v1)", "append on dev", "create_index on dev", "append on main", "create_index on main", "checkout_branch(dev) through the main handle"],
                             "bound_completed": if rep.cap_hit.is_none() { rep.max_depth } else { rep.max_depth.saturating_sub(1) }}));
        execs += sut.executions.load(std::sync::atomic::Ordering::Relaxed);
        total.merge(rep);
    }
    out.violations.extend(total.violations.iter().cloned());
    total.fill(&mut out);
    out.set("profiles", json!(profiles));
    out.set("lockstep_executions", execs);
    out.set("alphabet", json!(["overwrite", "append", "delete(uid=min)", "update(v='z' where uid=max)", "compact", "create_index(k,btree)", "restore(v1)", "drop(all objects under root)", "recreate(same uri)"]));
    out.assume("every table starts as create(3 rows)+append(2 rows) executed through the same session discipline as the history");
    out.assume("the search is stateless (a Session cannot be snapshotted): states are op lists, no de-duplication; a violating history is not extended, so defects that need a prefix containing an already-violating op are not reached");
    out.assume("tiny capacity = 2048 bytes per cache (below the size of one manifest); 0 = caching disabled; large = 1 GiB");
    out
}
