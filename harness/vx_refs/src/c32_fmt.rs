//! C32 sections: DataFile / Fragment / DeletionFile descriptors, IndexMetadata, MemWAL details,
//! tag / branch JSON. Also the value pools shared with the transaction and manifest sections.

use crate::c32::{short, CaseOut, Sec};
use chrono::{DateTime, TimeZone, Utc};
use lance::dataset::refs::{BranchContents, TagContents};
use lance_index::mem_wal::{MemWal, MemWalId, MemWalIndexDetails, State};
use lance_table::format::{
    pb, DataFile, DeletionFile, DeletionFileType, ExternalFile, Fragment, IndexMetadata,
    RowDatasetVersionMeta, RowDatasetVersionSequence, RowIdMeta,
};
use lance_table::rowids::segment::U64Segment;
use lance_table::rowids::{write_row_ids, RowIdSequence};
use prost::Message;
use roaring::RoaringBitmap;
use std::num::NonZero;
use std::sync::Arc;
use uuid::Uuid;
use vcore::smallx::product;

// ------------------------------------------------------------------------------------------------
// domains

fn paths() -> Vec<String> {
    vec!["".into(), "a.lance".into(), "data/ü x.lance".into()]
}
fn field_lists() -> Vec<Vec<i32>> {
    vec![vec![], vec![0], vec![0, 1], vec![-1, i32::MAX]]
}
fn col_lists() -> Vec<Vec<i32>> {
    vec![vec![], vec![0], vec![0, -1]]
}
fn sizes() -> Vec<Option<NonZero<u64>>> {
    vec![None, NonZero::new(1), NonZero::new(u64::MAX)]
}
pub fn base_ids() -> Vec<Option<u32>> {
    vec![None, Some(0), Some(u32::MAX)]
}

pub fn datafiles(all: bool) -> Vec<DataFile> {
    let (p, f, c, s, b) = (paths(), field_lists(), col_lists(), sizes(), base_ids());
    let majors = [0u32, 2];
    let minors = [0u32, 3, u32::MAX];
    let mut v = vec![];
    product(&[p.len(), f.len(), c.len(), 2, 3, s.len(), b.len()], |ix| {
        v.push(DataFile::new(
            p[ix[0]].clone(),
            f[ix[1]].clone(),
            c[ix[2]].clone(),
            majors[ix[3]],
            minors[ix[4]],
            s[ix[5]],
            b[ix[6]],
        ));
        true
    });
    if !all {
        // the two pool members used inside larger values
        return vec![v[0].clone(), v[v.len() - 1].clone()];
    }
    v
}

pub fn deletion_files() -> Vec<DeletionFile> {
    let mut v = vec![];
    let rv = [0u64, 1, u64::MAX];
    let ids = [0u64, u64::MAX];
    let nd = [None, Some(0usize), Some(1), Some(usize::MAX)];
    let b = base_ids();
    product(&[3, 2, 2, 4, 3], |ix| {
        v.push(DeletionFile {
            read_version: rv[ix[0]],
            id: ids[ix[1]],
            file_type: if ix[2] == 0 { DeletionFileType::Array } else { DeletionFileType::Bitmap },
            num_deleted_rows: nd[ix[3]],
            base_id: b[ix[4]],
        });
        true
    });
    v
}

fn ext(i: u64) -> ExternalFile {
    ExternalFile {
        path: format!("_rowids/{i}.bin"),
        offset: i,
        size: u64::MAX - i,
    }
}

pub fn row_id_metas() -> Vec<Option<RowIdMeta>> {
    vec![
        None,
        Some(RowIdMeta::Inline(vec![])),
        Some(RowIdMeta::Inline(write_row_ids(&RowIdSequence::from(0..5)))),
        Some(RowIdMeta::External(ext(3))),
    ]
}

pub fn version_metas() -> Vec<Option<RowDatasetVersionMeta>> {
    vec![
        None,
        Some(RowDatasetVersionMeta::from_sequence(&RowDatasetVersionSequence::from_uniform_row_count(5, 3)).unwrap()),
        Some(RowDatasetVersionMeta::External(ext(9))),
    ]
}

/// three fragments used as collection elements: minimal, full inline, full external
pub fn frag_pool() -> Vec<Fragment> {
    let dfs = datafiles(false);
    let f0 = Fragment::new(0);
    let f1 = Fragment {
        id: 7,
        files: vec![dfs[1].clone(), dfs[0].clone()],
        deletion_file: Some(DeletionFile {
            read_version: 4,
            id: u64::MAX,
            file_type: DeletionFileType::Bitmap,
            num_deleted_rows: Some(3),
            base_id: Some(2),
        }),
        row_id_meta: row_id_metas()[2].clone(),
        physical_rows: Some(10),
        last_updated_at_version_meta: version_metas()[1].clone(),
        created_at_version_meta: version_metas()[2].clone(),
    };
    let f2 = Fragment {
        id: u64::MAX >> 1,
        files: vec![dfs[1].clone()],
        deletion_file: Some(DeletionFile {
            read_version: 0,
            id: 0,
            file_type: DeletionFileType::Array,
            num_deleted_rows: None,
            base_id: None,
        }),
        row_id_meta: row_id_metas()[3].clone(),
        physical_rows: Some(1),
        last_updated_at_version_meta: None,
        created_at_version_meta: version_metas()[1].clone(),
    };
    vec![f0, f1, f2]
}

/// {empty, one, two}-element collections (both orders of the pair) over the first two pool members,
/// plus a pair with the third
pub fn colls<T: Clone>(pool: &[T]) -> Vec<Vec<T>> {
    let mut v = vec![
        vec![],
        vec![pool[0].clone()],
        vec![pool[1].clone()],
        vec![pool[0].clone(), pool[1].clone()],
        vec![pool[1].clone(), pool[0].clone()],
    ];
    if pool.len() > 2 {
        v.push(vec![pool[2].clone(), pool[1].clone()]);
    }
    v
}

pub fn colls3<T: Clone>(pool: &[T]) -> Vec<Vec<T>> {
    vec![vec![], vec![pool[0].clone()], vec![pool[1].clone(), pool[0].clone()]]
}

fn any(i: usize) -> Option<prost_types::Any> {
    match i {
        0 => None,
        1 => Some(prost_types::Any {
            type_url: "".into(),
            value: vec![],
        }),
        _ => Some(prost_types::Any {
            type_url: "/lance.table.BTreeIndexDetails".into(),
            value: vec![1, 2, 0, 255],
        }),
    }
}

pub fn bitmaps() -> Vec<Option<RoaringBitmap>> {
    vec![
        None,
        Some(RoaringBitmap::new()),
        Some(RoaringBitmap::from_iter([0u32])),
        Some(RoaringBitmap::from_iter([0u32, 5, 1 << 31, u32::MAX])),
        Some(RoaringBitmap::from_iter(0u32..70_000)),
    ]
}

/// (value, has sub-millisecond part)
fn created_ats() -> Vec<(Option<DateTime<Utc>>, bool)> {
    vec![
        (None, false),
        (Some(Utc.timestamp_millis_opt(0).unwrap()), false),
        (Some(Utc.timestamp_millis_opt(1_700_000_000_123).unwrap()), false),
        (Some(Utc.timestamp_millis_opt(-1).unwrap()), false),
        (Some(Utc.timestamp_nanos(1_700_000_000_123_456_789)), true),
    ]
}

pub fn index_pool() -> Vec<IndexMetadata> {
    let i0 = IndexMetadata {
        uuid: Uuid::nil(),
        fields: vec![],
        name: "".into(),
        dataset_version: 0,
        fragment_bitmap: None,
        index_details: None,
        index_version: 0,
        created_at: None,
        base_id: None,
    };
    let i1 = IndexMetadata {
        uuid: Uuid::from_u128(0x1234_5678_9abc_def0_0fed_cba9_8765_4321),
        fields: vec![1, 2],
        name: "k_idx ü".into(),
        dataset_version: u64::MAX,
        fragment_bitmap: bitmaps()[3].clone(),
        index_details: any(2).map(Arc::new),
        index_version: i32::MAX,
        created_at: created_ats()[2].0,
        base_id: Some(3),
    };
    vec![i0, i1]
}

pub fn memwal_pool() -> Vec<MemWal> {
    let m0 = MemWal::new_empty(MemWalId::new("", 0), "", "", "");
    let m1 = MemWal {
        id: MemWalId::new("region/ü", u64::MAX),
        mem_table_location: "memory://t/_mem/1".into(),
        wal_location: "memory://t/_wal/1".into(),
        wal_entries: pb::U64Segment::from(U64Segment::from_slice(&[1, 5, 9, 70_000])).encode_to_vec(),
        state: State::Merged,
        owner_id: "owner-1".into(),
        last_updated_dataset_version: u64::MAX,
    };
    vec![m0, m1]
}

// ------------------------------------------------------------------------------------------------
// comparisons

pub fn cmp_datafile(o: &mut CaseOut, pre: &str, a: &DataFile, b: &DataFile) {
    o.eq(&format!("{pre}path"), &a.path, &b.path);
    o.eq(&format!("{pre}fields"), &a.fields, &b.fields);
    o.eq(&format!("{pre}column_indices"), &a.column_indices, &b.column_indices);
    o.eq(&format!("{pre}file_major_version"), &a.file_major_version, &b.file_major_version);
    o.eq(&format!("{pre}file_minor_version"), &a.file_minor_version, &b.file_minor_version);
    o.eq(&format!("{pre}file_size_bytes"), &a.file_size_bytes.get(), &b.file_size_bytes.get());
    o.eq(&format!("{pre}base_id"), &a.base_id, &b.base_id);
}

/// `Some(0)` is the storage spelling of "unknown" for row counts
fn eq_zero_unknown(o: &mut CaseOut, field: &str, a: &Option<usize>, b: &Option<usize>) {
    let canon = |x: &Option<usize>| match x {
        Some(0) => None,
        v => *v,
    };
    if canon(a) != canon(b) {
        o.diff(field, format!("{field}: encoded {a:?} decoded {b:?}"));
    } else if a != b {
        o.norm(&format!("{field}:Some(0)<->None"));
    }
}

pub fn cmp_fragment(o: &mut CaseOut, a: &Fragment, b: &Fragment) {
    o.eq("id", &a.id, &b.id);
    if a.files.len() != b.files.len() {
        o.diff("files", format!("files: {} encoded, {} decoded", a.files.len(), b.files.len()));
    } else {
        for (x, y) in a.files.iter().zip(b.files.iter()) {
            cmp_datafile(o, "files.", x, y);
        }
    }
    match (&a.deletion_file, &b.deletion_file) {
        (None, None) => {}
        (Some(x), Some(y)) => {
            o.eq("deletion_file.read_version", &x.read_version, &y.read_version);
            o.eq("deletion_file.id", &x.id, &y.id);
            o.eq("deletion_file.file_type", &x.file_type, &y.file_type);
            eq_zero_unknown(o, "deletion_file.num_deleted_rows", &x.num_deleted_rows, &y.num_deleted_rows);
            o.eq("deletion_file.base_id", &x.base_id, &y.base_id);
        }
        (x, y) => o.diff("deletion_file", format!("deletion_file: encoded {x:?} decoded {y:?}")),
    }
    o.eq("row_id_meta", &a.row_id_meta, &b.row_id_meta);
    eq_zero_unknown(o, "physical_rows", &a.physical_rows, &b.physical_rows);
    o.eq("last_updated_at_version_meta", &a.last_updated_at_version_meta, &b.last_updated_at_version_meta);
    o.eq("created_at_version_meta", &a.created_at_version_meta, &b.created_at_version_meta);
}

/// ordered comparison of fragment lists; true when equal modulo the row-count sentinel
pub fn frags_equal(a: &[Fragment], b: &[Fragment], norms: &mut Vec<String>) -> bool {
    if a.len() != b.len() {
        return false;
    }
    for (x, y) in a.iter().zip(b.iter()) {
        let mut o = CaseOut::new(vec![]);
        cmp_fragment(&mut o, x, y);
        if !o.diffs.is_empty() {
            return false;
        }
        norms.extend(o.norms);
    }
    true
}

pub fn cmp_index(o: &mut CaseOut, pre: &str, a: &IndexMetadata, b: &IndexMetadata) {
    o.eq(&format!("{pre}uuid"), &a.uuid, &b.uuid);
    o.eq(&format!("{pre}fields"), &a.fields, &b.fields);
    o.eq(&format!("{pre}name"), &a.name, &b.name);
    o.eq(&format!("{pre}dataset_version"), &a.dataset_version, &b.dataset_version);
    if a.fragment_bitmap != b.fragment_bitmap {
        o.diff(
            &format!("{pre}fragment_bitmap"),
            format!(
                "fragment_bitmap: encoded {:?} decoded {:?}",
                a.fragment_bitmap.as_ref().map(|b| b.len()),
                b.fragment_bitmap.as_ref().map(|b| b.len())
            ),
        );
    }
    o.eq(&format!("{pre}index_details"), &a.index_details, &b.index_details);
    o.eq(&format!("{pre}index_version"), &a.index_version, &b.index_version);
    // millisecond resolution by format definition
    let ms = |d: &Option<DateTime<Utc>>| d.map(|d| d.timestamp_millis());
    if ms(&a.created_at) != ms(&b.created_at) {
        o.diff(&format!("{pre}created_at"), format!("created_at: encoded {:?} decoded {:?}", a.created_at, b.created_at));
    } else if a.created_at != b.created_at {
        o.norm("created_at:sub-millisecond-truncated");
    }
    o.eq(&format!("{pre}base_id"), &a.base_id, &b.base_id);
}

pub fn indices_equal(a: &[IndexMetadata], b: &[IndexMetadata]) -> bool {
    a.len() == b.len()
        && a.iter().zip(b.iter()).all(|(x, y)| {
            let mut o = CaseOut::new(vec![]);
            cmp_index(&mut o, "", x, y);
            o.diffs.is_empty()
        })
}

// ------------------------------------------------------------------------------------------------
// sections

pub fn datafile(s: &mut Sec, _thorough: bool) {
    for df in datafiles(true) {
        s.case(
            || short(&df),
            || {
                let bytes = pb::DataFile::from(&df).encode_to_vec();
                let mut o = CaseOut::new(bytes.clone());
                match pb::DataFile::decode(bytes.as_slice()).map_err(|e| e.to_string()).and_then(|p| DataFile::try_from(p).map_err(|e| e.to_string())) {
                    Ok(d2) => cmp_datafile(&mut o, "", &df, &d2),
                    Err(e) => o.diff("decode-error", format!("decode failed: {e}")),
                }
                o
            },
        );
    }
}

fn roundtrip_fragment(f: &Fragment) -> CaseOut {
    let bytes = pb::DataFragment::from(f).encode_to_vec();
    let mut o = CaseOut::new(bytes.clone());
    match pb::DataFragment::decode(bytes.as_slice()).map_err(|e| e.to_string()).and_then(|p| Fragment::try_from(p).map_err(|e| e.to_string())) {
        Ok(f2) => cmp_fragment(&mut o, f, &f2),
        Err(e) => o.diff("decode-error", format!("decode failed: {e}")),
    }
    o
}

fn fragments(thorough: bool) -> Vec<Fragment> {
    let dfs = datafiles(false);
    let ids = [0u64, 1, u64::MAX];
    let files = [vec![], vec![dfs[0].clone()], vec![dfs[1].clone(), dfs[0].clone()]];
    let all_del = deletion_files();
    // product part: 5 deletion files; the whole deletion-file domain is swept on one fixed fragment below
    let mut dels: Vec<Option<DeletionFile>> = vec![None];
    for i in [0usize, 7, 60, all_del.len() - 1] {
        dels.push(Some(all_del[i].clone()));
    }
    let rim = row_id_metas();
    let pr = [None, Some(0usize), Some(1), Some(usize::MAX)];
    let vm = version_metas();
    let mut v = vec![];
    product(&[3, 3, dels.len(), rim.len(), 4, vm.len(), vm.len()], |ix| {
        v.push(Fragment {
            id: ids[ix[0]],
            files: files[ix[1]].clone(),
            deletion_file: dels[ix[2]].clone(),
            row_id_meta: rim[ix[3]].clone(),
            physical_rows: pr[ix[4]],
            last_updated_at_version_meta: vm[ix[5]].clone(),
            created_at_version_meta: vm[ix[6]].clone(),
        });
        true
    });
    for d in all_del {
        let mut f = frag_pool()[1].clone();
        f.deletion_file = Some(d);
        v.push(f);
    }
    let _ = thorough;
    v
}

pub fn fragment(s: &mut Sec, thorough: bool) {
    for f in fragments(thorough) {
        s.case(|| short(&f), || roundtrip_fragment(&f));
    }
}

/// `Fragment` JSON (serde) form, used by the commit APIs that pass fragments between processes
pub fn fragment_json(s: &mut Sec, thorough: bool) {
    for f in fragments(thorough) {
        s.case(
            || short(&f),
            || {
                let txt = serde_json::to_string(&f).unwrap_or_default();
                let mut o = CaseOut::new(txt.clone().into_bytes());
                match Fragment::from_json(&txt) {
                    Ok(f2) => {
                        // JSON can represent Some(0): strict
                        if f2 != f {
                            let mut t = CaseOut::new(vec![]);
                            cmp_fragment(&mut t, &f, &f2);
                            if t.diffs.is_empty() {
                                o.diff("row-count-sentinel", format!("json: encoded {} decoded {}", short(&f), short(&f2)));
                            }
                            o.diffs.extend(t.diffs);
                        }
                    }
                    Err(e) => o.diff("decode-error", format!("from_json failed: {e}")),
                }
                o
            },
        );
    }
}

pub fn index_meta(s: &mut Sec, thorough: bool) {
    let uuids = [Uuid::nil(), Uuid::max(), Uuid::from_u128(0x1234_5678_9abc_def0_0fed_cba9_8765_4321)];
    let fields = [vec![], vec![0], vec![1, i32::MAX]];
    let names = ["", "idx", "ü idx"];
    let dvs = [0u64, 1, u64::MAX, (1 << 63) | 5];
    let bms = bitmaps();
    let ivs = [0i32, 1, -1, i32::MAX];
    let cas = created_ats();
    let bids = base_ids();
    // quick: the 70 000-entry bitmap only with the first uuid/name (it dominates the run time)
    product(&[3, 3, 3, 4, bms.len(), 3, 4, cas.len(), 3], |ix| {
        if !thorough && ix[4] == 4 && (ix[0] != 0 || ix[2] != 0 || ix[1] != 0) {
            return true;
        }
        let im = IndexMetadata {
            uuid: uuids[ix[0]],
            fields: fields[ix[1]].clone(),
            name: names[ix[2]].to_string(),
            dataset_version: dvs[ix[3]],
            fragment_bitmap: bms[ix[4]].clone(),
            index_details: any(ix[5]).map(Arc::new),
            index_version: ivs[ix[6]],
            created_at: cas[ix[7]].0,
            base_id: bids[ix[8]],
        };
        s.case(
            || format!("{:?} bitmap_len={:?}", IndexMetadata { fragment_bitmap: None, ..im.clone() }, im.fragment_bitmap.as_ref().map(|b| b.len())),
            || {
                let bytes = pb::IndexMetadata::from(&im).encode_to_vec();
                let mut o = CaseOut::new(bytes.clone());
                match pb::IndexMetadata::decode(bytes.as_slice()).map_err(|e| e.to_string()).and_then(|p| IndexMetadata::try_from(p).map_err(|e| e.to_string())) {
                    Ok(i2) => cmp_index(&mut o, "", &im, &i2),
                    Err(e) => o.diff("decode-error", format!("decode failed: {e}")),
                }
                o
            },
        );
        true
    });
}

pub fn memwal(s: &mut Sec, _thorough: bool) {
    let regions = ["", "r", "region/ü"];
    let gens = [0u64, 1, u64::MAX];
    let locs = ["", "memory://t/_mem/1"];
    let entries: Vec<Vec<u8>> = vec![
        vec![],
        pb::U64Segment::from(U64Segment::Range(0..0)).encode_to_vec(),
        pb::U64Segment::from(U64Segment::from_slice(&[1, 5, 9, 70_000])).encode_to_vec(),
        pb::U64Segment::from(U64Segment::from_slice(&[9, 1, 5])).encode_to_vec(),
    ];
    let states = [State::Open, State::Sealed, State::Flushed, State::Merged];
    let owners = ["", "owner-1"];
    let luv = [0u64, u64::MAX];
    let mut all = vec![];
    product(&[3, 3, 2, 2, entries.len(), 4, 2, 2], |ix| {
        all.push(MemWal {
            id: MemWalId::new(regions[ix[0]], gens[ix[1]]),
            mem_table_location: locs[ix[2]].into(),
            wal_location: locs[ix[3]].into(),
            wal_entries: entries[ix[4]].clone(),
            state: states[ix[5]].clone(),
            owner_id: owners[ix[6]].into(),
            last_updated_dataset_version: luv[ix[7]],
        });
        true
    });
    // single MemWal: protobuf and JSON forms
    for m in &all {
        s.case(
            || short(m),
            || {
                let bytes = pb::mem_wal_index_details::MemWal::from(m).encode_to_vec();
                let mut o = CaseOut::new(bytes.clone());
                match pb::mem_wal_index_details::MemWal::decode(bytes.as_slice()).map_err(|e| e.to_string()).and_then(|p| MemWal::try_from(p).map_err(|e| e.to_string())) {
                    Ok(m2) => cmp_memwal(&mut o, "", m, &m2),
                    Err(e) => o.diff("decode-error", format!("decode failed: {e}")),
                }
                let txt = serde_json::to_string(m).unwrap_or_default();
                match serde_json::from_str::<MemWal>(&txt) {
                    Ok(m2) => cmp_memwal(&mut o, "json.", m, &m2),
                    Err(e) => o.diff("json.decode-error", format!("json decode failed: {e}")),
                }
                o
            },
        );
    }
    // index details: lists of 0, 1, 2, 3 entries (every adjacent window of the enumeration)
    let mut lists: Vec<Vec<MemWal>> = vec![vec![]];
    for w in 1..=3usize {
        for i in (0..all.len() - w).step_by(7) {
            lists.push(all[i..i + w].to_vec());
        }
    }
    for l in lists {
        let d = MemWalIndexDetails { mem_wal_list: l };
        s.case(
            || short(&d),
            || {
                let bytes = pb::MemWalIndexDetails::from(&d).encode_to_vec();
                let mut o = CaseOut::new(bytes.clone());
                match pb::MemWalIndexDetails::decode(bytes.as_slice()).map_err(|e| e.to_string()).and_then(|p| MemWalIndexDetails::try_from(p).map_err(|e| e.to_string())) {
                    Ok(d2) => o.eq("details.mem_wal_list", &d.mem_wal_list, &d2.mem_wal_list),
                    Err(e) => o.diff("decode-error", format!("decode failed: {e}")),
                }
                o
            },
        );
    }
}

pub fn cmp_memwal(o: &mut CaseOut, pre: &str, a: &MemWal, b: &MemWal) {
    o.eq(&format!("{pre}id"), &a.id, &b.id);
    o.eq(&format!("{pre}mem_table_location"), &a.mem_table_location, &b.mem_table_location);
    o.eq(&format!("{pre}wal_location"), &a.wal_location, &b.wal_location);
    o.eq(&format!("{pre}wal_entries"), &a.wal_entries, &b.wal_entries);
    o.eq(&format!("{pre}state"), &a.state, &b.state);
    o.eq(&format!("{pre}owner_id"), &a.owner_id, &b.owner_id);
    o.eq(&format!("{pre}last_updated_dataset_version"), &a.last_updated_dataset_version, &b.last_updated_dataset_version);
}

/// tag / branch files: exactly the serde calls of refs.rs (`to_string_pretty` / `from_str`)
pub fn refs_json(s: &mut Sec, _thorough: bool) {
    let branches = [None, Some(""), Some("a"), Some("a/b-c_1.x"), Some("é")];
    let versions = [0u64, 1, u64::MAX, (1 << 63) | 7, (1 << 53) + 1];
    let sizes = [0usize, 1, usize::MAX, (1 << 53) + 1];
    let times = [0u64, 1_700_000_000, u64::MAX];
    product(&[branches.len(), versions.len(), sizes.len()], |ix| {
        let t = TagContents {
            branch: branches[ix[0]].map(String::from),
            version: versions[ix[1]],
            manifest_size: sizes[ix[2]],
        };
        s.case(
            || short(&t),
            || {
                let txt = serde_json::to_string_pretty(&t).unwrap_or_default();
                let mut o = CaseOut::new(txt.clone().into_bytes());
                match serde_json::from_str::<TagContents>(&txt) {
                    Ok(t2) => {
                        o.eq("tag.branch", &t.branch, &t2.branch);
                        o.eq("tag.version", &t.version, &t2.version);
                        o.eq("tag.manifest_size", &t.manifest_size, &t2.manifest_size);
                    }
                    Err(e) => o.diff("tag.decode-error", format!("decode failed: {e}")),
                }
                o
            },
        );
        true
    });
    product(&[branches.len(), versions.len(), times.len(), sizes.len()], |ix| {
        let b = BranchContents {
            parent_branch: branches[ix[0]].map(String::from),
            parent_version: versions[ix[1]],
            create_at: times[ix[2]],
            manifest_size: sizes[ix[3]],
        };
        s.case(
            || short(&b),
            || {
                let txt = serde_json::to_string_pretty(&b).unwrap_or_default();
                let mut o = CaseOut::new(txt.clone().into_bytes());
                match serde_json::from_str::<BranchContents>(&txt) {
                    Ok(b2) => {
                        o.eq("branch.parent_branch", &b.parent_branch, &b2.parent_branch);
                        o.eq("branch.parent_version", &b.parent_version, &b2.parent_version);
                        o.eq("branch.create_at", &b.create_at, &b2.create_at);
                        o.eq("branch.manifest_size", &b.manifest_size, &b2.manifest_size);
                    }
                    Err(e) => o.diff("branch.decode-error", format!("decode failed: {e}")),
                }
                o
            },
        );
        true
    });
}
