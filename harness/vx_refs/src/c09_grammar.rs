//! C09 (a): name grammar. Every string of <= 4 tokens over the token alphabet of DESIGN §4 C09 is
//! given to `check_valid_branch` / `check_valid_tag` and to an independent implementation of the
//! rules documented in docs/src/format/table/branch_tag.md (written as character scanners, not with
//! the split/contains calls of refs.rs). In addition every string of <= 2 tokens is pushed through the
//! real API on a real table (tag create/get/delete; branch create/list/checkout/delete): the API must
//! accept exactly the valid names and an accepted name must resolve back to itself.

use lance::dataset::refs::{check_valid_branch, check_valid_tag};
use serde_json::json;
use vcore::{Cov, Violation};
use vds::{block_on, create_base, layout, Env, TableOpts, URI};

pub const TOKENS: [&str; 13] = ["a", "B", "7", "é", ".", "-", "_", "/", "\\", " ", "..", ".lock", "main"];

fn name_char(c: char) -> bool {
    // "alphanumeric characters, `.`, `-`, `_`" – alphanumeric read as Unicode alphanumeric (assumption
    // recorded in the evidence; the docs do not say ASCII)
    c.is_alphanumeric() || c == '.' || c == '-' || c == '_'
}

/// documented branch rules 1-7; returns the number of the first violated rule
pub fn ref_branch(s: &str) -> Result<(), u8> {
    let cs: Vec<char> = s.chars().collect();
    if cs.is_empty() {
        return Err(1);
    }
    if cs[0] == '/' || cs[cs.len() - 1] == '/' {
        return Err(2);
    }
    for w in cs.windows(2) {
        if w[0] == '/' && w[1] == '/' {
            return Err(3);
        }
    }
    for (i, c) in cs.iter().enumerate() {
        if *c == '\\' || (*c == '.' && i + 1 < cs.len() && cs[i + 1] == '.') {
            return Err(4);
        }
    }
    for c in &cs {
        if *c != '/' && !name_char(*c) {
            return Err(5);
        }
    }
    let lock: Vec<char> = ".lock".chars().collect();
    if cs.len() >= lock.len() && cs[cs.len() - lock.len()..] == lock[..] {
        return Err(6);
    }
    if cs == ['m', 'a', 'i', 'n'] {
        return Err(7);
    }
    Ok(())
}

/// documented tag rules 1-5
pub fn ref_tag(s: &str) -> Result<(), u8> {
    let cs: Vec<char> = s.chars().collect();
    if cs.is_empty() {
        return Err(1);
    }
    if cs.iter().any(|c| !name_char(*c)) {
        return Err(2);
    }
    if cs[0] == '.' || cs[cs.len() - 1] == '.' {
        return Err(3);
    }
    let lock: Vec<char> = ".lock".chars().collect();
    if cs.len() >= lock.len() && cs[cs.len() - lock.len()..] == lock[..] {
        return Err(4);
    }
    if cs.windows(2).any(|w| w[0] == '.' && w[1] == '.') {
        return Err(5);
    }
    Ok(())
}

pub fn strings(max_tokens: usize) -> Vec<String> {
    let mut out = vec![];
    for seq in vcore::smallx::sequences(TOKENS.len(), 0, max_tokens) {
        out.push(seq.iter().map(|i| TOKENS[*i]).collect::<String>());
    }
    out
}

pub struct GrammarReport {
    pub cov: Cov,
    pub violations: Vec<Violation>,
}

pub fn run_pure(only: Option<&str>) -> GrammarReport {
    let mut cov = Cov::new();
    let mut violations = vec![];
    let all = match only {
        Some(s) => vec![s.to_string()],
        None => strings(4),
    };
    for s in all {
        let special = s.chars().any(|c| !c.is_alphanumeric());
        cov.eval(if special { Some(vcore::hash64(s.as_bytes())) } else { None });
        for (kind, want, got) in [
            ("branch", ref_branch(&s), vcore::catch(|| check_valid_branch(&s).is_ok())),
            ("tag", ref_tag(&s), vcore::catch(|| check_valid_tag(&s).is_ok())),
        ] {
            match got {
                Err(p) => violations.push(Violation::new(
                    "grammar-no-panic",
                    &format!("grammar/{kind}/panic"),
                    format!("check_valid_{kind}({s:?}) panicked: {p}"),
                    json!({"kind": "grammar", "string": s}),
                )),
                Ok(g) => {
                    cov.outcome(&format!("grammar:{kind}:{}", match (&want, g) {
                        (Ok(()), true) => "accepted".to_string(),
                        (Err(r), false) => format!("rejected-rule-{r}"),
                        _ => "MISMATCH".to_string(),
                    }));
                    if want.is_ok() != g {
                        let key = match want {
                            Ok(()) => format!("grammar/{kind}/rejects-valid"),
                            Err(r) => format!("grammar/{kind}/accepts-invalid-rule-{r}"),
                        };
                        violations.push(Violation::new(
                            "grammar",
                            &key,
                            format!("check_valid_{kind}({s:?}) = {} but the documented rules say {:?}", if g { "Ok" } else { "Err" }, want),
                            json!({"kind": "grammar", "string": s}),
                        ));
                    }
                }
            }
        }
        if cov.evaluations % 5003 == 7 {
            cov.sample(json!({"string": s, "branch": format!("{:?}", ref_branch(&s)), "tag": format!("{:?}", ref_tag(&s))}));
        }
    }
    GrammarReport { cov, violations }
}

/// API level: all strings of <= 2 tokens through tags / branches of a real table.
pub fn run_api(only: Option<&str>, workers: usize) -> GrammarReport {
    let all = match only {
        Some(s) => vec![s.to_string()],
        None => strings(2),
    };
    let base = {
        let env = Env::new();
        block_on(create_base(&env, URI, &layout("L1"), &TableOpts::default())).expect("base table");
        env.store.snapshot()
    };
    let chunks = vcore::smallx::chunks(&all, workers.max(1) * 2);
    let parts = vcore::par_map(chunks, workers, |_, chunk| {
        let mut cov = Cov::new();
        let mut violations = vec![];
        let mut memstore_only: Vec<String> = vec![];
        for s in chunk {
            let env = Env::from_store(vstore::MemStore::from_snapshot(&base));
            let r = vds::run_catch(api_case(&env, &s));
            cov.eval(Some(vcore::hash64(s.as_bytes())));
            match r {
                Err(p) => violations.push(Violation::new(
                    "grammar-api-no-panic",
                    "grammar-api/panic",
                    format!("ref API panicked on name {s:?}: {p}"),
                    json!({"kind": "grammar-api", "string": s}),
                )),
                Ok(problems) => {
                    // cross-check on object_store's InMemory store: a problem that only shows on the
                    // harness store would be a harness defect, not a finding
                    let problems = if problems.iter().any(|(k, _)| !k.starts_with("obs:")) {
                        let again = vds::run_catch(api_case_inmemory(&s)).unwrap_or_default();
                        let keys: Vec<&String> = again.iter().map(|(k, _)| k).collect();
                        let (kept, dropped): (Vec<_>, Vec<_>) = problems.into_iter().partition(|(k, _)| k.starts_with("obs:") || keys.contains(&k));
                        for (k, w) in dropped {
                            cov.outcome(&format!("grammar-api:MEMSTORE-ONLY:{k}"));
                            memstore_only.push(format!("{k}: {w}"));
                        }
                        kept
                    } else {
                        problems
                    };
                    // class of the string: a different kind of name failing is a different finding
                    let class = if !s.is_ascii() { "non-ascii" } else if s.split('/').any(|seg| seg == ".") { "dot-segment" } else { "ascii" };
                    for (k, what) in problems {
                        // root-cause class: the validators accept names the storage layer cannot address
                        // consistently (non-ASCII alphanumerics are percent-encoded by Path::child but not by
                        // Path::parse; a "." segment is illegal in object_store paths)
                        let k = if k.starts_with("obs:") {
                            k
                        } else if class != "ascii" {
                            "grammar/accepted-name-not-addressable-in-storage".to_string()
                        } else {
                            format!("{k}/{class}")
                        };
                        if let Some(o) = k.strip_prefix("obs:") {
                            cov.outcome(&format!("grammar-api:{o}"));
                            continue;
                        }
                        violations.push(Violation::new("grammar-api", &k, what, json!({"kind": "grammar-api", "string": s})));
                    }
                }
            }
        }
        (cov, violations, memstore_only)
    });
    let mut cov = Cov::new();
    let mut violations = vec![];
    for (c, v, m) in parts {
        cov.merge(c);
        violations.extend(v);
        if let Some(first) = m.first() {
            vcore::machinery_error(&format!("ref API problem reproduces on the harness MemStore but not on object_store::InMemory: {first}"));
        }
    }
    GrammarReport { cov, violations }
}

/// the same case on object_store's own InMemory store (no harness store involved): one handle on a
/// `memory://` table created with default parameters
async fn api_case_inmemory(s: &str) -> Vec<(String, String)> {
    let batch = vds::base_batch(&vds::default_rows(0..3));
    let reader = arrow_array::RecordBatchIterator::new(vec![Ok(batch.clone())], batch.schema());
    match lance::Dataset::write(reader, "memory://c09grammar", None).await {
        Ok(ds) => api_case_on(ds, None, s).await,
        Err(e) => vec![("grammar-api/open".into(), format!("cannot create the InMemory base table: {e}"))],
    }
}

async fn api_case(env: &Env, s: &str) -> Vec<(String, String)> {
    match env.open(URI).await {
        Ok(d) => api_case_on(d, Some(&env.store), s).await,
        Err(e) => vec![("grammar-api/open".into(), format!("cannot open base table: {e}"))],
    }
}

async fn api_case_on(mut ds: lance::Dataset, store: Option<&vstore::MemStore>, s: &str) -> Vec<(String, String)> {
    let mut out = vec![];
    // tags
    let want = ref_tag(s).is_ok();
    match ds.tags().create(s, 1).await {
        Ok(()) => {
            if !want {
                out.push(("grammar-api/tag/accepts-invalid".to_string(), format!("tags().create({s:?}) accepted an invalid name")));
            }
            match ds.tags().get(s).await {
                Ok(t) if t.version == 1 && t.branch.is_none() => {}
                other => out.push(("grammar-api/tag/does-not-resolve".to_string(), format!("tag {s:?} created on main@1 resolves to {other:?}"))),
            }
            match ds.tags().list().await {
                Ok(l) if l.len() == 1 && l.contains_key(s) => {}
                other => out.push(("grammar-api/tag/list".to_string(), format!("tag {s:?}: list() = {:?}", other.map(|m| m.keys().cloned().collect::<Vec<_>>())))),
            }
            if let Err(e) = ds.tags().delete(s).await {
                out.push(("grammar-api/tag/delete".to_string(), format!("tag {s:?} cannot be deleted: {e}")));
            }
        }
        Err(e) => {
            if want {
                out.push(("grammar-api/tag/rejects-valid".to_string(), format!("tags().create({s:?}) failed for a valid name: {e}")));
            }
        }
    }
    // branches
    let want = ref_branch(s).is_ok();
    match ds.create_branch(s, 1u64, None).await {
        Ok(b) => {
            if !want {
                out.push(("grammar-api/branch/accepts-invalid".to_string(), format!("create_branch({s:?}) accepted an invalid name")));
            }
            if b.manifest().branch.as_deref() != Some(s) {
                out.push(("grammar-api/branch/manifest-name".to_string(), format!("branch {s:?}: manifest says {:?}", b.manifest().branch)));
            }
            match ds.list_branches().await {
                Ok(l) if l.len() == 1 && l.contains_key(s) => {}
                other => out.push(("grammar-api/branch/list".to_string(), format!("branch {s:?}: list_branches() = {:?}", other.map(|m| m.keys().cloned().collect::<Vec<_>>())))),
            }
            match ds.checkout_branch(s).await {
                Ok(b2) => match vds::scan_base(&b2).await {
                    Ok(rows) if rows == vds::default_rows(0..3) => {}
                    other => out.push(("grammar-api/branch/read".to_string(), format!("branch {s:?} reads {other:?}"))),
                },
                Err(e) => out.push(("grammar-api/branch/checkout".to_string(), format!("branch {s:?} cannot be checked out: {e}"))),
            }
            if let Err(e) = ds.delete_branch(s).await {
                out.push(("grammar-api/branch/delete".to_string(), format!("branch {s:?} cannot be deleted: {e}")));
            }
            let left = store.map(|st| st.paths_under("tbl/tree/")).unwrap_or_default();
            if !left.is_empty() {
                // not promised by the property (a leak, not a loss): recorded as an observation
                out.push(("obs:delete_branch-leaves-own-files".to_string(), format!("delete_branch({s:?}) as the only branch left {left:?}")));
            }
        }
        Err(e) => {
            if want {
                out.push(("grammar-api/branch/rejects-valid".to_string(), format!("create_branch({s:?}) failed for a valid name: {e}")));
            }
        }
    }
    out
}
