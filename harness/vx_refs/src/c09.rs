//! C09 – branches, tags and shallow clones are isolated references.
//!
//! (a) name grammar: see `c09_grammar.rs` (reported inside the same evidence under `grammar`).
//! (b) histories (K1, `vcore::seqx`): level-synchronous exhaustive search over op sequences on a real
//!     table whose every URI / branch directory / clone root lives in one MemStore.
//!
//! Refs are named by strings: `""` = main, a branch by its name, a clone by `clone:<n>`.
//! Model = for every ref the expected rows of every version (computed by the harness from the op
//! semantics: a new branch / clone from (p, v) expects rows(p, v)) plus the `vds::snap` recorded when
//! the version was first read; tags -> (branch, version); lineage (who was created from whom).
//!
//! Oracles after EVERY op:
//!  * every live ref at every version it is expected to have reads exactly its recorded snapshot
//!    (rows, schema, deletions, config, indices) – the ref the op ran on included;
//!  * the version the op produced reads the model's expected rows;
//!  * every tag resolves (`tags().get`) to the exact (branch, version) and `checkout_version(tag)`
//!    reads that snapshot; `list_branches()` is exactly the live branch set with the right parents;
//!  * `delete_branch(b)`: MemStore path diff – every removed or modified object lies under b's own
//!    directory `tree/<b>/` (and not under a longer live branch's directory) or is b's ref file.
//!
//! Not judged (enabled never / counted only): deleting a branch that still has tags or descendants
//! (branches / clones created from it) – those references dangle by construction.

use crate::c09_grammar;
use lance::dataset::cleanup::{cleanup_old_versions, CleanupPolicy};
use lance::dataset::optimize::{compact_files, CompactionOptions};
use lance::dataset::WriteParams;
use lance::Dataset;
use serde::{Deserialize, Serialize};
use serde_json::json;
use std::collections::{BTreeMap, BTreeSet};
use vcore::seqx::{self, Caps, Step, Sut};
use vcore::{Ctx, Outcome, Violation};
use vds::{base_batch, block_on, default_rows, snap, snap_diff, Env, MRow, TableOpts, VersionSnap, URI};
use vstore::{MemStore, Snapshot};

/// directory names Lance uses inside a table / branch root
const INTERNAL_DIRS: [&str; 5] = ["data", "_versions", "_deletions", "_indices", "_transactions"];

pub const NAMES: [&str; 7] = ["a", "ab", "a/b", "a/bc", "adata", "a/data", "a_versions"];

#[derive(Clone, Debug, Serialize, Deserialize, PartialEq)]
pub enum Op {
    /// create branch `name` from (`parent`, `version`) – or from tag `by_tag` – through a handle checked out on `via`
    CreateBranch { name: String, parent: String, version: u64, by_tag: Option<String>, via: String },
    Append { on: String },
    Delete { on: String },
    Compact { on: String },
    TagCreate { tag: String, on: String, version: u64 },
    TagUpdate { tag: String, on: String, version: u64 },
    TagDelete { tag: String },
    DeleteBranch { name: String },
    /// shallow clone of (`from`, `version`) to a new root through a handle checked out on `via`
    ShallowClone { from: String, version: u64, via: String },
    /// cleanup keeping only the latest (and tagged) versions of `on`; `aged`: objects are made 8 days
    /// old and delete_unverified=false, otherwise delete_unverified=true
    Cleanup { on: String, aged: bool },
}

#[derive(Clone, Debug, Serialize, Deserialize, PartialEq, Eq, Hash)]
pub struct RefModel {
    /// version -> expected rows
    pub rows: BTreeMap<u64, Vec<MRow>>,
    /// version -> snapshot recorded when first read (must never change)
    pub snaps: BTreeMap<u64, VersionSnap>,
    pub latest: u64,
    /// (parent ref, version) this ref was created from
    pub origin: Option<(String, u64)>,
}

#[derive(Clone, Debug, Serialize, Deserialize, PartialEq, Eq, Hash, Default)]
pub struct Model {
    pub refs: BTreeMap<String, RefModel>,
    pub tags: BTreeMap<String, (String, u64)>,
    pub next_uid: i32,
    pub clones: u32,
    /// deleted branches whose directory was left behind -> why (the name cannot be re-created;
    /// not promised by the property, so only counted)
    pub zombies: BTreeMap<String, String>,
}

/// objects a read depended on: exact paths it GET/HEADed and prefixes it listed
#[derive(Clone, Default, Debug)]
pub struct ReadSet {
    pub gets: BTreeSet<String>,
    pub lists: BTreeSet<String>,
}

impl ReadSet {
    fn affected_by(&self, changed: &[String]) -> bool {
        changed.iter().any(|p| self.gets.contains(p) || self.lists.iter().any(|l| p.starts_with(l.as_str())))
    }
    fn from_log(log: Vec<vstore::OpRec>) -> Self {
        let mut r = Self::default();
        for rec in log {
            match rec.call.verb {
                vstore::Verb::List | vstore::Verb::ListDelim => {
                    r.lists.insert(rec.call.path);
                }
                _ => {
                    r.gets.insert(rec.call.path);
                }
            }
        }
        r
    }
}

/// Read sets of the oracle's reads (not part of the canonical state).
#[derive(Clone, Default)]
pub struct Reads {
    pub ver: BTreeMap<(String, u64), ReadSet>,
    pub latest: BTreeMap<String, ReadSet>,
    pub refs: Option<ReadSet>,
}

async fn logged<T>(env: &Env, f: impl std::future::Future<Output = T>) -> (T, ReadSet) {
    env.store.enable_log(true);
    let _ = env.store.take_log();
    let r = f.await;
    let log = env.store.take_log();
    env.store.enable_log(false);
    (r, ReadSet::from_log(log))
}

#[derive(Clone)]
pub struct St {
    pub store: Snapshot,
    pub model: Model,
    pub reads: std::sync::Arc<Reads>,
}

pub struct Profile {
    pub label: &'static str,
    /// narrow alphabet: create_branch (from main's latest), append, delete_branch, cleanup only
    pub names_only: bool,
    pub names: Vec<&'static str>,
    pub tags: Vec<&'static str>,
    pub max_branches: usize,
    pub max_clones: u32,
    pub compact: bool,
    pub cleanup_aged: bool,
    pub roots: Vec<&'static str>,
}

pub struct Refs {
    pub profile: Profile,
    /// true: re-read only the (ref, version) pairs whose read set intersects the objects the op
    /// added / removed / modified (independence argument, see `run`); false: re-read everything
    pub filtered: bool,
    pub skipped: std::sync::atomic::AtomicU64,
    pub reread: std::sync::atomic::AtomicU64,
}

fn is_clone(r: &str) -> bool {
    r.starts_with("clone:")
}
fn clone_uri(r: &str) -> String {
    format!("memory://{}", r.replace(':', "_"))
}
fn branch_dir(b: &str) -> String {
    format!("tbl/tree/{b}/")
}

pub async fn open_ref(env: &Env, r: &str) -> lance::Result<Dataset> {
    if r.is_empty() {
        env.open(URI).await
    } else if is_clone(r) {
        env.open(&clone_uri(r)).await
    } else {
        env.open(URI).await?.checkout_branch(r).await
    }
}

pub async fn open_ref_version(env: &Env, r: &str, v: u64) -> lance::Result<Dataset> {
    if r.is_empty() {
        env.open_version(URI, v).await
    } else if is_clone(r) {
        env.open_version(&clone_uri(r), v).await
    } else {
        env.open(URI).await?.checkout_version((r, v)).await
    }
}

fn wparams(env: &Env) -> WriteParams {
    let mut p = env.write_params(lance::dataset::WriteMode::Append);
    p.max_rows_per_file = 1000;
    p
}

impl Model {
    fn live_branches(&self) -> Vec<String> {
        self.refs.keys().filter(|r| !r.is_empty() && !is_clone(r)).cloned().collect()
    }
    fn descendants_of(&self, r: &str) -> Vec<String> {
        let mut out: Vec<String> = vec![];
        let mut grew = true;
        while grew {
            grew = false;
            for (name, m) in &self.refs {
                if let Some((p, _)) = &m.origin {
                    if (p == r || out.contains(p)) && !out.contains(name) && name != r {
                        out.push(name.clone());
                        grew = true;
                    }
                }
            }
        }
        out
    }
    fn tags_on(&self, r: &str) -> Vec<String> {
        self.tags.iter().filter(|(_, (b, _))| b == r).map(|(t, _)| t.clone()).collect()
    }
}

/// Layout collision root cause: the op's branch lives in an internal directory of another live branch
/// (`<other>/data`, `<other>/_versions`, ...) – then every ref the op breaks is a victim of that collision
/// (the other branch itself or anything that references its files) – or the victim (or one of its
/// ancestors, whose files it references) lives in an internal directory of the op's branch.
fn layout_collision(model: &Model, actor: &str, victim: &str) -> bool {
    if actor.is_empty() || is_clone(actor) {
        return false;
    }
    let inside = |inner: &str, outer: &str| INTERNAL_DIRS.iter().any(|d| inner == format!("{outer}/{d}"));
    if model.live_branches().iter().any(|other| inside(actor, other)) {
        return true;
    }
    // victim and its ancestors
    let mut cur = victim.to_string();
    for _ in 0..8 {
        if inside(&cur, actor) {
            return true;
        }
        match model.refs.get(&cur).and_then(|m| m.origin.clone()) {
            Some((p, _)) if !p.is_empty() => cur = p,
            _ => break,
        }
    }
    false
}

/// relation of a victim ref to the ref an op ran on (for classification keys)
fn relation(model: &Model, kind: &str, actor: &str, victim: &str) -> String {
    if actor == victim {
        return "self".into();
    }
    let lineage = if model.descendants_of(actor).iter().any(|d| d == victim) {
        "descendant"
    } else if model.descendants_of(victim).iter().any(|d| d == actor) {
        "ancestor"
    } else {
        "unrelated"
    };
    let names = if actor.is_empty() || victim.is_empty() || is_clone(actor) || is_clone(victim) {
        "other-root"
    } else if INTERNAL_DIRS.iter().any(|d| victim == format!("{actor}/{d}")) {
        "victim-named-like-internal-dir-of-actor"
    } else if INTERNAL_DIRS.iter().any(|d| actor == format!("{victim}/{d}")) {
        "actor-named-like-internal-dir-of-victim"
    } else if victim.starts_with(&format!("{actor}/")) {
        "nested-under-actor"
    } else if actor.starts_with(&format!("{victim}/")) {
        "actor-nested-under-victim"
    } else if actor.chars().next() == victim.chars().next() {
        "char-prefix"
    } else {
        "disjoint-name"
    };
    // lineage matters only where shared files are the mechanism (cleanup of a source)
    if kind == "cleanup" {
        if lineage == "descendant" && !names.contains("internal-dir") {
            // shared files are the mechanism; the name relation is irrelevant
            "descendant".to_string()
        } else {
            format!("{lineage}/{names}")
        }
    } else {
        names.to_string()
    }
}

/// Read every expected (ref, version) (all of them, or those whose read set is touched by `changed`);
/// returns (victim ref, version, problem) and the number of (skipped, re-read) pairs.
async fn check_all(env: &Env, model: &Model, reads: &mut Reads, changed: Option<&[String]>) -> (Vec<(String, u64, String)>, u64, u64) {
    let mut out = vec![];
    let (mut skipped, mut reread) = (0u64, 0u64);
    for (r, m) in &model.refs {
        for (v, want) in &m.snaps {
            let key = (r.clone(), *v);
            if let (Some(ch), Some(rs)) = (changed, reads.ver.get(&key)) {
                if !rs.affected_by(ch) {
                    skipped += 1;
                    continue;
                }
            }
            reread += 1;
            let (res, rs) = logged(env, async {
                match open_ref_version(env, r, *v).await {
                    Err(e) => Some(format!("cannot be opened any more: {}", first_line(&e.to_string()))),
                    Ok(ds) => match snap(&ds).await {
                        Err(e) => Some(format!("cannot be read any more: {}", first_line(&e.to_string()))),
                        Ok(s) => {
                            if s.version != *v {
                                Some(format!("opened version reports {}", s.version))
                            } else {
                                snap_diff(want, &s).map(|d| format!("reads differently: {}", cut(&d)))
                            }
                        }
                    },
                }
            })
            .await;
            reads.ver.insert(key, rs);
            if let Some(p) = res {
                out.push((r.clone(), *v, p));
            }
        }
        // the latest pointer
        if let (Some(ch), Some(rs)) = (changed, reads.latest.get(r)) {
            if !rs.affected_by(ch) {
                skipped += 1;
                continue;
            }
        }
        reread += 1;
        let (res, rs) = logged(env, async {
            match open_ref(env, r).await {
                Ok(ds) => {
                    if ds.version().version != m.latest {
                        Some(format!("latest version is {} (expected {})", ds.version().version, m.latest))
                    } else {
                        None
                    }
                }
                Err(e) => Some(format!("latest cannot be opened: {}", first_line(&e.to_string()))),
            }
        })
        .await;
        reads.latest.insert(r.clone(), rs);
        if let Some(p) = res {
            out.push((r.clone(), m.latest, p));
        }
    }
    reads.ver.retain(|(r, v), _| model.refs.get(r).map(|m| m.snaps.contains_key(v)).unwrap_or(false));
    reads.latest.retain(|r, _| model.refs.contains_key(r));
    (out, skipped, reread)
}

fn first_line(s: &str) -> String {
    cut(s.lines().next().unwrap_or(""))
}
fn cut(s: &str) -> String {
    s.chars().take(260).collect()
}

async fn check_tags_and_branches(env: &Env, model: &Model) -> Vec<(String, String)> {
    let mut out = vec![];
    let main = match env.open(URI).await {
        Ok(d) => d,
        Err(e) => return vec![("refs/main-unreadable".into(), format!("main cannot be opened: {e}"))],
    };
    // tags
    match main.tags().list().await {
        Ok(l) => {
            let got: BTreeMap<String, (String, u64)> = l.iter().map(|(k, t)| (k.clone(), (t.branch.clone().unwrap_or_default(), t.version))).collect();
            if got != model.tags {
                out.push(("tags/list".into(), format!("tags().list() = {got:?}, expected {:?}", model.tags)));
            }
        }
        Err(e) => out.push(("tags/list-error".into(), format!("tags().list() failed: {e}"))),
    }
    for (t, (b, v)) in &model.tags {
        match main.tags().get(t).await {
            Ok(c) => {
                if c.branch.clone().unwrap_or_default() != *b || c.version != *v {
                    out.push(("tags/get".into(), format!("tag {t} resolves to ({:?}, {}), expected ({b:?}, {v})", c.branch, c.version)));
                }
            }
            Err(e) => out.push(("tags/get-error".into(), format!("tags().get({t}) failed: {e}"))),
        }
        let Some(want) = model.refs.get(b).and_then(|m| m.snaps.get(v)) else { continue };
        match main.checkout_version(t.as_str()).await {
            Ok(ds) => match snap(&ds).await {
                Ok(s) => {
                    if let Some(d) = snap_diff(want, &s) {
                        out.push(("tags/checkout-reads-differently".into(), format!("checkout_version(tag {t} -> ({b:?},{v})) {}", cut(&d))));
                    }
                }
                Err(e) => out.push(("tags/checkout-unreadable".into(), format!("tag {t} -> ({b:?},{v}) cannot be read: {}", first_line(&e.to_string())))),
            },
            Err(e) => out.push(("tags/checkout-error".into(), format!("checkout_version(tag {t} -> ({b:?},{v})) failed: {}", first_line(&e.to_string())))),
        }
    }
    // branches
    match main.list_branches().await {
        Ok(l) => {
            let got: BTreeMap<String, (String, u64)> = l.iter().map(|(k, c)| (k.clone(), (c.parent_branch.clone().unwrap_or_default(), c.parent_version))).collect();
            let want: BTreeMap<String, (String, u64)> = model
                .live_branches()
                .into_iter()
                .map(|b| {
                    let o = model.refs[&b].origin.clone().unwrap_or_default();
                    (b, o)
                })
                .collect();
            if got != want {
                out.push(("branches/list".into(), format!("list_branches() = {got:?}, expected {want:?}")));
            }
        }
        Err(e) => out.push(("branches/list-error".into(), format!("list_branches() failed: {e}"))),
    }
    out
}

/// objects (removed, modified, added) between two snapshots
fn changed_paths(before: &Snapshot, after: &Snapshot) -> (Vec<String>, Vec<String>, Vec<String>) {
    let a: BTreeMap<String, u64> = after.iter().map(|(p, e)| (p, e.e_tag)).collect();
    let mut removed = vec![];
    let mut modified = vec![];
    let mut seen = BTreeSet::new();
    for (p, e) in before.iter() {
        match a.get(&p) {
            None => removed.push(p.clone()),
            Some(t) if *t != e.e_tag => modified.push(p.clone()),
            _ => {}
        }
        seen.insert(p);
    }
    let added = a.keys().filter(|p| !seen.contains(*p)).cloned().collect();
    (removed, modified, added)
}

impl Refs {
    fn root_state(&self, label: &str) -> St {
        let env = Env::new();
        let mut model = Model::default();
        block_on(async {
            // main: v1 = uids 0..3, v2 = + uids 3..5 (two fragments, two versions)
            let o = TableOpts::default();
            vds::create_base(&env, URI, &[0..3, 3..5], &o).await.expect("base");
            let mut rm = RefModel { rows: BTreeMap::new(), snaps: BTreeMap::new(), latest: 2, origin: None };
            rm.rows.insert(1, default_rows(0..3));
            rm.rows.insert(2, default_rows(0..5));
            for v in [1u64, 2] {
                let ds = env.open_version(URI, v).await.expect("open");
                rm.snaps.insert(v, snap(&ds).await.expect("snap"));
            }
            model.refs.insert(String::new(), rm);
            model.next_uid = 5;
        });
        let mut st = St { store: env.store.snapshot(), model, reads: Default::default() };
        if label == "main+a+a/data" {
            // as main+a, plus branch `a/data` (whose directory is `a`'s data directory) with its own append
            for op in [
                Op::CreateBranch { name: "a".into(), parent: "".into(), version: 2, by_tag: None, via: "".into() },
                Op::Append { on: "a".into() },
                Op::CreateBranch { name: "a/data".into(), parent: "".into(), version: 2, by_tag: None, via: "".into() },
                Op::Append { on: "a/data".into() },
            ] {
                let s = self.step(&st, &op);
                assert!(s.violations.is_empty(), "root construction violated: {:?}", s.violations);
                st = s.next.expect("root construction");
            }
        }
        if label == "main+a" {
            // branch `a` from (main, 2) with one append of its own, so `tree/a/data` exists
            for op in [
                Op::CreateBranch { name: "a".into(), parent: "".into(), version: 2, by_tag: None, via: "".into() },
                Op::Append { on: "a".into() },
            ] {
                let s = self.step(&st, &op);
                assert!(s.violations.is_empty(), "root construction violated: {:?}", s.violations);
                st = s.next.expect("root construction");
            }
        }
        st
    }

    fn viol(&self, oracle: &str, key: &str, what: String) -> Violation {
        Violation::new(oracle, key, what, json!({}))
    }
}

fn op_actor(op: &Op) -> String {
    match op {
        Op::CreateBranch { parent, .. } => parent.clone(),
        Op::Append { on } | Op::Delete { on } | Op::Compact { on } | Op::Cleanup { on, .. } => on.clone(),
        Op::TagCreate { on, .. } | Op::TagUpdate { on, .. } => on.clone(),
        Op::TagDelete { .. } => String::new(),
        Op::DeleteBranch { name } => name.clone(),
        Op::ShallowClone { from, .. } => from.clone(),
    }
}

fn op_kind(op: &Op) -> &'static str {
    match op {
        Op::CreateBranch { .. } => "create_branch",
        Op::Append { .. } => "append",
        Op::Delete { .. } => "delete",
        Op::Compact { .. } => "compact",
        Op::TagCreate { .. } => "tag_create",
        Op::TagUpdate { .. } => "tag_update",
        Op::TagDelete { .. } => "tag_delete",
        Op::DeleteBranch { .. } => "delete_branch",
        Op::ShallowClone { .. } => "shallow_clone",
        Op::Cleanup { .. } => "cleanup",
    }
}

impl Sut for Refs {
    type State = St;
    type Op = Op;

    fn init(&self) -> Vec<(String, St)> {
        self.profile.roots.iter().map(|l| (l.to_string(), self.root_state(l))).collect()
    }

    fn ops(&self, st: &St, _depth: usize) -> Vec<Op> {
        let m = &st.model;
        let mut v = vec![];
        let refs: Vec<String> = m.refs.keys().cloned().collect();
        let branches = m.live_branches();
        // writes
        if self.profile.names_only {
            for r in &refs {
                v.push(Op::Append { on: r.clone() });
            }
            if branches.len() < self.profile.max_branches {
                for name in self.profile.names.iter().filter(|n| !m.refs.contains_key(**n)) {
                    v.push(Op::CreateBranch { name: name.to_string(), parent: String::new(), version: m.refs[""].latest, by_tag: None, via: String::new() });
                }
            }
            for b in &branches {
                if m.descendants_of(b).is_empty() {
                    v.push(Op::DeleteBranch { name: b.clone() });
                }
            }
            for r in &refs {
                if m.refs[r].snaps.len() > 1 {
                    v.push(Op::Cleanup { on: r.clone(), aged: false });
                }
            }
            return v;
        }
        for r in &refs {
            v.push(Op::Append { on: r.clone() });
            v.push(Op::Delete { on: r.clone() });
            if self.profile.compact {
                v.push(Op::Compact { on: r.clone() });
            }
        }
        // branch creation: from (main|branch, latest), (main, 1), and by tag; through the main handle
        // and (for a branch parent) through the parent's own handle
        if branches.len() < self.profile.max_branches {
            for name in self.profile.names.iter().filter(|n| !m.refs.contains_key(**n)) {
                let mut sources: Vec<(String, u64, Option<String>, String)> = vec![];
                sources.push((String::new(), m.refs[""].latest, None, String::new()));
                if m.refs[""].snaps.contains_key(&1) && m.refs[""].latest != 1 {
                    sources.push((String::new(), 1, None, String::new()));
                }
                for b in &branches {
                    sources.push((b.clone(), m.refs[b].latest, None, String::new()));
                    sources.push((b.clone(), m.refs[b].latest, None, b.clone()));
                }
                for (t, (b, ver)) in &m.tags {
                    if m.refs.get(b).map(|x| x.snaps.contains_key(ver)).unwrap_or(false) {
                        sources.push((b.clone(), *ver, Some(t.clone()), String::new()));
                    }
                }
                for (parent, version, by_tag, via) in sources {
                    v.push(Op::CreateBranch { name: name.to_string(), parent, version, by_tag, via });
                }
            }
        }
        // tags
        for t in &self.profile.tags {
            if m.tags.contains_key(*t) {
                v.push(Op::TagDelete { tag: t.to_string() });
                for r in refs.iter().filter(|r| !is_clone(r)) {
                    if m.tags[*t] != (r.clone(), m.refs[r].latest) {
                        v.push(Op::TagUpdate { tag: t.to_string(), on: r.clone(), version: m.refs[r].latest });
                    }
                }
            } else {
                for r in refs.iter().filter(|r| !is_clone(r)) {
                    v.push(Op::TagCreate { tag: t.to_string(), on: r.clone(), version: m.refs[r].latest });
                    let first = *m.refs[r].snaps.keys().next().unwrap();
                    if first != m.refs[r].latest {
                        v.push(Op::TagCreate { tag: t.to_string(), on: r.clone(), version: first });
                    }
                }
            }
        }
        // delete_branch: only branches nobody refers to (see module docs)
        for b in &branches {
            if m.descendants_of(b).is_empty() && m.tags_on(b).is_empty() {
                v.push(Op::DeleteBranch { name: b.clone() });
            }
        }
        // shallow clones
        if m.clones < self.profile.max_clones {
            for r in refs.iter().filter(|r| !is_clone(r)) {
                v.push(Op::ShallowClone { from: r.clone(), version: m.refs[r].latest, via: String::new() });
                if !r.is_empty() {
                    v.push(Op::ShallowClone { from: r.clone(), version: m.refs[r].latest, via: r.clone() });
                }
            }
        }
        // cleanup
        for r in &refs {
            if m.refs[r].snaps.len() > 1 {
                v.push(Op::Cleanup { on: r.clone(), aged: false });
                if self.profile.cleanup_aged {
                    v.push(Op::Cleanup { on: r.clone(), aged: true });
                }
            }
        }
        v
    }

    fn step(&self, st: &St, op: &Op) -> Step<St> {
        let store = MemStore::from_snapshot(&st.store);
        let env = Env::from_store(store);
        let mut model = st.model.clone();
        let mut reads: Reads = (*st.reads).clone();
        let r = vds::run_catch(apply(&env, &mut model, &mut reads, op));
        let kind = op_kind(op);
        let (outcome, mut violations) = match r {
            Err(p) => (
                "panic".to_string(),
                vec![self.viol("no-panic", &format!("{kind}/panic"), format!("{kind} panicked: {}", cut(&p)))],
            ),
            Ok(Applied { outcome, violations }) => (outcome, violations),
        };
        if violations.is_empty() && !outcome.starts_with("error") {
            // isolation oracle over every expected (ref, version)
            let actor = op_actor(op);
            let before_model = &st.model;
            let after = env.store.snapshot();
            let (removed, modified, added) = changed_paths(&st.store, &after);
            let changed: Vec<String> = removed.iter().chain(modified.iter()).chain(added.iter()).cloned().collect();
            let filter = if self.filtered { Some(changed.as_slice()) } else { None };
            let (problems, skipped, reread) = block_on(check_all(&env, &model, &mut reads, filter));
            self.skipped.fetch_add(skipped, std::sync::atomic::Ordering::Relaxed);
            self.reread.fetch_add(reread, std::sync::atomic::Ordering::Relaxed);
            let mut not_judged = false;
            for (victim, ver, what) in problems {
                let rel = relation(before_model, kind, &actor, &victim);
                // one key per root-cause class; the symptom goes into `what`
                let key = if rel.contains("internal-dir") || ((kind == "delete_branch" || kind == "cleanup") && layout_collision(before_model, &actor, &victim)) {
                    // `x/data`, `x/_versions`, ... live inside branch x's own directories
                    "layout/branch-named-like-internal-dir-of-other-branch".to_string()
                } else if kind == "delete_branch" && rel == "char-prefix" {
                    "delete_branch/cleanup-path-compares-characters".to_string()
                } else if kind == "cleanup" && rel == "descendant" {
                    if actor.is_empty() {
                        // maintenance on the MAIN table is not covered by the property statement
                        // ("maintenance on one branch or shallow clone never change ..."); counted only
                        not_judged = true;
                        continue;
                    }
                    "cleanup/removes-files-still-read-by-descendant".to_string()
                } else {
                    format!("isolation/{kind}/{rel}")
                };
                violations.push(self.viol("isolation", &key, format!("after {op:?}: ref {victim:?} version {ver} {what} [relation of victim to the op's ref: {rel}]")));
            }
            if not_judged && violations.is_empty() {
                // model and table now disagree by a not-judged effect: do not expand below
                return Step { next: None, outcome: format!("{outcome}+main-cleanup-breaks-descendant(not-judged)"), violations };
            }
            // a tag whose target became unreadable is implied by an isolation problem: do not report it twice
            let isolation_ok = violations.is_empty();
            let refs_touched = isolation_ok && match (&reads.refs, filter) {
                (Some(rs), Some(ch)) => rs.affected_by(ch) || model.tags != st.model.tags || model.live_branches() != st.model.live_branches(),
                _ => true,
            };
            if refs_touched {
                let (problems, rs) = block_on(logged(&env, check_tags_and_branches(&env, &model)));
                reads.refs = Some(rs);
                for (k, what) in problems {
                    violations.push(self.viol("refs", &format!("{k}/after-{kind}"), format!("after {op:?}: {what}")));
                }
            }
            if let Op::DeleteBranch { name } = op {
                let own = branch_dir(name);
                let ref_file_suffix = format!("{}.json", name.replace('/', "%2F"));
                // directories of live branches nested under the deleted one are not its own storage
                let longer: Vec<String> = model.live_branches().iter().map(|b| branch_dir(b)).filter(|d| d.starts_with(&own)).collect();
                let mut foreign: Vec<String> = vec![];
                let live_dirs: Vec<String> = model.live_branches().iter().map(|b| branch_dir(b)).collect();
                for p in removed.iter().chain(modified.iter()) {
                    let is_ref_file = p.starts_with("tbl/_refs/branches/") && p.ends_with(&ref_file_suffix);
                    let in_own = p.starts_with(&own) && !longer.iter().any(|l| p.starts_with(l.as_str()));
                    // leftovers of earlier deleted branches under tree/ belong to nobody
                    let garbage = p.starts_with("tbl/tree/") && !live_dirs.iter().any(|l| p.starts_with(l.as_str()));
                    if !(is_ref_file || in_own || garbage) {
                        foreign.push(p.clone());
                    }
                }
                if !foreign.is_empty() {
                    // classify by the relation between the deleted name and the owner of the first foreign path
                    let owner = model
                        .live_branches()
                        .into_iter()
                        .filter(|b| foreign[0].starts_with(&branch_dir(b)))
                        .max_by_key(|b| b.len())
                        .unwrap_or_default();
                    let rel = relation(&st.model, kind, name, &owner);
                    let key = if rel.contains("internal-dir") || layout_collision(&st.model, name, &owner) {
                        "layout/branch-named-like-internal-dir-of-other-branch".to_string()
                    } else if rel == "char-prefix" {
                        "delete_branch/cleanup-path-compares-characters".to_string()
                    } else {
                        format!("delete_branch/foreign-paths/{rel}")
                    };
                    violations.push(self.viol(
                        "delete-only-own-storage",
                        &key,
                        format!("delete_branch({name:?}) removed {} object(s) outside tree/{name}/, e.g. {} (owner: branch {owner:?})", foreign.len(), vstore::norm_path(&foreign[0])),
                    ));
                }
                if removed.iter().filter(|p| p.starts_with(&own)).count() == 0 && st.store.paths().iter().any(|p| p.starts_with(&own)) {
                    let why = if model.live_branches().iter().any(|b| b.starts_with(&format!("{name}/"))) { "nested-live-branch" } else { "char-prefix-of-live-branch" };
                    model.zombies.insert(name.clone(), why.to_string());
                    // a leak, not promised by the property: counted through the outcome label
                    let next = if violations.is_empty() { Some(St { store: after, model, reads: std::sync::Arc::new(reads) }) } else { None };
                    return Step { next, outcome: format!("{outcome}+own-dir-left-behind"), violations };
                }
            }
        }
        let next = if violations.is_empty() && !outcome.starts_with("error") { Some(St { store: env.store.snapshot(), model, reads: std::sync::Arc::new(reads) }) } else { None };
        Step { next, outcome, violations }
    }

    fn canon(&self, st: &St) -> u64 {
        // model (expected rows, recorded snapshots, tags, lineage) + multiset of normalised object paths;
        // object sizes are left out (manifest sizes vary by a byte or two with the wall-clock stamp)
        let m = serde_json::to_vec(&st.model).unwrap_or_default();
        let mut acc: u64 = 0;
        for p in st.store.paths() {
            acc = acc.wrapping_add(vcore::hash64(vstore::norm_path(&p).as_bytes()).wrapping_mul(0x9e3779b97f4a7c15));
        }
        vcore::hash64(&m) ^ acc.rotate_left(17)
    }

    fn op_kind(&self, op: &Op) -> String {
        op_kind(op).to_string()
    }
}

struct Applied {
    outcome: String,
    violations: Vec<Violation>,
}

fn v(oracle: &str, key: &str, what: String) -> Violation {
    Violation::new(oracle, key, what, json!({}))
}

/// Apply `op` to the real table and to the model. Violations here are about the op's own result
/// (it failed although valid; the new version / branch / clone does not read the expected rows).
async fn apply(env: &Env, model: &mut Model, reads: &mut Reads, op: &Op) -> Applied {
    let mut violations = vec![];
    let kind = op_kind(op);
    let outcome = match op {
        Op::Append { on } | Op::Delete { on } | Op::Compact { on } => {
            let latest = model.refs[on].latest;
            let cur = model.refs[on].rows[&latest].clone();
            let mut ds = match open_ref(env, on).await {
                Ok(d) => d,
                Err(e) => {
                    return Applied { outcome: "open-failed".into(), violations: vec![v("op-result", &format!("{kind}/cannot-open-ref"), format!("{op:?}: ref cannot be opened: {e}"))] }
                }
            };
            let (res, expect) = match op {
                Op::Append { .. } => {
                    let rows = default_rows(model.next_uid..model.next_uid + 2);
                    model.next_uid += 2;
                    let batch = base_batch(&rows);
                    let reader = arrow_array::RecordBatchIterator::new(vec![Ok(batch.clone())], batch.schema());
                    let mut e = cur.clone();
                    e.extend(rows);
                    (ds.append(reader, Some(wparams(env))).await, e)
                }
                Op::Delete { .. } => {
                    let victim = cur.iter().map(|r| r.uid).min();
                    let pred = format!("uid = {}", victim.unwrap_or(-1));
                    let e: Vec<MRow> = cur.iter().filter(|r| Some(r.uid) != victim).cloned().collect();
                    (ds.delete(&pred).await, e)
                }
                _ => {
                    let o = CompactionOptions { target_rows_per_fragment: 1_000_000, ..Default::default() };
                    (compact_files(&mut ds, o, None).await.map(|_| ()), cur.clone())
                }
            };
            match res {
                Err(e) => {
                    violations.push(v("op-result", &format!("{kind}/failed"), format!("{op:?} failed: {}", first_line(&e.to_string()))));
                    "error".to_string()
                }
                Ok(()) => {
                    let nv = ds.version().version;
                    if nv == latest {
                        "noop".to_string()
                    } else {
                        record_new_version(env, model, reads, on, nv, expect, &mut violations, kind).await;
                        "ok".to_string()
                    }
                }
            }
        }
        Op::CreateBranch { name, parent, version, by_tag, via } => {
            let expect = model.refs[parent].rows[version].clone();
            let mut h = match open_ref(env, via).await {
                Ok(d) => d,
                Err(e) => return Applied { outcome: "open-failed".into(), violations: vec![v("op-result", &format!("{kind}/cannot-open-ref"), format!("{op:?}: handle cannot be opened: {e}"))] },
            };
            let res = match by_tag {
                Some(t) => h.create_branch(name, t.as_str(), None).await,
                None if parent.is_empty() => h.create_branch(name, *version, None).await,
                None => h.create_branch(name, (parent.as_str(), *version), None).await,
            };
            let shape = if parent.is_empty() { "from-main" } else if via == parent { "from-branch-via-own-handle" } else { "source-branch-resolved-under-handle-path" };
            let _ = by_tag;
            const CLONE_SOURCE_KEY: &str = "clone-source/branch-resolved-under-handle-path";
            match res {
                Err(e) if model.zombies.contains_key(name) && e.to_string().contains("already exists") => {
                    return Applied { outcome: format!("error-name-occupied-by-leftovers-of-deleted-branch({})", model.zombies[name]), violations: vec![] };
                }
                Err(e) => {
                    violations.push(v("new-branch-reads-source", &if shape.starts_with("source") { CLONE_SOURCE_KEY.to_string() } else { format!("create_branch/{shape}/failed") }, format!("{op:?} failed: {}", first_line(&e.to_string()))));
                    "error".to_string()
                }
                Ok(b) => {
                    let nv = b.version().version;
                    // the name of a deleted branch whose directory was left behind: the new branch must not
                    // pick up the old branch's manifests
                    if let Some(why) = model.zombies.get(name).cloned() {
                        // outside the property statement (a leak surfacing on name re-use): counted, not judged,
                        // and not explored further (the new branch's latest is a manifest of the deleted one)
                        let latest = open_ref(env, name).await.map(|l| l.version().version).unwrap_or(0);
                        if latest != nv {
                            return Applied { outcome: format!("error-recreated-branch-latest-is-leftover-of-deleted-branch({why})"), violations: vec![] };
                        }
                        model.zombies.remove(name);
                    }
                    model.refs.insert(name.clone(), RefModel { rows: BTreeMap::new(), snaps: BTreeMap::new(), latest: nv, origin: Some((parent.clone(), *version)) });
                    record_new_version(env, model, reads, name, nv, expect, &mut violations, &format!("create_branch/{shape}")).await;
                    "ok".to_string()
                }
            }
        }
        Op::ShallowClone { from, version, via } => {
            let expect = model.refs[from].rows[version].clone();
            let id = format!("clone:{}", model.clones + 1);
            let mut h = match open_ref(env, via).await {
                Ok(d) => d,
                Err(e) => return Applied { outcome: "open-failed".into(), violations: vec![v("op-result", &format!("{kind}/cannot-open-ref"), format!("{op:?}: handle cannot be opened: {e}"))] },
            };
            let target = clone_uri(&id);
            let res = if from.is_empty() {
                h.shallow_clone(&target, *version, Some(env.store_params())).await
            } else {
                h.shallow_clone(&target, (from.as_str(), *version), Some(env.store_params())).await
            };
            let shape = if from.is_empty() { "from-main" } else if via == from { "from-branch-via-own-handle" } else { "source-branch-resolved-under-handle-path" };
            match res {
                Err(e) => {
                    violations.push(v("new-clone-reads-source", &if shape.starts_with("source") { "clone-source/branch-resolved-under-handle-path".to_string() } else { format!("shallow_clone/{shape}/failed") }, format!("{op:?} failed: {}", first_line(&e.to_string()))));
                    "error".to_string()
                }
                Ok(c) => {
                    let nv = c.version().version;
                    model.clones += 1;
                    model.refs.insert(id.clone(), RefModel { rows: BTreeMap::new(), snaps: BTreeMap::new(), latest: nv, origin: Some((from.clone(), *version)) });
                    record_new_version(env, model, reads, &id, nv, expect, &mut violations, &format!("shallow_clone/{shape}")).await;
                    "ok".to_string()
                }
            }
        }
        Op::TagCreate { tag, on, version } | Op::TagUpdate { tag, on, version } => {
            let h = match env.open(URI).await {
                Ok(d) => d,
                Err(e) => return Applied { outcome: "open-failed".into(), violations: vec![v("op-result", &format!("{kind}/cannot-open-ref"), format!("{op:?}: main cannot be opened: {e}"))] },
            };
            let b = if on.is_empty() { None } else { Some(on.as_str()) };
            let res = if matches!(op, Op::TagCreate { .. }) { h.tags().create_on_branch(tag, *version, b).await } else { h.tags().update_on_branch(tag, *version, b).await };
            match res {
                Ok(()) => {
                    model.tags.insert(tag.clone(), (on.clone(), *version));
                    "ok".to_string()
                }
                Err(e) => {
                    violations.push(v("op-result", &format!("{kind}/failed"), format!("{op:?} failed: {}", first_line(&e.to_string()))));
                    "error".to_string()
                }
            }
        }
        Op::TagDelete { tag } => {
            let h = env.open(URI).await;
            match h {
                Ok(h) => match h.tags().delete(tag).await {
                    Ok(()) => {
                        model.tags.remove(tag);
                        "ok".to_string()
                    }
                    Err(e) => {
                        violations.push(v("op-result", &format!("{kind}/failed"), format!("{op:?} failed: {}", first_line(&e.to_string()))));
                        "error".to_string()
                    }
                },
                Err(e) => {
                    violations.push(v("op-result", &format!("{kind}/cannot-open-ref"), format!("{op:?}: {e}")));
                    "open-failed".to_string()
                }
            }
        }
        Op::DeleteBranch { name } => match env.open(URI).await {
            Ok(mut h) => match h.delete_branch(name).await {
                Ok(()) => {
                    model.refs.remove(name);
                    "ok".to_string()
                }
                Err(e) => {
                    violations.push(v("op-result", &format!("{kind}/failed"), format!("{op:?} failed: {}", first_line(&e.to_string()))));
                    "error".to_string()
                }
            },
            Err(e) => {
                violations.push(v("op-result", &format!("{kind}/cannot-open-ref"), format!("{op:?}: {e}")));
                "open-failed".to_string()
            }
        },
        Op::Cleanup { on, aged } => {
            let ds = match open_ref(env, on).await {
                Ok(d) => d,
                Err(e) => return Applied { outcome: "open-failed".into(), violations: vec![v("op-result", &format!("{kind}/cannot-open-ref"), format!("{op:?}: ref cannot be opened: {e}"))] },
            };
            if *aged {
                env.store.age_all(chrono::Duration::days(8));
            }
            let latest = model.refs[on].latest;
            let policy = CleanupPolicy { before_timestamp: None, before_version: Some(latest), delete_unverified: !*aged, error_if_tagged_old_versions: false };
            match cleanup_old_versions(&ds, policy).await {
                Err(e) => {
                    violations.push(v("op-result", &format!("{kind}/failed"), format!("{op:?} failed: {}", first_line(&e.to_string()))));
                    "error".to_string()
                }
                Ok(stats) => {
                    // versions of `on` older than latest may go away unless a tag names (on, version);
                    // the implementation protects tagged version NUMBERS of any branch, which is allowed
                    // (over-retention); so: tagged-on-this-ref must stay, others are dropped from the
                    // model if they are gone
                    let tagged: BTreeSet<u64> = model.tags.values().filter(|(b, _)| b == on).map(|(_, ver)| *ver).collect();
                    let versions: Vec<u64> = model.refs[on].snaps.keys().copied().collect();
                    for ver in versions {
                        if ver == latest || tagged.contains(&ver) {
                            continue;
                        }
                        if open_ref_version(env, on, ver).await.is_err() {
                            let m = model.refs.get_mut(on).unwrap();
                            m.snaps.remove(&ver);
                            m.rows.remove(&ver);
                        }
                    }
                    format!("ok-removed-{}-versions", stats.old_versions.min(3))
                }
            }
        }
    };
    Applied { outcome, violations }
}

async fn record_new_version(env: &Env, model: &mut Model, reads: &mut Reads, r: &str, nv: u64, expect: Vec<MRow>, violations: &mut Vec<Violation>, key_prefix: &str) {
    let (opened, rs) = logged(env, async {
        match open_ref_version(env, r, nv).await {
            Err(e) => Err(e),
            Ok(ds) => Ok((snap(&ds).await, vds::scan_base(&ds).await)),
        }
    })
    .await;
    reads.ver.insert((r.to_string(), nv), rs);
    reads.latest.remove(r);
    match opened {
        Err(e) => violations.push(v("new-version-reads-expected", &format!("{key_prefix}/new-version-unreadable"), format!("ref {r:?} version {nv} cannot be opened right after the op: {}", first_line(&e.to_string())))),
        Ok(pair) => match pair {
            (Ok(s), Ok(rows)) => {
                if rows != expect {
                    violations.push(v(
                        "new-version-reads-expected",
                        &if key_prefix.contains("source-branch-resolved") { "clone-source/branch-resolved-under-handle-path".to_string() } else { format!("{key_prefix}/wrong-rows") },
                        format!("ref {r:?} version {nv} reads uids {:?}, expected {:?}", rows.iter().map(|x| x.uid).collect::<Vec<_>>(), expect.iter().map(|x| x.uid).collect::<Vec<_>>()),
                    ));
                }
                let m = model.refs.get_mut(r).unwrap();
                m.latest = nv;
                m.rows.insert(nv, expect);
                m.snaps.insert(nv, s);
            }
            (a, b) => violations.push(v("new-version-reads-expected", &format!("{key_prefix}/new-version-unreadable"), format!("ref {r:?} version {nv} cannot be read right after the op: {:?} {:?}", a.err().map(|e| first_line(&e.to_string())), b.err().map(|e| first_line(&e.to_string()))))),
        },
    }
}

pub fn run(ctx: &Ctx) -> Outcome {
    let mut out = Outcome::new("model_checking");
    let quick = ctx.quick();
    let wide = || Profile {
        label: "wide",
        names_only: false,
        names: NAMES.to_vec(),
        tags: if quick { vec!["t1"] } else { vec!["t1", "t.2"] },
        max_branches: if quick { 2 } else { 3 },
        max_clones: 1,
        compact: !quick,
        cleanup_aged: !quick,
        roots: vec!["main", "main+a"],
    };
    let names = || Profile {
        label: "names",
        names_only: true,
        names: NAMES.to_vec(),
        tags: vec![],
        max_branches: 3,
        max_clones: 0,
        compact: false,
        cleanup_aged: false,
        roots: vec!["main", "main+a", "main+a+a/data"],
    };
    let mk = |p: Profile| Refs { profile: p, filtered: ctx.opts.get("full_oracle").is_none(), skipped: Default::default(), reread: Default::default() };
    if let Some(art) = ctx.replay_case() {
        let case = &art["case"];
        if case.get("kind").and_then(|k| k.as_str()).map(|k| k.starts_with("grammar")).unwrap_or(false) {
            let s = case["string"].as_str().unwrap_or("");
            let g = if case["kind"] == "grammar" { c09_grammar::run_pure(Some(s)) } else { c09_grammar::run_api(Some(s), 1) };
            out.violations = g.violations;
        } else {
            let mut sut = mk(wide());
            sut.filtered = false;
            match seqx::replay(&sut, case) {
                Ok(v) => out.violations = v,
                Err(e) => vcore::machinery_error(&format!("replay: {e}")),
            }
        }
        out.set("states", 1u64).set("transitions", 1u64).set("traces_validated_against_impl", 1u64).set("samples", json!([case]));
        return out;
    }
    // (a) grammar
    let t0 = std::time::Instant::now();
    let g = c09_grammar::run_pure(None);
    let t1 = std::time::Instant::now();
    let ga = c09_grammar::run_api(None, ctx.workers);
    out.set("grammar_wall_s", json!({"pure": (t1 - t0).as_secs_f64(), "api": t1.elapsed().as_secs_f64()}));
    out.violations.extend(g.violations);
    out.violations.extend(ga.violations);
    out.set(
        "grammar",
        json!({"strings": g.cov.evaluations, "tokens": c09_grammar::TOKENS, "max_tokens": 4, "distinct_with_special_token": g.cov.nontrivial.len(),
               "verdicts": g.cov.outcomes, "samples": g.cov.samples, "exhaustive": true,
               "api_strings": ga.cov.evaluations, "api_max_tokens": 2, "api_observations": ga.cov.outcomes}),
    );
    // (b) histories: two exhaustive profiles (wide-shallow and narrow-deep)
    let mut total = seqx::Report::default();
    let mut profiles = vec![];
    let plan: Vec<(Profile, usize, f64)> = if quick {
        vec![(wide(), 2, 22.0), (names(), 3, 19.0)]
    } else {
        vec![(wide(), 4, 560.0), (names(), 5, 240.0)]
    };
    let (mut skipped, mut reread) = (0u64, 0u64);
    for (p, depth, wall) in plan {
        let depth = ctx.opts.get("depth").and_then(|d| d.parse().ok()).unwrap_or(depth);
        let sut = mk(p);
        let rep = seqx::explore(&sut, &Caps { max_depth: depth, max_states: 2_000_000, wall_s: wall }, ctx.workers);
        profiles.push(json!({
            "profile": sut.profile.label, "depth_bound": depth, "max_depth": rep.max_depth, "level_sizes": rep.level_sizes, "transitions": rep.transitions,
            "cap_hit": rep.cap_hit, "bound_completed": if rep.cap_hit.is_none() { rep.max_depth } else { rep.max_depth.saturating_sub(1) },
            "alphabet": {"names_only": sut.profile.names_only, "branch_names": sut.profile.names, "roots": sut.profile.roots, "tags": sut.profile.tags,
                         "max_branches": sut.profile.max_branches, "max_clones": sut.profile.max_clones, "compact": sut.profile.compact, "cleanup_aged": sut.profile.cleanup_aged},
        }));
        skipped += sut.skipped.load(std::sync::atomic::Ordering::Relaxed);
        reread += sut.reread.load(std::sync::atomic::Ordering::Relaxed);
        total.merge(rep);
    }
    out.violations.extend(total.violations.iter().cloned());
    total.fill(&mut out);
    out.set("profiles", json!(profiles));
    out.set("oracle_reads", json!({"filtered_by_read_set": ctx.opts.get("full_oracle").is_none(), "reread": reread, "skipped_unaffected": skipped}));
    out.assume("'alphanumeric' in branch_tag.md is read as Unicode alphanumeric (the code's char::is_alphanumeric); the docs do not say ASCII");
    out.assume("MemStore models the object_store contract; every URI, branch directory and clone root is routed to one store through the public object_store_wrapper seam; fresh Session per open");
    out.assume("delete_branch is only enabled for branches without tags and without descendants; leaving a deleted branch's own files behind is counted (outcome '+own-dir-left-behind'), not judged");
    out.assume("oracle reads are filtered by read set: a (ref, version) is re-read after an op iff an object it GET/HEADed was added/removed/modified or an added/removed object lies under a prefix it listed (recorded from the MemStore op log of its previous read); this relies on reads being deterministic functions of the object-store answers (fresh session per open); `--opt full_oracle=1` re-reads everything and gave the identical violation multiset at depth 2");
    out.assume("cleanup uses before_version = latest with delete_unverified=true (sequential histories: no operation is in progress) or, in the thorough tier, all objects aged 8 days and delete_unverified=false");
    out
}
