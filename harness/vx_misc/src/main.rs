//! vx_misc: see /verif/harness/AGENTS-GUIDE.md; one module per property, dispatched on the property id.

mod c22;
mod c23;
mod c36;

use vcore::{machinery_error, Ctx};

fn main() {
    let ctx = Ctx::from_args();
    vcore::quiet_panics();
    #[allow(clippy::match_single_binding)]
    let out: vcore::Outcome = match ctx.id.as_str() {
        "C22" => c22::run(&ctx),
        "C23" => c23::run(&ctx),
        "C36" => c36::run(&ctx),
        other => machinery_error(&format!("vx_misc does not implement {other}")),
    };
    #[allow(unreachable_code)]
    vcore::finish(&ctx, out);
}
