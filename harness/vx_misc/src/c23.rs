//! C23 – full-text search matches the tokenised documents (K1 x K5, bounded exhaustive).
//!
//! Space: vocabulary {a, b, c, é}; documents = every token string of length <= L (L = 2 quick,
//! 3 thorough) joined by single spaces, plus "" and NULL; corpora = every unordered pair of
//! documents + structured 4-document families (term frequency / length ladders, permutations for
//! phrases, duplicates, punctuation and case variants, NULL / empty). For every corpus every
//! history of {index (simple tokenizer, positions, no stemming / stop words / folding), append
//! unindexed, delete indexed / unindexed row, optimize_indices} from a fixed list is built on a
//! MemStore and every query of the query alphabet is run: term, 2-term match with OR / AND,
//! phrases, boolean must / should / must_not.
//!
//! Oracle (harness tokeniser: split on non-alphanumeric characters, lower-case):
//!   * matched uid set == model evaluation over live rows (indexed or not, never a deleted one)
//!   * `_score` non-increasing in output order, no duplicate uid
//!   * `limit 1` returns min(1, matches) rows and a row whose score is the maximum of the unlimited run
//!   * fully indexed single-partition states, term / match queries: the order of the results must
//!     not contradict BM25 (k1 1.2, b 0.75, idf ln((N-n+.5)/(n+.5)+1)) under *every* convention for
//!     N / avgdl (NULL and empty documents counted or not) – the documentation only promises
//!     "BM25 scoring and ranking", so only the order is judged; exact score agreement under the
//!     convention of the code (N = rows with a non-NULL document) is measured and reported.

use arrow_array::{Array, Float32Array, Int32Array, RecordBatch, StringArray};
use arrow_schema::{DataType, Field, Schema};
use futures::TryStreamExt;
use lance::dataset::WriteMode;
use lance::Dataset;
use lance_index::optimize::OptimizeOptions;
use lance_index::scalar::inverted::query::{BooleanQuery, FtsQuery, MatchQuery, Occur, Operator, PhraseQuery};
use lance_index::scalar::{FullTextSearchQuery, InvertedIndexParams};
use lance_index::{DatasetIndexExt, IndexType};
use serde::{Deserialize, Serialize};
use serde_json::json;
use std::collections::{BTreeMap, BTreeSet};
use std::sync::Arc;
use vcore::{Cov, Ctx, Outcome, Violation};
use vds::Env;

const URI: &str = "memory://fts";
const VOCAB: [&str; 4] = ["a", "b", "c", "é"];

type Doc = Option<String>;

fn schema() -> Arc<Schema> {
    Arc::new(Schema::new(vec![Field::new("uid", DataType::Int32, false), Field::new("txt", DataType::Utf8, true)]))
}

fn batch(rows: &[(i32, Doc)]) -> RecordBatch {
    RecordBatch::try_new(
        schema(),
        vec![
            Arc::new(Int32Array::from(rows.iter().map(|r| r.0).collect::<Vec<_>>())),
            Arc::new(StringArray::from(rows.iter().map(|r| r.1.clone()).collect::<Vec<_>>())),
        ],
    )
    .unwrap()
}

/// harness tokeniser: maximal runs of alphanumeric characters, lower-cased
fn tokenize(s: &str) -> Vec<String> {
    s.split(|c: char| !c.is_alphanumeric()).filter(|t| !t.is_empty()).map(|t| t.to_lowercase()).collect()
}

#[derive(Clone, Debug, PartialEq, Eq, Hash, Serialize, Deserialize)]
pub enum Q {
    /// match query (terms, AND?)
    Match(String, bool),
    Phrase(String),
    /// boolean over term leaves: must, should, must_not
    Bool(Vec<String>, Vec<String>, Vec<String>),
    /// boolean with a phrase in `must` and a term in must_not
    BoolPhrase(String, Vec<String>),
}

impl Q {
    fn kind(&self) -> String {
        match self {
            Q::Match(t, and) => {
                let n = tokenize(t).len();
                if n <= 1 {
                    "term".into()
                } else if *and {
                    "match-and".into()
                } else {
                    "match-or".into()
                }
            }
            Q::Phrase(_) => "phrase".into(),
            Q::Bool(..) => "bool".into(),
            Q::BoolPhrase(..) => "bool-phrase".into(),
        }
    }
    fn to_fts(&self) -> FtsQuery {
        let leaf = |t: &String| -> FtsQuery { MatchQuery::new(t.clone()).with_column(Some("txt".into())).into() };
        match self {
            Q::Match(t, and) => MatchQuery::new(t.clone())
                .with_column(Some("txt".into()))
                .with_operator(if *and { Operator::And } else { Operator::Or })
                .into(),
            Q::Phrase(t) => PhraseQuery::new(t.clone()).with_column(Some("txt".into())).into(),
            Q::Bool(m, s, n) => {
                let mut v = vec![];
                for x in m {
                    v.push((Occur::Must, leaf(x)));
                }
                for x in s {
                    v.push((Occur::Should, leaf(x)));
                }
                for x in n {
                    v.push((Occur::MustNot, leaf(x)));
                }
                BooleanQuery::new(v).into()
            }
            Q::BoolPhrase(p, n) => {
                let mut v = vec![(Occur::Must, PhraseQuery::new(p.clone()).with_column(Some("txt".into())).into())];
                for x in n {
                    v.push((Occur::MustNot, leaf(x)));
                }
                BooleanQuery::new(v).into()
            }
        }
    }
    /// model evaluation on one document's tokens
    fn matches(&self, doc: &[String]) -> bool {
        let has = |t: &String| tokenize(t).iter().any(|q| doc.contains(q));
        match self {
            Q::Match(t, and) => {
                let qt = tokenize(t);
                if qt.is_empty() {
                    return false;
                }
                if *and {
                    qt.iter().all(|q| doc.contains(q))
                } else {
                    qt.iter().any(|q| doc.contains(q))
                }
            }
            Q::Phrase(t) => {
                let qt = tokenize(t);
                !qt.is_empty() && doc.windows(qt.len()).any(|w| w == qt.as_slice())
            }
            Q::Bool(m, s, n) => {
                let must_ok = m.iter().all(has);
                let should_ok = if m.is_empty() { s.iter().any(has) } else { true };
                must_ok && should_ok && !n.iter().any(has)
            }
            Q::BoolPhrase(p, n) => Q::Phrase(p.clone()).matches(doc) && !n.iter().any(has),
        }
    }
    fn tokens(&self) -> Vec<String> {
        match self {
            Q::Match(t, _) | Q::Phrase(t) => tokenize(t),
            Q::Bool(m, s, n) => m.iter().chain(s).chain(n).flat_map(|t| tokenize(t)).collect(),
            Q::BoolPhrase(p, n) => tokenize(p).into_iter().chain(n.iter().flat_map(|t| tokenize(t))).collect(),
        }
    }
}

fn queries(thorough: bool) -> Vec<Q> {
    let mut v = vec![];
    for t in VOCAB {
        v.push(Q::Match(t.to_string(), false));
    }
    v.push(Q::Match("A".into(), false)); // query side lower-casing
    v.push(Q::Match("e".into(), false)); // must NOT match é (ascii folding is off)
    v.push(Q::Match("".into(), false));
    let pairs: Vec<(&str, &str)> = vec![("a", "b"), ("a", "c"), ("b", "é"), ("c", "é"), ("a", "a"), ("b", "c")];
    for (x, y) in &pairs {
        for and in [false, true] {
            v.push(Q::Match(format!("{x} {y}"), and));
        }
    }
    // phrases: every ordered pair over {a,b,c} + é forms + a 3-token phrase + single token
    for x in ["a", "b", "c"] {
        for y in ["a", "b", "c"] {
            v.push(Q::Phrase(format!("{x} {y}")));
        }
    }
    v.push(Q::Phrase("é a".into()));
    v.push(Q::Phrase("a é".into()));
    v.push(Q::Phrase("a".into()));
    v.push(Q::Phrase("a b c".into()));
    if thorough {
        v.push(Q::Phrase("a a a".into()));
        v.push(Q::Phrase("c b a".into()));
        v.push(Q::Phrase("é é".into()));
    }
    let s = |x: &[&str]| x.iter().map(|t| t.to_string()).collect::<Vec<_>>();
    v.push(Q::Bool(s(&["a"]), s(&[]), s(&["b"])));
    v.push(Q::Bool(s(&["a"]), s(&["b"]), s(&[])));
    v.push(Q::Bool(s(&[]), s(&["a", "b"]), s(&[])));
    v.push(Q::Bool(s(&["a", "b"]), s(&[]), s(&[])));
    v.push(Q::Bool(s(&["a"]), s(&[]), s(&["a"])));
    v.push(Q::Bool(s(&[]), s(&["a"]), s(&["c"])));
    v.push(Q::Bool(s(&["a", "b"]), s(&["c"]), s(&["é"])));
    v.push(Q::BoolPhrase("a b".into(), s(&["c"])));
    v
}

#[derive(Clone, Debug, PartialEq, Eq, Hash, Serialize, Deserialize)]
pub enum HStep {
    /// create the table with these uids
    Write(Vec<usize>),
    Index,
    Append(Vec<usize>),
    Delete(usize),
    Optimize,
}

#[derive(Clone, Debug, Serialize, Deserialize)]
pub struct Case {
    docs: Vec<Doc>,
    hist_name: String,
    hist: Vec<HStep>,
}

fn histories(n: usize) -> Vec<(String, Vec<HStep>)> {
    use HStep::*;
    let all: Vec<usize> = (0..n).collect();
    let h = n / 2;
    let first: Vec<usize> = (0..h.max(1)).collect();
    let rest: Vec<usize> = (h.max(1)..n).collect();
    let mut v = vec![
        ("indexed".to_string(), vec![Write(all.clone()), Index]),
        ("append".to_string(), vec![Write(first.clone()), Index, Append(rest.clone())]),
        ("delete-indexed".to_string(), vec![Write(all.clone()), Index, Delete(0)]),
        ("append+optimize".to_string(), vec![Write(first.clone()), Index, Append(rest.clone()), Optimize]),
        ("append+delete-unindexed".to_string(), vec![Write(first.clone()), Index, Append(rest.clone()), Delete(n - 1)]),
    ];
    if n >= 4 {
        v.push(("delete+optimize".to_string(), vec![Write(all.clone()), Index, Delete(1), Optimize]));
        v.push((
            "append+delete+optimize+append".to_string(),
            vec![Write(vec![0, 1]), Index, Append(vec![2]), Delete(0), Optimize, Append(vec![3])],
        ));
    }
    v
}

fn all_docs(max_len: usize) -> Vec<Doc> {
    let mut v: Vec<Doc> = vec![None, Some(String::new())];
    for len in 1..=max_len {
        for seq in vcore::smallx::sequences(VOCAB.len(), len, len) {
            v.push(Some(seq.iter().map(|i| VOCAB[*i]).collect::<Vec<_>>().join(" ")));
        }
    }
    v
}

fn families() -> Vec<Vec<Doc>> {
    let d = |x: &[Option<&str>]| x.iter().map(|s| s.map(|t| t.to_string())).collect::<Vec<_>>();
    vec![
        d(&[Some("a"), Some("a a"), Some("a b"), Some("b")]),
        d(&[Some("a b c"), Some("c b a"), Some("a c b"), Some("b a c")]),
        d(&[Some("a"), None, Some(""), Some("é a")]),
        d(&[Some("a b"), Some("a b"), Some("b a"), Some("a")]),
        d(&[Some("a a a"), Some("a a"), Some("a"), Some("b")]),
        d(&[Some("é"), Some("é é"), Some("a é"), Some("c")]),
        d(&[Some("a, b"), Some("a.b"), Some("A B"), Some("a  b")]),
        d(&[Some("a b a b"), Some("b a"), Some("a c b"), Some("c")]),
        d(&[None, None, Some("a"), Some("b c")]),
    ]
}

struct Built {
    ds: Dataset,
    /// uid -> (doc, indexed?) for live rows
    live: BTreeMap<i32, (Doc, bool)>,
    deleted: BTreeSet<i32>,
    /// docs that went into the index (in index order), for BM25
    indexed_docs: Vec<Doc>,
    partitions_single: bool,
}

fn fts_params() -> InvertedIndexParams {
    InvertedIndexParams::default()
        .with_position(true)
        .stem(false)
        .remove_stop_words(false)
        .ascii_folding(false)
        .lower_case(true)
        .max_token_length(None)
}

async fn build(case: &Case) -> Result<Built, String> {
    let env = Env::new();
    let mut ds: Option<Dataset> = None;
    let mut live: BTreeMap<i32, (Doc, bool)> = BTreeMap::new();
    let mut deleted = BTreeSet::new();
    let mut indexed_docs = vec![];
    let mut index_builds = 0;
    let mut fully_single = false;
    for st in &case.hist {
        match st {
            HStep::Write(uids) | HStep::Append(uids) => {
                let rows: Vec<(i32, Doc)> = uids.iter().map(|u| (*u as i32, case.docs[*u].clone())).collect();
                let mode = if matches!(st, HStep::Write(_)) { WriteMode::Create } else { WriteMode::Append };
                let d = env.write(URI, vec![batch(&rows)], env.write_params(mode)).await.map_err(|e| format!("write: {e}"))?;
                for (u, doc) in rows {
                    live.insert(u, (doc, false));
                }
                ds = Some(d);
                fully_single = false;
            }
            HStep::Index => {
                let d = ds.as_mut().unwrap();
                d.create_index(&["txt"], IndexType::Inverted, None, &fts_params(), true).await.map_err(|e| format!("create_index: {e}"))?;
                for (_, v) in live.iter_mut() {
                    v.1 = true;
                }
                indexed_docs = live.values().map(|v| v.0.clone()).collect();
                index_builds += 1;
                fully_single = index_builds == 1;
            }
            HStep::Optimize => {
                let d = ds.as_mut().unwrap();
                d.optimize_indices(&OptimizeOptions::default()).await.map_err(|e| format!("optimize_indices: {e}"))?;
                for (_, v) in live.iter_mut() {
                    v.1 = true;
                }
                fully_single = false;
            }
            HStep::Delete(u) => {
                let d = ds.as_mut().unwrap();
                d.delete(&format!("uid = {u}")).await.map_err(|e| format!("delete: {e}"))?;
                live.remove(&(*u as i32));
                deleted.insert(*u as i32);
                fully_single = false;
            }
        }
    }
    // re-open with a fresh session so that nothing cached during building is reused
    let ds = env.open(URI).await.map_err(|e| format!("open: {e}"))?;
    Ok(Built { ds, live, deleted, indexed_docs, partitions_single: fully_single })
}

async fn run_query(ds: &Dataset, q: &Q, limit: Option<i64>) -> Result<Vec<(i32, f32)>, String> {
    let mut sc = ds.scan();
    let mut fq = FullTextSearchQuery::new_query(q.to_fts());
    if let Some(l) = limit {
        fq = fq.limit(Some(l));
    }
    sc.project(&["uid"]).map_err(|e| e.to_string())?;
    sc.full_text_search(fq).map_err(|e| e.to_string())?;
    let batches: Vec<RecordBatch> = sc.try_into_stream().await.map_err(|e| e.to_string())?.try_collect().await.map_err(|e| e.to_string())?;
    let mut out = vec![];
    for b in batches {
        let uid = b.column_by_name("uid").ok_or("no uid column")?.as_any().downcast_ref::<Int32Array>().ok_or("uid type")?.clone();
        let sc = b.column_by_name("_score").ok_or("no _score column")?.as_any().downcast_ref::<Float32Array>().ok_or("_score type")?.clone();
        for i in 0..b.num_rows() {
            out.push((uid.value(i), if sc.is_null(i) { f32::NAN } else { sc.value(i) }));
        }
    }
    Ok(out)
}

/// BM25 of `doc` for the query tokens over the indexed collection; `count_null` / `count_empty`
/// choose whether NULL / token-less documents count for N and avgdl.
fn bm25(qtokens: &[String], doc: &[String], coll: &[Vec<String>], nulls: usize, count_null: bool, count_empty: bool) -> f64 {
    let docs: Vec<&Vec<String>> = coll.iter().filter(|d| count_empty || !d.is_empty()).collect();
    let n = docs.len() + if count_null { nulls } else { 0 };
    if n == 0 {
        return 0.0;
    }
    let total: usize = docs.iter().map(|d| d.len()).sum();
    let avgdl = total as f64 / n as f64;
    let mut uniq: Vec<&String> = vec![];
    for t in qtokens {
        if !uniq.contains(&t) {
            uniq.push(t);
        }
    }
    let mut s = 0.0;
    for t in uniq {
        let nq = coll.iter().filter(|d| d.contains(t)).count();
        if nq == 0 {
            continue;
        }
        let f = doc.iter().filter(|x| *x == t).count() as f64;
        if f == 0.0 {
            continue;
        }
        let idf = ((n as f64 - nq as f64 + 0.5) / (nq as f64 + 0.5) + 1.0).ln();
        let norm = 1.2 * (1.0 - 0.75 + 0.75 * doc.len() as f64 / avgdl.max(1e-9));
        s += idf * (2.2 * f) / (f + norm);
    }
    s
}

struct CaseResult {
    cov: Cov,
    violations: Vec<Violation>,
    score_exact: u64,
    score_compared: u64,
    score_mismatch_sample: Option<String>,
}

fn eval_case(case: &Case, qs: &[Q]) -> CaseResult {
    let mut cov = Cov::new();
    let mut violations = vec![];
    let mut score_exact = 0;
    let mut score_compared = 0;
    let mut score_mismatch_sample = None;
    let built = match vds::run_catch(build(case)) {
        Ok(Ok(b)) => b,
        Ok(Err(e)) => {
            violations.push(Violation::new("build", &format!("build-error/{}", case.hist_name), e, json!({"case": case})));
            return CaseResult { cov, violations, score_exact, score_compared, score_mismatch_sample };
        }
        Err(p) => {
            violations.push(Violation::new("panic", &format!("panic/build/{}", case.hist_name), p, json!({"case": case})));
            return CaseResult { cov, violations, score_exact, score_compared, score_mismatch_sample };
        }
    };
    let live_tokens: BTreeMap<i32, Vec<String>> = built.live.iter().map(|(u, (d, _))| (*u, d.as_deref().map(tokenize).unwrap_or_default())).collect();
    let index_vocab: BTreeSet<String> = built.indexed_docs.iter().flat_map(|d| d.as_deref().map(tokenize).unwrap_or_default()).collect();
    let coll: Vec<Vec<String>> = built.indexed_docs.iter().filter_map(|d| d.as_deref().map(tokenize)).collect();
    let nulls = built.indexed_docs.iter().filter(|d| d.is_none()).count();
    for q in qs {
        let want: BTreeSet<i32> = live_tokens.iter().filter(|(_, t)| q.matches(t)).map(|(u, _)| *u).collect();
        let nontrivial = !want.is_empty() && want.len() < live_tokens.len();
        let h = vcore::hash64(format!("{:?}|{}|{:?}", case.docs, case.hist_name, q).as_bytes());
        cov.eval(if nontrivial { Some(h) } else { None });
        let art = json!({"case": case, "query": q});
        let res = vds::run_catch(run_query(&built.ds, q, None));
        let got = match res {
            Err(p) => {
                cov.outcome("panic");
                violations.push(Violation::new("panic", &format!("panic/{}/{}", q.kind(), case.hist_name), format!("query {q:?} panicked: {}", p.chars().take(200).collect::<String>()), art));
                continue;
            }
            Ok(Err(e)) => {
                // an empty boolean query (no must/should) is documented to be an error; nothing else is
                cov.outcome("error");
                violations.push(Violation::new(
                    "error",
                    &format!("error/{}/{}", q.kind(), case.hist_name),
                    format!("query {q:?} on docs {:?} [{}] failed: {}", case.docs, case.hist_name, e.chars().take(240).collect::<String>()),
                    art,
                ));
                continue;
            }
            Ok(Ok(g)) => g,
        };
        cov.outcome(if got.is_empty() { "empty" } else { "rows" });
        let got_set: BTreeSet<i32> = got.iter().map(|g| g.0).collect();
        let absent = q.tokens().iter().any(|t| !index_vocab.contains(t));
        let ctx = format!("query {q:?} on docs {:?} [{}]: got {:?}, model {:?}", case.docs, case.hist_name, got, want);
        if got_set.len() != got.len() {
            violations.push(Violation::new("dup", &format!("{}/duplicate-row", q.kind()), ctx.clone(), art.clone()));
        }
        for u in got_set.difference(&want) {
            let class = if built.deleted.contains(u) {
                "deleted-row-returned".to_string()
            } else if built.live.get(u).map(|x| x.1).unwrap_or(false) {
                format!("extra-indexed-row{}", if absent { "+query-token-absent-from-index" } else { "" })
            } else {
                "extra-unindexed-row".to_string()
            };
            // root-cause classes (derived from the input shape): see the known-findings list
            let key = match (q.kind().as_str(), class.as_str()) {
                ("match-and", "extra-indexed-row+query-token-absent-from-index") => "and-query-drops-token-unknown-to-index".to_string(),
                ("match-and", "extra-unindexed-row") => "and-operator-ignored-on-unindexed-rows".to_string(),
                (k, c) => format!("{k}/{c}"),
            };
            violations.push(Violation::new("match-set", &key, ctx.clone(), art.clone()));
        }
        for u in want.difference(&got_set) {
            let class = if built.live.get(u).map(|x| x.1).unwrap_or(false) {
                format!("missing-indexed-row@{}", case.hist_name)
            } else if matches!(q, Q::Phrase(_) | Q::BoolPhrase(..)) {
                "missing-unindexed-row".to_string()
            } else if coll.iter().all(|d| d.is_empty()) {
                // the index exists but holds only NULL / token-less documents
                "missing-unindexed-row+index-has-no-tokens".to_string()
            } else if q.tokens().iter().any(|t| live_tokens[u].iter().filter(|x| *x == t).count() >= 2) {
                "missing-unindexed-row+query-token-repeated-in-document".to_string()
            } else {
                "missing-unindexed-row".to_string()
            };
            let key = match class.as_str() {
                "missing-unindexed-row" if matches!(q, Q::Phrase(_) | Q::BoolPhrase(..)) => "phrase-not-searched-on-unindexed-rows".to_string(),
                "missing-unindexed-row+index-has-no-tokens" => "unindexed-rows-dropped-when-index-has-no-tokens".to_string(),
                "missing-unindexed-row+query-token-repeated-in-document" => "unindexed-row-with-repeated-query-token-dropped".to_string(),
                c => format!("{}/{}", q.kind(), c),
            };
            violations.push(Violation::new("match-set", &key, ctx.clone(), art.clone()));
        }
        // scores non-increasing
        if got.windows(2).any(|w| !(w[0].1 >= w[1].1)) || got.iter().any(|g| g.1.is_nan()) {
            violations.push(Violation::new("score-order", &format!("{}/score-not-descending", q.kind()), ctx.clone(), art.clone()));
        }
        // limit 1
        if matches!(q, Q::Match(..)) && got_set == want && got.len() >= 2 {
            match vds::run_catch(run_query(&built.ds, q, Some(1))) {
                Ok(Ok(top)) => {
                    let max = got.iter().map(|g| g.1).fold(f32::MIN, f32::max);
                    let ok = top.len() == 1 && got.iter().any(|g| g.0 == top[0].0 && (g.1 - max).abs() <= 1e-5 * max.abs().max(1.0));
                    if !ok {
                        violations.push(Violation::new("limit", &format!("{}/limit-1-not-top@{}", q.kind(), case.hist_name), format!("{ctx}; limit 1 gave {top:?}"), art.clone()));
                    }
                }
                Ok(Err(e)) => violations.push(Violation::new("limit", &format!("{}/limit-1-error", q.kind()), format!("{ctx}; limit 1 failed: {e}"), art.clone())),
                Err(p) => violations.push(Violation::new("panic", &format!("panic/{}/limit-1", q.kind()), p, art.clone())),
            }
        }
        // BM25 order in fully indexed single-partition states
        if built.partitions_single && matches!(q, Q::Match(..)) && got_set == want && got.len() >= 2 {
            let qt = q.tokens();
            let convs = [(false, false), (false, true), (true, false), (true, true)];
            let score = |u: i32, c: (bool, bool)| bm25(&qt, &live_tokens[&u], &coll, nulls, c.0, c.1);
            for w in got.windows(2) {
                if convs.iter().all(|c| score(w[1].0, *c) > score(w[0].0, *c) * (1.0 + 1e-4) + 1e-6) {
                    violations.push(Violation::new(
                        "bm25-order",
                        &format!("{}/rank-contradicts-bm25", q.kind()),
                        format!("{ctx}; uid {} is ranked before uid {} but BM25 is lower under every N/avgdl convention", w[0].0, w[1].0),
                        art.clone(),
                    ));
                }
            }
            // informational: exact agreement under the code's convention (N = non-NULL rows incl. empty)
            for g in &got {
                let s = score(g.0, (false, true));
                score_compared += 1;
                if (s - g.1 as f64).abs() <= 1e-4 * s.abs().max(1.0) {
                    score_exact += 1;
                } else if score_mismatch_sample.is_none() {
                    score_mismatch_sample = Some(format!("{ctx}: uid {} harness bm25 {s:.6}", g.0));
                }
            }
        }
        if nontrivial {
            cov.sample(json!({"docs": case.docs, "history": case.hist_name, "query": q, "result": got.iter().map(|g| json!([g.0, g.1])).collect::<Vec<_>>()}));
        }
    }
    CaseResult { cov, violations, score_exact, score_compared, score_mismatch_sample }
}

fn corpora(ctx: &Ctx) -> Vec<Vec<Doc>> {
    let docs = if ctx.quick() {
        // quick tier: a hand-picked sub-alphabet of documents (all pairs of these)
        [None, Some(""), Some("a"), Some("b"), Some("c"), Some("é"), Some("a a"), Some("a b"), Some("b a"), Some("a c"), Some("é a")]
            .iter()
            .map(|d| d.map(|s| s.to_string()))
            .collect()
    } else {
        all_docs(3)
    };
    let mut v = vec![];
    for i in 0..docs.len() {
        for j in i..docs.len() {
            v.push(vec![docs[i].clone(), docs[j].clone()]);
        }
    }
    v.extend(families());
    v
}

pub fn run(ctx: &Ctx) -> Outcome {
    let mut out = Outcome::new("exploration");
    let qs = queries(!ctx.quick());
    if let Some(art) = ctx.replay_case() {
        let c = &art["case"];
        let case: Case = serde_json::from_value(c["case"].clone()).unwrap_or_else(|e| vcore::machinery_error(&format!("bad replay case: {e}")));
        let q: Vec<Q> = match c.get("query") {
            Some(qv) if !qv.is_null() => vec![serde_json::from_value(qv.clone()).unwrap_or_else(|e| vcore::machinery_error(&format!("bad replay query: {e}")))],
            _ => qs.clone(),
        };
        let r = eval_case(&case, &q);
        out.violations = r.violations;
        r.cov.fill(&mut out, "replay of one case", false);
        return out;
    }
    let mut cases = vec![];
    for docs in corpora(ctx) {
        for (name, hist) in histories(docs.len()) {
            cases.push(Case { docs: docs.clone(), hist_name: name, hist });
        }
    }
    // VERIF_SEED only rotates the visiting order
    if !cases.is_empty() {
        let r = (ctx.seed as usize) % cases.len();
        cases.rotate_left(r);
    }
    let total_cases = cases.len();
    let wall = ctx.tier.pick(36.0, 800.0);
    let start = std::time::Instant::now();
    let results = vcore::par_map(cases, ctx.workers, |_, case| {
        if start.elapsed().as_secs_f64() > wall {
            return None;
        }
        Some(eval_case(&case, &qs))
    });
    let mut cov = Cov::new();
    let mut done = 0usize;
    let (mut exact, mut compared) = (0u64, 0u64);
    let mut mismatch_sample = None;
    for r in results.into_iter() {
        let Some(r) = r else { continue };
        done += 1;
        cov.merge(r.cov);
        out.violations.extend(r.violations);
        exact += r.score_exact;
        compared += r.score_compared;
        if mismatch_sample.is_none() {
            mismatch_sample = r.score_mismatch_sample;
        }
    }
    // shortest case first per key
    out.violations.sort_by_key(|v| (v.key.clone(), v.case.to_string().len()));
    let exhaustive = done == total_cases;
    cov.fill(
        &mut out,
        "every (corpus, history, query) of the stated space is one evaluation; non-trivial = the model's match set is neither empty nor all live rows; distinct by (documents, history, query)",
        exhaustive,
    );
    out.set("corpus_history_cases", json!({"total": total_cases, "completed": done}));
    out.set("queries_per_case", qs.len() as u64);
    out.set("bm25_exact_score_agreement", json!({"compared": compared, "within_1e-4": exact, "first_disagreement": mismatch_sample}));
    if !exhaustive {
        out.set("cap_hit", format!("wall cap {wall}s: {done} of {total_cases} cases completed"));
    }
    out.assume("harness tokeniser (split on non-alphanumeric, lower-case) is the reference for the `simple` tokenizer with stemming, stop words and ascii folding switched off");
    out.assume("boolean semantics: must = all, must_not = none, should is optional when a must clause exists and otherwise at least one should clause has to match");
    out.assume("ranking is judged as an order only (documentation promises BM25 ranking, no formula); exact score agreement is reported, not judged");
    out
}
