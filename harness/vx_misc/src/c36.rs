//! C36 – namespace catalog == hierarchical map (K1: explicit-state search over op sequences).
//!
//! Real object: `lance_namespace_impls::DirectoryNamespace` on a real temp directory (the manifest
//! code path opens `<root>/__manifest` through `Dataset::open` with a *default* session, so the
//! session-registry seam cannot route it to a MemStore; a directory under /tmp is used instead and
//! snapshotted/restored file by file – every location the catalog persists is relative to the root).
//!
//! State  = (snapshot of the directory tree, reference model).  Every transition restores the
//! snapshot into a fresh temp directory, builds a fresh `DirectoryNamespace` in the root's mode,
//! applies one mutating op to it and to the model, and then *observes* the whole catalog through
//! the read API (exists / describe / list with and without paging for every id of the profile's
//! universe) and compares every answer with the model.
//!
//! Model  = `BTreeSet` of namespace ids + `BTreeMap` table id -> kind.  Judgement of a mutating op:
//!   * model says the op must succeed and it does            -> model updated
//!   * model says it must fail (missing / duplicate / non-empty / unsupported in this mode) and it
//!     fails                                                 -> model unchanged
//!   * must fail but succeeds                                -> violation (`accepted/..`)
//!   * must succeed but is rejected                          -> tolerated *iff the id is rejected
//!     consistently*: the rejection is entered in a ledger, the catalog must be unchanged, and a
//!     post-pass reports every (mode, op kind, id) that was rejected in one state and accepted in
//!     another (`inconsistent-rejection/..`)
//!   * undecided by the property (table under a namespace that was never created; namespace and
//!     table with the same id) -> either answer is accepted, the model follows the implementation.
//! After every op the observation must equal the model: this is what detects an op on one id
//! affecting another id.

use lance_namespace::models::*;
use lance_namespace::LanceNamespace;
use lance_namespace_impls::{DirectoryNamespace, DirectoryNamespaceBuilder};
use serde::{Deserialize, Serialize};
use serde_json::json;
use std::collections::{BTreeMap, BTreeSet};
use std::path::Path as FsPath;
use std::sync::{Arc, Mutex};
use vcore::seqx::{self, Caps, Step, Sut};
use vcore::{Ctx, Outcome, Violation};

type Id = Vec<String>;

fn id(parts: &[&str]) -> Id {
    parts.iter().map(|s| s.to_string()).collect()
}

#[derive(Clone, Copy, Debug, PartialEq, Eq, Hash, PartialOrd, Ord, Serialize, Deserialize)]
pub enum Mode {
    Dir,
    Manifest,
    Dual,
}

impl Mode {
    fn name(&self) -> &'static str {
        match self {
            Mode::Dir => "dir",
            Mode::Manifest => "manifest",
            Mode::Dual => "dual",
        }
    }
    fn has_manifest(&self) -> bool {
        !matches!(self, Mode::Dir)
    }
}

#[derive(Clone, Debug, PartialEq, Eq, Hash, PartialOrd, Ord, Serialize, Deserialize)]
pub enum Op {
    CreateNs(Id),
    DropNs(Id),
    CreateEmpty(Id),
    CreateTable(Id),
    DropTable(Id),
    Register(Id, String),
    Deregister(Id),
}

impl Op {
    fn kind(&self) -> &'static str {
        match self {
            Op::CreateNs(_) => "create_namespace",
            Op::DropNs(_) => "drop_namespace",
            Op::CreateEmpty(_) => "create_empty_table",
            Op::CreateTable(_) => "create_table",
            Op::DropTable(_) => "drop_table",
            Op::Register(..) => "register_table",
            Op::Deregister(_) => "deregister_table",
        }
    }
    fn id(&self) -> &Id {
        match self {
            Op::CreateNs(i)
            | Op::DropNs(i)
            | Op::CreateEmpty(i)
            | Op::CreateTable(i)
            | Op::DropTable(i)
            | Op::Register(i, _)
            | Op::Deregister(i) => i,
        }
    }
}

/// structural class of a name; part of the classification keys
fn name_shape(s: &str) -> &'static str {
    if s.contains("' OR '") {
        "sql-injection"
    } else if s.contains('\'') {
        "quote"
    } else if s.contains('$') {
        "dollar"
    } else if s.contains('/') {
        "slash"
    } else if !s.is_ascii() {
        "non-ascii"
    } else if s.contains('.') {
        "dot"
    } else if s.chars().any(|c| c.is_ascii_uppercase()) {
        "upper"
    } else {
        "plain"
    }
}

fn id_shape(i: &Id) -> String {
    let mut shapes: Vec<&str> = i.iter().map(|s| name_shape(s)).filter(|s| *s != "plain").collect();
    shapes.dedup();
    let s = if shapes.is_empty() { "plain".to_string() } else { shapes.join("+") };
    format!("{}@depth{}", s, i.len())
}

#[derive(Clone, Copy, Debug, PartialEq, Eq, Hash, PartialOrd, Ord, Serialize, Deserialize)]
pub enum TKind {
    Empty,
    Data,
    Registered,
}

#[derive(Clone, Debug, Default, PartialEq, Eq, Hash)]
pub struct Model {
    ns: BTreeSet<Id>,
    tables: BTreeMap<Id, TKind>,
    /// dual mode only: root tables that are no longer in the manifest but whose `<name>.lance` directory is
    /// still there – the documented directory-listing fallback keeps them visible
    dir_only: BTreeSet<Id>,
}

impl Model {
    fn ns_exists(&self, i: &Id) -> bool {
        i.is_empty() || self.ns.contains(i)
    }
    fn child_ns(&self, parent: &Id) -> BTreeSet<String> {
        self.ns
            .iter()
            .filter(|n| n.len() == parent.len() + 1 && n[..parent.len()] == parent[..])
            .map(|n| n.last().unwrap().clone())
            .collect()
    }
    fn child_tables(&self, parent: &Id) -> BTreeSet<String> {
        self.tables
            .keys()
            .filter(|n| n.len() == parent.len() + 1 && n[..parent.len()] == parent[..])
            .map(|n| n.last().unwrap().clone())
            .collect()
    }
    fn has_children(&self, i: &Id) -> bool {
        self.ns.iter().any(|n| n.len() > i.len() && n[..i.len()] == i[..])
            || self.tables.keys().any(|n| n.len() > i.len() && n[..i.len()] == i[..])
    }
}

#[derive(Clone, Copy, Debug, PartialEq)]
enum Expect {
    Accept,
    Reject(&'static str),
    Either(&'static str),
}

fn expect(mode: Mode, m: &Model, op: &Op) -> Expect {
    use Expect::*;
    let i = op.id();
    if !mode.has_manifest() {
        // directory-listing mode: a flat map of root tables only
        return match op {
            Op::CreateNs(_) | Op::DropNs(_) => Reject("unsupported-in-dir-mode"),
            Op::Register(..) | Op::Deregister(_) => Reject("unsupported-in-dir-mode"),
            _ if i.len() != 1 => Reject("nested-id-in-dir-mode"),
            Op::CreateEmpty(_) | Op::CreateTable(_) => {
                if m.tables.contains_key(i) {
                    // the directory implementation documents no duplicate check for
                    // create_empty_table (the marker file is simply rewritten): undecided
                    if matches!(op, Op::CreateEmpty(_)) {
                        Either("recreate")
                    } else if m.tables.get(i) == Some(&TKind::Empty) {
                        // a reserved (location-only) table being materialised: undecided
                        Either("materialise-reserved")
                    } else {
                        Reject("duplicate")
                    }
                } else {
                    Accept
                }
            }
            Op::DropTable(_) => {
                if m.tables.contains_key(i) {
                    Accept
                } else {
                    // removing a directory that is not there: undecided (error or no-op)
                    Either("drop-missing")
                }
            }
        };
    }
    let parent: Id = i[..i.len() - 1].to_vec();
    if m.dir_only.contains(i) && !matches!(op, Op::CreateNs(_) | Op::DropNs(_)) {
        // table known only through the directory fallback: what manifest-level calls do with it is undecided
        return Either("directory-only-table");
    }
    match op {
        Op::CreateNs(_) => {
            if m.ns.contains(i) {
                Reject("duplicate")
            } else if !m.ns_exists(&parent) {
                Reject("parent-missing")
            } else if m.tables.contains_key(i) {
                Either("same-id-as-table")
            } else {
                Accept
            }
        }
        Op::DropNs(_) => {
            if !m.ns.contains(i) {
                Reject("missing")
            } else if m.has_children(i) {
                Reject("not-empty")
            } else {
                Accept
            }
        }
        Op::CreateEmpty(_) | Op::CreateTable(_) | Op::Register(..) => {
            if m.tables.contains_key(i) {
                Reject("duplicate")
            } else if !m.ns_exists(&parent) {
                Either("parent-missing")
            } else if m.ns.contains(i) {
                Either("same-id-as-namespace")
            } else {
                Accept
            }
        }
        Op::DropTable(_) | Op::Deregister(_) => {
            if m.tables.contains_key(i) {
                Accept
            } else {
                Reject("missing")
            }
        }
    }
}

fn apply(m: &mut Model, op: &Op) {
    if !matches!(op, Op::CreateNs(_) | Op::DropNs(_)) {
        m.dir_only.remove(op.id());
    }
    match op {
        Op::CreateNs(i) => {
            m.ns.insert(i.clone());
        }
        Op::DropNs(i) => {
            m.ns.remove(i);
        }
        Op::CreateEmpty(i) => {
            // re-creating an existing table (undecided case) keeps what is there
            m.tables.entry(i.clone()).or_insert(TKind::Empty);
        }
        Op::CreateTable(i) => {
            m.tables.insert(i.clone(), TKind::Data);
        }
        Op::Register(i, _) => {
            m.tables.insert(i.clone(), TKind::Registered);
        }
        Op::DropTable(i) | Op::Deregister(i) => {
            m.tables.remove(i);
        }
    }
}

// ------------------------------------------------------------------------------------------------
// directory snapshots

#[derive(Clone, Debug, Default)]
pub struct FsSnap {
    dirs: BTreeSet<String>,
    files: BTreeMap<String, Arc<Vec<u8>>>,
}

fn snap_dir(root: &FsPath) -> FsSnap {
    fn walk(root: &FsPath, rel: &str, out: &mut FsSnap) {
        let dir = if rel.is_empty() { root.to_path_buf() } else { root.join(rel) };
        let Ok(rd) = std::fs::read_dir(&dir) else { return };
        for e in rd.flatten() {
            let name = e.file_name().to_string_lossy().to_string();
            let r = if rel.is_empty() { name } else { format!("{rel}/{name}") };
            let Ok(ft) = e.file_type() else { continue };
            if ft.is_dir() {
                out.dirs.insert(r.clone());
                walk(root, &r, out);
            } else if let Ok(b) = std::fs::read(e.path()) {
                out.files.insert(r, Arc::new(b));
            }
        }
    }
    let mut s = FsSnap::default();
    walk(root, "", &mut s);
    s
}

fn restore_dir(root: &FsPath, s: &FsSnap) {
    for d in &s.dirs {
        std::fs::create_dir_all(root.join(d)).expect("restore dir");
    }
    for (f, b) in &s.files {
        std::fs::write(root.join(f), b.as_slice()).expect("restore file");
    }
}

/// Top-level entries with the random 8-hex-digit prefix of manifest-mode table directories normalised.
fn top_level(s: &FsSnap) -> Vec<String> {
    let mut v: Vec<String> = s
        .dirs
        .iter()
        .filter(|d| !d.contains('/'))
        .map(|d| {
            let b = d.as_bytes();
            if b.len() > 9 && b[8] == b'_' && b[..8].iter().all(|c| c.is_ascii_hexdigit()) {
                format!("#_{}", &d[9..])
            } else {
                d.clone()
            }
        })
        .collect();
    v.sort();
    v
}

// ------------------------------------------------------------------------------------------------
// profiles

#[derive(Clone, Debug)]
pub struct Profile {
    name: &'static str,
    mode: Mode,
    /// ids observed after every transition (as namespace *and* as table)
    universe: Vec<Id>,
    ops: Vec<Op>,
    /// wide alphabets are explored one level less deep than narrow ones
    shallow: bool,
}

fn ipc_data() -> bytes::Bytes {
    use arrow::ipc::writer::StreamWriter;
    use arrow_array::{Int32Array, RecordBatch};
    use arrow_schema::{DataType, Field, Schema};
    let schema = Arc::new(Schema::new(vec![Field::new("id", DataType::Int32, false)]));
    let batch = RecordBatch::try_new(schema.clone(), vec![Arc::new(Int32Array::from(vec![1]))]).unwrap();
    let mut buf = Vec::new();
    {
        let mut w = StreamWriter::try_new(&mut buf, &schema).unwrap();
        w.write(&batch).unwrap();
        w.finish().unwrap();
    }
    bytes::Bytes::from(buf)
}

fn mk_profile(name: &'static str, mode: Mode, ns: &[Id], tables: &[Id], with_data: &[Id], reg: &[Id]) -> Profile {
    let mut ops = vec![];
    for n in ns {
        ops.push(Op::CreateNs(n.clone()));
    }
    for t in tables {
        ops.push(Op::CreateEmpty(t.clone()));
    }
    for t in with_data {
        ops.push(Op::CreateTable(t.clone()));
    }
    for (k, t) in reg.iter().enumerate() {
        ops.push(Op::Register(t.clone(), format!("ext{k}.ds")));
    }
    for n in ns {
        ops.push(Op::DropNs(n.clone()));
    }
    for t in tables {
        ops.push(Op::DropTable(t.clone()));
    }
    for t in reg {
        ops.push(Op::Deregister(t.clone()));
    }
    let mut universe: Vec<Id> = vec![];
    for i in ns.iter().chain(tables).chain(with_data).chain(reg) {
        if !universe.contains(i) {
            universe.push(i.clone());
        }
    }
    Profile { name, mode, universe, ops, shallow: name == "fsnames" || name == "dir-all" }
}

const INJ: &str = "a' OR '1'='1";

fn profiles(quick: bool) -> Vec<Profile> {
    let mut v = vec![];
    for mode in [Mode::Manifest, Mode::Dual] {
        // baseline hierarchy: parents, non-empty drop, same id for namespace and table
        v.push(mk_profile(
            "plain",
            mode,
            &[id(&["a"]), id(&["a", "b"])],
            &[id(&["t"]), id(&["a", "t"]), id(&["a"])],
            &[id(&["t"])],
            &[id(&["a", "t"]), id(&["t"])],
        ));
        // `$` is the object-id delimiter of the manifest
        v.push(mk_profile(
            "dollar",
            mode,
            &[id(&["a"]), id(&["a", "b"]), id(&["a$b"])],
            &[id(&["a$b"]), id(&["a", "b"])],
            &[],
            &[id(&["a$b"])],
        ));
        // quotes reach SQL filter strings
        v.push(mk_profile(
            "quote",
            mode,
            &[id(&["a'b"]), id(&["b"])],
            &[id(&["a'b"]), id(&["c"])],
            &[],
            &[id(&["a'b"])],
        ));
        v.push(mk_profile(
            "inject",
            mode,
            &[id(&[INJ]), id(&["b"])],
            &[id(&[INJ]), id(&["c"])],
            &[],
            &[id(&[INJ])],
        ));
        // names that are hard for a file system / URL: dot, slash, unicode, case
        v.push(mk_profile(
            "fsnames",
            mode,
            &[id(&["é"]), id(&["A"])],
            &[id(&["a.b"]), id(&["a/b"]), id(&["é"]), id(&["A"]), id(&["a"])],
            if quick { &[] } else { &[] },
            &[],
        ));
    }
    for p in v.iter_mut().filter(|p| p.name == "plain") {
        // a registration whose location does not exist (register_table accepts any relative path)
        p.ops.push(Op::Register(id(&["a", "t"]), "missing.ds".into()));
        p.ops.push(Op::DropTable(id(&["a", "t"])));
    }
    // directory-listing mode: flat map of root tables; every name of the alphabet
    let all: Vec<Id> = ["a", "b", "a$b", "a'b", "a.b", "a/b", "é", "A", INJ]
        .iter()
        .map(|s| id(&[s]))
        .collect();
    let mut p = mk_profile("dir-all", Mode::Dir, &[id(&["a"])], &all, &[id(&["a"]), id(&["a/b"]), id(&["é"])], &[id(&["b"])]);
    p.ops.push(Op::CreateEmpty(id(&["a", "b"])));
    v.push(p);
    v
}

// ------------------------------------------------------------------------------------------------
// the system under test

#[derive(Clone)]
pub struct St {
    prof: Arc<Profile>,
    fs: Arc<FsSnap>,
    model: Model,
    /// manifest rows (object_id, type, normalised location) + manifest version, for the canonical form only
    hidden: String,
    hist: Vec<Op>,
}

#[derive(Default, Clone)]
struct Ledger {
    accepted: Option<Vec<Op>>,
    rejected: Option<(Vec<Op>, String)>,
}

pub struct Ns {
    profs: Vec<Arc<Profile>>,
    ledger: Mutex<BTreeMap<(String, String, Id), Ledger>>,
    stats: Mutex<BTreeMap<String, u64>>,
    /// violations that do not prune the search (see `step`)
    sink: Mutex<Vec<Violation>>,
    /// directory tree holding two tiny Lance datasets `ext0.ds`, `ext1.ds` (targets of register_table)
    ext_fs: Arc<FsSnap>,
    max_depth: usize,
}

fn make_ext_fs() -> Arc<FsSnap> {
    let tmp = tempfile::Builder::new().prefix("vx36-").tempdir_in(scratch_base()).expect("tempdir");
    let root = tmp.path().to_str().unwrap().to_string();
    vstore::block_on(async {
        use arrow_array::{Int32Array, RecordBatch, RecordBatchIterator};
        use arrow_schema::{DataType, Field, Schema};
        for k in 0..2 {
            let schema = Arc::new(Schema::new(vec![Field::new("id", DataType::Int32, false)]));
            let batch = RecordBatch::try_new(schema.clone(), vec![Arc::new(Int32Array::from(vec![k]))]).unwrap();
            let reader = RecordBatchIterator::new(vec![Ok(batch)], schema);
            lance::Dataset::write(reader, &format!("{root}/ext{k}.ds"), None).await.expect("ext dataset");
        }
    });
    Arc::new(snap_dir(tmp.path()))
}

fn err_class(e: &lance_core::Error) -> String {
    let s = format!("{e:?}");
    s.split(|c: char| !c.is_alphanumeric()).next().unwrap_or("Error").to_string()
}

async fn build_ns(root: &str, mode: Mode) -> lance_core::Result<DirectoryNamespace> {
    let b = DirectoryNamespaceBuilder::new(root);
    let b = match mode {
        Mode::Dir => b.manifest_enabled(false).dir_listing_enabled(true),
        Mode::Manifest => b.manifest_enabled(true).dir_listing_enabled(false),
        Mode::Dual => b.manifest_enabled(true).dir_listing_enabled(true),
    };
    b.build().await
}

async fn apply_real(ns: &DirectoryNamespace, op: &Op) -> Result<(), lance_core::Error> {
    match op {
        Op::CreateNs(i) => {
            let mut r = CreateNamespaceRequest::new();
            r.id = Some(i.clone());
            ns.create_namespace(r).await.map(|_| ())
        }
        Op::DropNs(i) => {
            let mut r = DropNamespaceRequest::new();
            r.id = Some(i.clone());
            ns.drop_namespace(r).await.map(|_| ())
        }
        Op::CreateEmpty(i) => {
            let mut r = CreateEmptyTableRequest::new();
            r.id = Some(i.clone());
            ns.create_empty_table(r).await.map(|_| ())
        }
        Op::CreateTable(i) => {
            let mut r = CreateTableRequest::new();
            r.id = Some(i.clone());
            ns.create_table(r, ipc_data()).await.map(|_| ())
        }
        Op::DropTable(i) => {
            let mut r = DropTableRequest::new();
            r.id = Some(i.clone());
            ns.drop_table(r).await.map(|_| ())
        }
        Op::Register(i, loc) => {
            let mut r = RegisterTableRequest::new(loc.clone());
            r.id = Some(i.clone());
            ns.register_table(r).await.map(|_| ())
        }
        Op::Deregister(i) => {
            let mut r = DeregisterTableRequest::new();
            r.id = Some(i.clone());
            ns.deregister_table(r).await.map(|_| ())
        }
    }
}

/// One mismatch between an observation and the model.
struct Mismatch {
    /// read op that disagreed
    probe: &'static str,
    /// id the probe was about
    about: Id,
    what: String,
}

fn set_of(v: &[String]) -> (BTreeSet<String>, bool) {
    let s: BTreeSet<String> = v.iter().cloned().collect();
    let dup = s.len() != v.len();
    (s, dup)
}

/// Drive the documented paging protocol: pass the response's page_token back until it is absent/empty.
async fn page_tables(ns: &DirectoryNamespace, nsid: &Id, limit: i32) -> Result<(Vec<String>, usize, bool), lance_core::Error> {
    let mut acc = vec![];
    let mut token: Option<String> = None;
    let mut pages = 0usize;
    let mut over = false;
    loop {
        let mut r = ListTablesRequest::new();
        r.id = Some(nsid.clone());
        r.limit = Some(limit);
        r.page_token = token.clone();
        let resp = ns.list_tables(r).await?;
        pages += 1;
        if resp.tables.len() > limit as usize {
            over = true;
        }
        acc.extend(resp.tables);
        match resp.page_token {
            Some(t) if !t.is_empty() && pages < 50 => token = Some(t),
            _ => break,
        }
    }
    Ok((acc, pages, over))
}

async fn page_namespaces(ns: &DirectoryNamespace, nsid: &Id, limit: i32) -> Result<(Vec<String>, usize, bool), lance_core::Error> {
    let mut acc = vec![];
    let mut token: Option<String> = None;
    let mut pages = 0usize;
    let mut over = false;
    loop {
        let mut r = ListNamespacesRequest::new();
        r.id = Some(nsid.clone());
        r.limit = Some(limit);
        r.page_token = token.clone();
        let resp = ns.list_namespaces(r).await?;
        pages += 1;
        if resp.namespaces.len() > limit as usize {
            over = true;
        }
        acc.extend(resp.namespaces);
        match resp.page_token {
            Some(t) if !t.is_empty() && pages < 50 => token = Some(t),
            _ => break,
        }
    }
    Ok((acc, pages, over))
}

async fn observe(ns: &DirectoryNamespace, mode: Mode, m: &Model, universe: &[Id], stats: &mut BTreeMap<String, u64>) -> Vec<Mismatch> {
    let mut out = vec![];
    let mut bump = |k: &str| *stats.entry(k.to_string()).or_insert(0) += 1;
    let mut parents: Vec<Id> = vec![vec![]];
    for u in universe {
        if !parents.contains(u) {
            parents.push(u.clone());
        }
        let p: Id = u[..u.len() - 1].to_vec();
        if !parents.contains(&p) {
            parents.push(p);
        }
    }
    // ---- namespaces
    for p in &parents {
        let exists = if mode.has_manifest() { m.ns_exists(p) } else { p.is_empty() };
        let mut r = NamespaceExistsRequest::new();
        r.id = Some(p.clone());
        let got = ns.namespace_exists(r).await;
        bump("probe:namespace_exists");
        if got.is_ok() != exists {
            out.push(Mismatch {
                probe: "namespace_exists",
                about: p.clone(),
                what: format!("namespace_exists({p:?}) = {:?}, model says {}", got.map_err(|e| e.to_string()), exists),
            });
        }
        let mut r = DescribeNamespaceRequest::new();
        r.id = Some(p.clone());
        let got = ns.describe_namespace(r).await;
        bump("probe:describe_namespace");
        if got.is_ok() != exists {
            out.push(Mismatch {
                probe: "describe_namespace",
                about: p.clone(),
                what: format!("describe_namespace({p:?}) ok={}, model says {}", got.is_ok(), exists),
            });
        }
        // list child namespaces
        let want_ns = if mode.has_manifest() { m.child_ns(p) } else { BTreeSet::new() };
        let mut r = ListNamespacesRequest::new();
        r.id = Some(p.clone());
        let got = ns.list_namespaces(r).await;
        bump("probe:list_namespaces");
        let mut ns_list_ok = true;
        match got {
            Ok(resp) => {
                let (s, dup) = set_of(&resp.namespaces);
                if (exists && s != want_ns) || (!exists && !s.is_empty()) || dup {
                    ns_list_ok = false;
                    out.push(Mismatch {
                        probe: "list_namespaces",
                        about: p.clone(),
                        what: format!("list_namespaces({p:?}) = {:?}, model {:?} (namespace exists: {exists})", resp.namespaces, want_ns),
                    });
                }
            }
            Err(e) => {
                ns_list_ok = false;
                if exists {
                    out.push(Mismatch {
                        probe: "list_namespaces",
                        about: p.clone(),
                        what: format!("list_namespaces({p:?}) failed: {e}; model {:?}", want_ns),
                    });
                }
            }
        }
        for limit in [1i32, 2] {
            if ns_list_ok && exists && want_ns.len() > limit as usize {
                bump("probe:list_namespaces-paged-nontrivial");
                match page_namespaces(ns, p, limit).await {
                    Ok((acc, pages, over)) => {
                        let (s, dup) = set_of(&acc);
                        if s != want_ns || dup || over {
                            let why = if over { "limit-exceeded" } else if dup { "duplicate" } else { "missed" };
                            out.push(Mismatch {
                                probe: if over { "list_namespaces-limit" } else { "list_namespaces-paging" },
                                about: p.clone(),
                                what: format!("paging list_namespaces({p:?}, limit {limit}) over {pages} page(s) gave {acc:?} ({why}), model {want_ns:?}"),
                            });
                        }
                    }
                    Err(e) => out.push(Mismatch {
                        probe: "list_namespaces-paging",
                        about: p.clone(),
                        what: format!("paging list_namespaces({p:?}) failed: {e}"),
                    }),
                }
            }
        }
        // list tables
        let want_t = m.child_tables(p);
        let mut r = ListTablesRequest::new();
        r.id = Some(p.clone());
        let got = ns.list_tables(r).await;
        bump("probe:list_tables");
        // a listing of a namespace that does not exist may fail or be empty, unless tables were
        // accepted under it (the undecided "parent-missing" case): then they must be listed
        let mut t_list_ok = true;
        match got {
            Ok(resp) => {
                let (s, dup) = set_of(&resp.tables);
                if s != want_t || dup {
                    t_list_ok = false;
                    out.push(Mismatch {
                        probe: if s == want_t { "list_tables-duplicate" } else { "list_tables" },
                        about: p.clone(),
                        what: format!("list_tables({p:?}) = {:?}, model {:?}", resp.tables, want_t),
                    });
                }
            }
            Err(e) => {
                t_list_ok = false;
                if exists || !want_t.is_empty() {
                    out.push(Mismatch {
                        probe: "list_tables",
                        about: p.clone(),
                        what: format!("list_tables({p:?}) failed: {e}; model {:?}", want_t),
                    });
                }
            }
        }
        for limit in [1i32, 2] {
            if t_list_ok && want_t.len() > limit as usize {
                bump("probe:list_tables-paged-nontrivial");
                match page_tables(ns, p, limit).await {
                    Ok((acc, pages, over)) => {
                        let (s, dup) = set_of(&acc);
                        if s != want_t || dup || over {
                            let why = if over { "limit-exceeded" } else if dup { "duplicate" } else { "missed" };
                            out.push(Mismatch {
                                probe: if over { "list_tables-limit" } else { "list_tables-paging" },
                                about: p.clone(),
                                what: format!("paging list_tables({p:?}, limit {limit}) over {pages} page(s) gave {acc:?} ({why}), model {want_t:?}"),
                            });
                        }
                    }
                    Err(e) => out.push(Mismatch {
                        probe: "list_tables-paging",
                        about: p.clone(),
                        what: format!("paging list_tables({p:?}) failed: {e}"),
                    }),
                }
            }
        }
    }
    // ---- tables
    for t in universe {
        let want = m.tables.get(t);
        let mut r = TableExistsRequest::new();
        r.id = Some(t.clone());
        let got = ns.table_exists(r).await;
        bump("probe:table_exists");
        if got.is_ok() != want.is_some() {
            out.push(Mismatch {
                probe: "table_exists",
                about: t.clone(),
                what: format!("table_exists({t:?}) = {:?}, model says {:?}", got.map_err(|e| e.to_string()), want),
            });
        }
        let mut r = DescribeTableRequest::new();
        r.id = Some(t.clone());
        let got = ns.describe_table(r).await;
        bump("probe:describe_table");
        match (got, want) {
            (Ok(resp), Some(kind)) => {
                let bad = match kind {
                    TKind::Data => resp.version != Some(1) || resp.schema.is_none(),
                    TKind::Empty => resp.version.is_some(),
                    TKind::Registered => false,
                } || resp.location.as_deref().unwrap_or("").is_empty();
                if bad {
                    out.push(Mismatch {
                        probe: "describe_table-payload",
                        about: t.clone(),
                        what: format!("describe_table({t:?}) = version {:?} location {:?}, model kind {kind:?}", resp.version, resp.location),
                    });
                }
            }
            (Err(_), None) => {}
            (Ok(resp), None) => out.push(Mismatch {
                probe: "describe_table",
                about: t.clone(),
                what: format!("describe_table({t:?}) succeeded (location {:?}) but the model has no such table", resp.location),
            }),
            (Err(e), Some(kind)) => out.push(Mismatch {
                probe: "describe_table",
                about: t.clone(),
                what: format!("describe_table({t:?}) failed ({e}) but the model has a {kind:?} table"),
            }),
        }
    }
    out
}

/// rows of the `__manifest` dataset, for the canonical form of a state
async fn hidden_state(root: &str) -> String {
    use futures::TryStreamExt;
    let Ok(ds) = lance::Dataset::open(&format!("{root}/__manifest")).await else {
        return "no-manifest".into();
    };
    let Ok(stream) = ds.scan().try_into_stream().await else { return "scan-failed".into() };
    let batches: Vec<arrow_array::RecordBatch> = stream.try_collect().await.unwrap_or_default();
    let mut rows: Vec<String> = vec![];
    for b in &batches {
        for r in vds::cells::batch_rows(b) {
            let mut s = format!("{:?}", &r[..3.min(r.len())]);
            // normalise random directory prefixes
            if let Some(vds::cells::Cell::S(loc)) = r.get(2) {
                let lb = loc.as_bytes();
                if lb.len() > 9 && lb[8] == b'_' && lb[..8].iter().all(|c| c.is_ascii_hexdigit()) {
                    s = format!("{:?} #_{}", &r[..2], &loc[9..]);
                }
            }
            rows.push(s);
        }
    }
    rows.sort();
    format!("v{} {:?}", ds.version().version, rows)
}

/// Scratch directories live on tmpfs when there is one (`/dev/shm`; ext4 `/tmp` with `discard` makes
/// every delete cost ~1 ms), else under /tmp. `VX36_TMP` overrides. Always removed after the step.
fn scratch_base() -> String {
    if let Ok(p) = std::env::var("VX36_TMP") {
        return p;
    }
    if std::fs::metadata("/dev/shm").map(|m| m.is_dir()).unwrap_or(false) {
        "/dev/shm".into()
    } else {
        "/tmp".into()
    }
}

fn short(s: &str) -> String {
    s.chars().take(300).collect()
}

impl Ns {
    fn ledger_key(prof: &Profile, op: &Op) -> (String, String, Id) {
        (format!("{}/{}", prof.mode.name(), prof.name), op.kind().to_string(), op.id().clone())
    }
    fn note_accept(&self, prof: &Profile, op: &Op, hist: &[Op]) {
        let mut l = self.ledger.lock().unwrap();
        let e = l.entry(Self::ledger_key(prof, op)).or_default();
        let better = match &e.accepted {
            None => true,
            Some(old) => (hist.len(), format!("{hist:?}")) < (old.len(), format!("{old:?}")),
        };
        if better {
            e.accepted = Some(hist.to_vec());
        }
    }
    fn note_reject(&self, prof: &Profile, op: &Op, hist: &[Op], err: &str) {
        let mut l = self.ledger.lock().unwrap();
        let e = l.entry(Self::ledger_key(prof, op)).or_default();
        let better = match &e.rejected {
            None => true,
            Some((old, _)) => (hist.len(), format!("{hist:?}")) < (old.len(), format!("{old:?}")),
        };
        if better {
            e.rejected = Some((hist.to_vec(), err.to_string()));
        }
    }
}

impl Sut for Ns {
    type State = St;
    type Op = Op;

    fn init(&self) -> Vec<(String, St)> {
        self.profs
            .iter()
            .map(|p| {
                // roots whose alphabet registers tables start with the external datasets `extK.ds`
                // already on disk (register_table of "missing.ds" deliberately points nowhere)
                let has_reg = p.mode.has_manifest() && p.ops.iter().any(|o| matches!(o, Op::Register(..)));
                let fs = if has_reg { self.ext_fs.clone() } else { Arc::new(FsSnap::default()) };
                (
                    format!("{}/{}", p.mode.name(), p.name),
                    St { prof: p.clone(), fs, model: Model::default(), hidden: String::new(), hist: vec![] },
                )
            })
            .collect()
    }

    fn ops(&self, st: &St, depth: usize) -> Vec<Op> {
        if st.prof.shallow && depth + 1 >= self.max_depth {
            return vec![];
        }
        st.prof.ops.clone()
    }

    fn op_kind(&self, op: &Op) -> String {
        op.kind().to_string()
    }

    fn canon(&self, st: &St) -> u64 {
        let s = format!(
            "{}|{}|{:?}|{:?}{:?}|{:?}|{}",
            st.prof.mode.name(),
            st.prof.name,
            st.model.ns,
            st.model.tables,
            st.model.dir_only,
            top_level(&st.fs),
            st.hidden
        );
        vcore::hash64(s.as_bytes())
    }

    fn step(&self, st: &St, op: &Op) -> Step<St> {
        let mode = st.prof.mode;
        let exp = expect(mode, &st.model, op);
        let tmp = tempfile::Builder::new().prefix("vx36-").tempdir_in(scratch_base()).expect("tempdir");
        let root = tmp.path().to_str().unwrap().to_string();
        let tr = std::time::Instant::now();
        restore_dir(tmp.path(), &st.fs);
        if std::env::var("VX36_TIME").is_ok() {
            eprintln!("   restore {:?}", tr.elapsed());
        }
        let mut hist = st.hist.clone();
        hist.push(op.clone());
        let shape = id_shape(op.id());
        let mut local_stats = BTreeMap::new();
        let universe = st.prof.universe.clone();
        let model0 = st.model.clone();
        let op2 = op.clone();
        let root2 = root.clone();
        let res = vds::run_catch(async move {
            let t0 = std::time::Instant::now();
            let ns = build_ns(&root2, mode).await.map_err(|e| format!("build failed: {e}"))?;
            let t1 = t0.elapsed();
            let r = apply_real(&ns, &op2).await;
            let t2 = t0.elapsed();
            let mut model = model0.clone();
            let accepted = r.is_ok();
            // tentative model: follows the implementation's answer (judged below)
            if accepted {
                apply(&mut model, &op2);
                if let (Mode::Dual, Op::Deregister(i)) = (mode, &op2) {
                    // documented dual-mode behaviour: a root table whose `<name>.lance` directory exists is
                    // found by directory listing when it is not in the manifest
                    if let (1, Some(k @ (TKind::Empty | TKind::Data))) = (i.len(), model0.tables.get(i)) {
                        if !model0.dir_only.contains(i) {
                            model.tables.insert(i.clone(), *k);
                            model.dir_only.insert(i.clone());
                        }
                    }
                }
            }
            let mism = observe(&ns, mode, &model, &universe, &mut local_stats).await;
            let t3 = t0.elapsed();
            let hidden = hidden_state(&root2).await;
            if std::env::var("VX36_TIME").is_ok() {
                eprintln!("build {:?} op {:?} observe {:?} hidden {:?} {:?} -> {:?}\n   manifest rows: {}", t1, t2 - t1, t3 - t2, t0.elapsed() - t3, op2, r.as_ref().map_err(|e| e.to_string()), hidden);
            }
            Ok::<_, String>((r.map_err(|e| (err_class(&e), e.to_string())), model, mism, hidden, local_stats))
        });
        let case = json!({"mode": mode.name(), "op": op, "expected": format!("{exp:?}")});
        let (r, model, mism, hidden, local_stats) = match res {
            Err(panic) => {
                return Step {
                    next: None,
                    outcome: "panic".into(),
                    violations: vec![Violation::new(
                        "panic",
                        &format!("{}/panic/{}/{}", mode.name(), op.kind(), shape),
                        format!("{} {:?} panicked: {}", op.kind(), op.id(), short(&panic)),
                        case,
                    )],
                }
            }
            Ok(Err(e)) => {
                return Step {
                    next: None,
                    outcome: "build-failed".into(),
                    violations: vec![Violation::new(
                        "build",
                        &format!("{}/namespace-build-failed-after/{}", mode.name(), st.hist.last().map(|o| o.kind()).unwrap_or("nothing")),
                        short(&e),
                        case,
                    )],
                }
            }
            Ok(Ok(x)) => x,
        };
        {
            let mut s = self.stats.lock().unwrap();
            *s.entry(format!("transitions:{}/{}", mode.name(), st.prof.name)).or_insert(0) += 1;
            for (k, v) in local_stats {
                *s.entry(k).or_insert(0) += v;
            }
        }
        let ts = std::time::Instant::now();
        let fs = Arc::new(snap_dir(tmp.path()));
        let nfiles = fs.files.len();
        drop(tmp);
        if std::env::var("VX36_TIME").is_ok() {
            eprintln!("   snapshot+cleanup {:?} files {}", ts.elapsed(), nfiles);
        }
        let mut violations = vec![]; // these prune the subtree (model and implementation diverged)
        let mut soft = vec![]; // wrong answers of read calls on a state that is itself intact: exploration continues
        let has_shape = |i: &Id, sh: &str| i.iter().any(|n| name_shape(n) == sh);
        let accepted = r.is_ok();
        // ---- classify every observation mismatch: (key, prunes?, text)
        let same_id_as_ns = matches!(exp, Expect::Either("same-id-as-namespace")) && accepted;
        let mut classified: Vec<(String, bool, String)> = vec![];
        for mm in &mism {
            let about_is_table_only = model.tables.contains_key(&mm.about) && !model.ns.contains(&mm.about);
            let about_is_ns_only = model.ns.contains(&mm.about) && !model.tables.contains_key(&mm.about);
            let collides = |x: &Id| model.ns.iter().chain(model.tables.keys()).chain(std::iter::once(op.id())).any(|o| o != x && o.join("$") == x.join("$"));
            let (key, prune) = if mm.probe.ends_with("-paging") || mm.probe.ends_with("-limit") {
                let why = if mm.what.contains("(limit-exceeded)") { "limit-exceeded" } else if mm.what.contains("(duplicate)") { "duplicate" } else { "missed-no-continuation-token" };
                if why == "limit-exceeded" {
                    // more entries than `limit` in one page, but every entry arrives exactly once: the property
                    // is about completeness of paging, so this is recorded as an observation, not judged
                    *self.stats.lock().unwrap().entry(format!("observation:{}-page-larger-than-limit", mm.probe.split('-').next().unwrap())).or_insert(0) += 1;
                    continue;
                }
                (format!("paging-{}", why), false)
            } else if mm.probe == "list_tables-duplicate" && mode == Mode::Dual && mm.about.is_empty() {
                // same name in the manifest and as a `<name>.lance` directory with another location
                ("dual-list_tables-repeats-name-found-in-manifest-and-directory".to_string(), true)
            } else if mm.probe == "namespace_exists" && about_is_table_only {
                ("type-confusion-missing-object-type-filter".to_string(), false)
            } else if mm.probe == "table_exists" && about_is_ns_only {
                ("type-confusion-missing-object-type-filter".to_string(), false)
            } else if same_id_as_ns && (mm.probe.contains("namespace") && (&mm.about == op.id() || mm.about[..] == op.id()[..op.id().len() - 1])) {
                (format!("{}-overwrites-namespace-of-same-id", op.kind()), true)
            } else if has_shape(op.id(), "sql-injection") {
                ("sql-filter-injection".to_string(), true)
            } else if has_shape(&mm.about, "sql-injection") {
                ("sql-filter-injection".to_string(), true)
            } else if mode.has_manifest() && (has_shape(&mm.about, "dollar") || has_shape(op.id(), "dollar")) && (collides(&mm.about) || collides(op.id()) || mm.probe.starts_with("list_")) {
                ("dollar-delimiter-collision".to_string(), true)
            } else if mode != Mode::Manifest && (has_shape(&mm.about, "non-ascii") || has_shape(&mm.about, "slash") || has_shape(op.id(), "non-ascii") || has_shape(op.id(), "slash")) {
                let sh = if has_shape(&mm.about, "slash") || has_shape(op.id(), "slash") { "slash" } else { "non-ascii" };
                { let _ = sh; ("unfaithful-name-percent-encoded".to_string(), true) }
            } else {
                let rel = if &mm.about == op.id() { "self" } else { "other" };
                (
                    format!("{}/observe/{}/after-{}({})/{}/{}", mode.name(), mm.probe, op.kind(), if accepted { "ok" } else { "err" }, shape, rel),
                    true,
                )
            };
            classified.push((key, prune, short(&mm.what)));
        }
        let generic: Vec<String> = classified.iter().filter(|c| c.0.contains("/observe/")).map(|c| c.2.clone()).take(4).collect();
        let mut fold_generic = false;
        let outcome = match (&r, exp) {
            (Ok(()), Expect::Accept) => {
                self.note_accept(&st.prof, op, &hist);
                "ok".to_string()
            }
            (Ok(()), Expect::Either(why)) => format!("ok({why})"),
            (Err((c, _)), Expect::Either(why)) => format!("rejected({why}):{c}"),
            (Err((c, _)), Expect::Reject(why)) => format!("rejected({why}):{c}"),
            (Ok(()), Expect::Reject(why)) => {
                let key = if matches!(op, Op::DropNs(_)) && st.model.tables.contains_key(op.id()) && !st.model.ns.contains(op.id()) {
                    "type-confusion-missing-object-type-filter".to_string()
                } else if matches!(op, Op::CreateNs(_)) && why == "parent-missing" && st.model.tables.contains_key(&op.id()[..op.id().len() - 1].to_vec()) {
                    "type-confusion-missing-object-type-filter".to_string()
                } else if has_shape(op.id(), "sql-injection") {
                    "sql-filter-injection".to_string()
                } else if has_shape(op.id(), "dollar") || st.model.ns.iter().chain(st.model.tables.keys()).any(|o| o != op.id() && o.join("$") == op.id().join("$")) {
                    "dollar-delimiter-collision".to_string()
                } else {
                    format!("{}/accepted/{}/{}/{}", mode.name(), op.kind(), why, shape)
                };
                fold_generic = true;
                violations.push(Violation::new(
                    "op-class",
                    &key,
                    format!(
                        "[{} mode] {} {:?} succeeded although the model requires a failure ({why}); model before: ns {:?} tables {:?}{}",
                        mode.name(),
                        op.kind(),
                        op.id(),
                        st.model.ns,
                        st.model.tables,
                        if generic.is_empty() { String::new() } else { format!("; afterwards: {}", generic.join(" | ")) }
                    ),
                    case.clone(),
                ));
                format!("ACCEPTED({why})")
            }
            (Err((c, msg)), Expect::Accept) => {
                if classified.iter().all(|c| !c.1) {
                    // rejected and the catalog is what it was: tolerated if consistent (ledger)
                    self.note_reject(&st.prof, op, &hist, msg);
                } else if !generic.is_empty() {
                    fold_generic = true;
                    violations.push(Violation::new(
                        "op-class",
                        &if matches!(op, Op::DropTable(_)) && st.model.tables.get(op.id()) == Some(&TKind::Registered) {
                            "failed-drop_table-removed-manifest-row".to_string()
                        } else {
                            format!("failed-op-changed-catalog/{}/{}", op.kind(), shape)
                        },
                        format!("[{} mode] {} {:?} returned an error ({}) but the catalog changed: {}", mode.name(), op.kind(), op.id(), short(msg), generic.join(" | ")),
                        case.clone(),
                    ));
                }
                format!("rejected-unexpectedly:{c}")
            }
        };
        // a call that returned an error must leave the catalog as it was, whatever the model expected of it
        if let (Err((_, msg)), false, false) = (&r, fold_generic, generic.is_empty()) {
            fold_generic = true;
            let key = match op {
                Op::CreateEmpty(_) => "failed-create_empty_table-leaves-reserved-directory".to_string(),
                _ => format!("failed-op-changed-catalog/{}/{}", op.kind(), shape),
            };
            violations.push(Violation::new(
                "op-class",
                &key,
                format!("[{} mode] after {:?}: {} {:?} returned an error ({}) but the catalog changed: {}", mode.name(), st.hist, op.kind(), op.id(), short(msg), generic.join(" | ")),
                case.clone(),
            ));
        }
        let mut seen_keys = BTreeSet::new();
        for (key, prune, what) in classified {
            if fold_generic && key.contains("/observe/") {
                continue;
            }
            if seen_keys.insert(key.clone()) {
                let v = Violation::new("observe", &key, format!("[{} mode] after {:?} then {} {:?} ({}): {}", mode.name(), st.hist, op.kind(), op.id(), if accepted { "ok" } else { "error" }, what), case.clone());
                if prune {
                    violations.push(v);
                } else {
                    soft.push(v);
                }
            }
        }
        if !soft.is_empty() {
            let root = format!("{}/{}", mode.name(), st.prof.name);
            let mut sink = self.sink.lock().unwrap();
            for mut v in soft {
                v.case = json!({"root": root, "ops": hist, "detail": v.case});
                sink.push(v);
            }
        }
        Step { next: Some(St { prof: st.prof.clone(), fs, model, hidden, hist }), outcome, violations }
    }
}

pub fn run(ctx: &Ctx) -> Outcome {
    let mut out = Outcome::new("model_checking");
    let quick = ctx.quick();
    let mut profs: Vec<Arc<Profile>> = profiles(quick).into_iter().map(Arc::new).collect();
    if let Some(only) = ctx.opts.get("profile") {
        profs.retain(|p| format!("{}/{}", p.mode.name(), p.name).contains(only.as_str()));
    }
    let sut = Ns { profs: profs.clone(), ledger: Mutex::new(BTreeMap::new()), stats: Mutex::new(BTreeMap::new()), sink: Mutex::new(vec![]), ext_fs: make_ext_fs(), max_depth: ctx.opts.get("depth").and_then(|d| d.parse().ok()).unwrap_or(ctx.tier.pick(3, 4)) };

    if let Some(art) = ctx.replay_case() {
        let case = &art["case"];
        if case.get("accepted_after").is_some() {
            // inconsistent-rejection artefact: two traces
            let mut still = 0;
            for k in ["accepted_after", "rejected_after"] {
                let c = json!({"root": case["root"], "ops": case[k]});
                match seqx::replay(&sut, &c) {
                    Ok(v) => out.violations.extend(v),
                    Err(e) => vcore::machinery_error(&format!("replay: {e}")),
                }
                still += 1;
            }
            out.violations.extend(ledger_violations(&sut));
            out.violations.extend(sink_violations(&sut));
            out.set("replayed_traces", still);
        } else {
            match seqx::replay(&sut, case) {
                Ok(v) => out.violations.extend(v),
                Err(e) => vcore::machinery_error(&format!("replay: {e}")),
            }
            // non-pruning violations of the last step of the replayed trace only
            let n = case["ops"].as_array().map(|a| a.len()).unwrap_or(0);
            out.violations.extend(sink_violations(&sut).into_iter().filter(|v| v.case["ops"].as_array().map(|a| a.len()) == Some(n)));
        }
        out.set("states", 0).set("transitions", 0).set("traces_validated_against_impl", 1).set("samples", json!([case]));
        return out;
    }

    let depth = sut.max_depth;
    let caps = Caps { max_depth: depth, max_states: 200_000, wall_s: ctx.tier.pick(38.0, 800.0) };
    let rep = seqx::explore(&sut, &caps, ctx.workers);
    out.violations.extend(rep.violations.iter().cloned());
    out.violations.extend(ledger_violations(&sut));
    out.violations.extend(sink_violations(&sut));
    rep.fill(&mut out);
    let stats = sut.stats.lock().unwrap().clone();
    out.set("probes", json!(stats));
    out.set("depth", json!({"narrow profiles": depth, "wide profiles (fsnames, dir-all)": depth - 1}));
    out.set(
        "profiles",
        json!(profs.iter().map(|p| json!({"root": format!("{}/{}", p.mode.name(), p.name), "ops": p.ops.len(), "observed_ids": p.universe})).collect::<Vec<_>>()),
    );
    let led = sut.ledger.lock().unwrap();
    out.set("ids_rejected_consistently", json!(led.iter().filter(|(_, l)| l.rejected.is_some() && l.accepted.is_none()).map(|(k, _)| format!("{}/{}/{:?}", k.0, k.1, k.2)).collect::<Vec<_>>()));
    out.assume("storage is a real temp directory under /tmp (local file system), not an object store model");
    out.assume("read-only calls are used as the observation in every state and are assumed not to change the catalog");
    out.assume("undecided by the property and accepted either way: table created under a namespace that was never created; namespace and table with the same id; dir-mode create_empty_table of an existing table and drop of a missing table");
    out
}

fn sink_violations(sut: &Ns) -> Vec<Violation> {
    let mut v: Vec<Violation> = sut.sink.lock().unwrap().drain(..).collect();
    // deterministic order: per key the shortest, then lexicographically smallest, history first
    v.sort_by_key(|x| (x.key.clone(), x.case["ops"].as_array().map(|a| a.len()).unwrap_or(0), x.case["ops"].to_string()));
    v
}

fn ledger_violations(sut: &Ns) -> Vec<Violation> {
    let led = sut.ledger.lock().unwrap();
    let mut v = vec![];
    for ((root, kind, idv), l) in led.iter() {
        if let (Some(acc), Some((rej, err))) = (&l.accepted, &l.rejected) {
            let mode = root.split('/').next().unwrap_or("");
            v.push(Violation::new(
                "consistent-rejection",
                &if idv.iter().any(|n| name_shape(n) == "sql-injection") {
                    "sql-filter-injection".to_string()
                } else if idv.iter().any(|n| name_shape(n) == "dollar") {
                    "dollar-delimiter-collision".to_string()
                } else {
                    format!("{mode}/inconsistent-rejection/{kind}/{}", id_shape(idv))
                },
                format!("{kind} {idv:?} is accepted after {:?} but rejected after {:?} although the model allows it in both states: {}", &acc[..acc.len() - 1], &rej[..rej.len() - 1], short(err)),
                json!({"root": root, "accepted_after": acc, "rejected_after": rej}),
            ));
        }
    }
    v
}
