//! C22 – exact vector search modes are exact (K1 x K5, bounded exhaustive over a stated family).
//!
//! Vectors: n rows taken from the lattice {-1,0,1,2}^d (always containing the zero vector and one
//! duplicate), d in {1,2,3,8,9,16,17}; element type f32 (quick) + f16 / f64 (thorough).
//! Table: uid:int32, k:int32? (cycles 0,1,2,NULL), vec:fixed_size_list<d>.
//! Modes: flat (no index / use_index(false)), IVF_FLAT with nprobes = all partitions,
//!        IVF_SQ + refine(large) with nprobes = all, IVF_PQ + refine(large) (thorough; needs >=256 rows).
//! Histories: index; index+append; index+delete; index+delete+compact; index+append+optimize_indices.
//! Queries: metric in {L2, cosine, dot} x k in {1,2,n,n+3} x prefilter in {none, `k = 0`, `k = 99`}
//!          x fast_search in {off,on} x 3 query vectors (zero vector, a data vector, a vector off the data).
//!
//! Oracle (distances recomputed in f64 from the exact lattice values):
//!   * every returned uid is live and passes the filter
//!   * reported `_distance` == recomputed distance (per-type tolerance), ascending
//!   * multiset of returned distances == the smallest true distances (ties compared by distance, not id)
//!   * count == min(k, matching rows) – with fast_search only over the indexed rows, and rows appended
//!     after indexing must be found unless fast_search
//! Cosine with a zero vector is undefined (0/0): rows whose true distance is undefined are not judged
//! for order / value; everything else still is. k-means seeding is random, all partitions are probed,
//! and every failing case is re-run once: a verdict that does not repeat is reported as `flaky`.

use arrow_array::types::{Float16Type, Float32Type, Float64Type};
use arrow_array::{Array, ArrayRef, FixedSizeListArray, Float32Array, Int32Array, PrimitiveArray, RecordBatch};
use arrow_schema::{DataType, Field, Schema};
use futures::TryStreamExt;
use lance::dataset::optimize::{compact_files, CompactionOptions};
use lance::dataset::WriteMode;
use lance::index::vector::VectorIndexParams;
use lance::Dataset;
use lance_index::optimize::OptimizeOptions;
use lance_index::vector::ivf::IvfBuildParams;
use lance_index::vector::pq::PQBuildParams;
use lance_index::vector::sq::builder::SQBuildParams;
use lance_index::{DatasetIndexExt, IndexType};
use lance_linalg::distance::MetricType;
use serde::{Deserialize, Serialize};
use serde_json::json;
use std::collections::{BTreeMap, BTreeSet};
use std::sync::Arc;
use vcore::{Cov, Ctx, Outcome, Violation};
use vds::Env;

const URI: &str = "memory://vec";
const LATTICE: [i32; 4] = [-1, 0, 1, 2];

#[derive(Clone, Copy, Debug, PartialEq, Eq, Hash, Serialize, Deserialize)]
pub enum Elem {
    F16,
    F32,
    F64,
}

impl Elem {
    fn dt(&self) -> DataType {
        match self {
            Elem::F16 => DataType::Float16,
            Elem::F32 => DataType::Float32,
            Elem::F64 => DataType::Float64,
        }
    }
    fn tol(&self) -> f64 {
        match self {
            Elem::F16 => 2e-3,
            Elem::F32 => 1e-5,
            Elem::F64 => 1e-5, // `_distance` is an f32 column
        }
    }
}

#[derive(Clone, Copy, Debug, PartialEq, Eq, Hash, Serialize, Deserialize)]
pub enum Mode {
    Flat,
    IvfFlat,
    IvfSq,
    IvfPq,
}

#[derive(Clone, Copy, Debug, PartialEq, Eq, Hash, Serialize, Deserialize)]
pub enum Hist {
    Plain,
    Append,
    Delete,
    DeleteCompact,
    AppendOptimize,
}

#[derive(Clone, Copy, Debug, PartialEq, Eq, Hash, Serialize, Deserialize)]
pub enum Metric {
    L2,
    Cosine,
    Dot,
}

impl Metric {
    fn mt(&self) -> MetricType {
        match self {
            Metric::L2 => MetricType::L2,
            Metric::Cosine => MetricType::Cosine,
            Metric::Dot => MetricType::Dot,
        }
    }
    /// true distance in f64; None = undefined (cosine with a zero vector)
    fn dist(&self, a: &[i32], b: &[i32]) -> Option<f64> {
        let dot: f64 = a.iter().zip(b).map(|(x, y)| (*x as f64) * (*y as f64)).sum();
        match self {
            Metric::L2 => Some(a.iter().zip(b).map(|(x, y)| ((*x - *y) as f64).powi(2)).sum()),
            Metric::Dot => Some(1.0 - dot),
            Metric::Cosine => {
                let na: f64 = a.iter().map(|x| (*x as f64).powi(2)).sum::<f64>().sqrt();
                let nb: f64 = b.iter().map(|x| (*x as f64).powi(2)).sum::<f64>().sqrt();
                if na == 0.0 || nb == 0.0 {
                    None
                } else {
                    Some(1.0 - dot / (na * nb))
                }
            }
        }
    }
}

/// One dataset to build: (dimension, element type, rows, mode, index metric, history)
#[derive(Clone, Debug, Serialize, Deserialize)]
pub struct Case {
    d: usize,
    elem: Elem,
    n: usize,
    variant: usize,
    mode: Mode,
    metric: Metric,
    hist: Hist,
}

/// i-th lattice vector of the family: base-4 digits of (1 + i * stride), so that consecutive rows differ in
/// several coordinates; row 0 is the zero vector, the last row duplicates row 1.
fn lattice_vec(d: usize, idx: u64) -> Vec<i32> {
    let mut x = idx;
    (0..d)
        .map(|_| {
            let v = LATTICE[(x % 4) as usize];
            x /= 4;
            v
        })
        .collect()
}

fn zero_index(d: usize) -> u64 {
    // digit 1 (= value 0) in every position
    (0..d).fold(0u64, |acc, i| acc + (1u64 << (2 * i.min(31))))
}

fn make_vectors(d: usize, n: usize, variant: usize) -> Vec<Vec<i32>> {
    let space: u64 = if d >= 16 { u64::MAX / 4 } else { 4u64.pow(d as u32) };
    let stride: u64 = [7u64, 13, 29][variant % 3] * if d >= 8 { 1021 } else { 1 };
    let mut v = vec![];
    for i in 0..n {
        if i == 0 {
            v.push(vec![0; d]);
        } else if i + 1 == n && n >= 3 {
            let dup = v[1].clone();
            v.push(dup);
        } else {
            let idx = (zero_index(d).wrapping_add((i as u64).wrapping_mul(stride))) % space.max(1);
            v.push(lattice_vec(d, idx));
        }
    }
    v
}

fn vec_array(elem: Elem, d: usize, vs: &[Vec<i32>]) -> ArrayRef {
    let flat: Vec<i32> = vs.iter().flatten().copied().collect();
    let values: ArrayRef = match elem {
        Elem::F16 => Arc::new(PrimitiveArray::<Float16Type>::from_iter_values(flat.iter().map(|x| half::f16::from_f32(*x as f32)))),
        Elem::F32 => Arc::new(PrimitiveArray::<Float32Type>::from_iter_values(flat.iter().map(|x| *x as f32))),
        Elem::F64 => Arc::new(PrimitiveArray::<Float64Type>::from_iter_values(flat.iter().map(|x| *x as f64))),
    };
    Arc::new(FixedSizeListArray::try_new(Arc::new(Field::new("item", elem.dt(), true)), d as i32, values, None).unwrap())
}

fn query_array(elem: Elem, q: &[i32]) -> ArrayRef {
    match elem {
        Elem::F16 => Arc::new(PrimitiveArray::<Float16Type>::from_iter_values(q.iter().map(|x| half::f16::from_f32(*x as f32)))),
        Elem::F32 => Arc::new(PrimitiveArray::<Float32Type>::from_iter_values(q.iter().map(|x| *x as f32))),
        Elem::F64 => Arc::new(PrimitiveArray::<Float64Type>::from_iter_values(q.iter().map(|x| *x as f64))),
    }
}

fn kcol(uid: i32) -> Option<i32> {
    match uid.rem_euclid(4) {
        0 => Some(0),
        1 => Some(1),
        2 => Some(2),
        _ => None,
    }
}

fn batch(elem: Elem, d: usize, rows: &[(i32, Vec<i32>)]) -> RecordBatch {
    let schema = Arc::new(Schema::new(vec![
        Field::new("uid", DataType::Int32, false),
        Field::new("k", DataType::Int32, true),
        Field::new("vec", DataType::FixedSizeList(Arc::new(Field::new("item", elem.dt(), true)), d as i32), true),
    ]));
    let vs: Vec<Vec<i32>> = rows.iter().map(|r| r.1.clone()).collect();
    RecordBatch::try_new(
        schema,
        vec![
            Arc::new(Int32Array::from(rows.iter().map(|r| r.0).collect::<Vec<_>>())),
            Arc::new(Int32Array::from(rows.iter().map(|r| kcol(r.0)).collect::<Vec<_>>())),
            vec_array(elem, d, &vs),
        ],
    )
    .unwrap()
}

struct Built {
    ds: Dataset,
    /// uid -> (vector, indexed?)
    live: BTreeMap<i32, (Vec<i32>, bool)>,
    deleted: BTreeSet<i32>,
    partitions: usize,
}

fn index_params(mode: Mode, metric: Metric, parts: usize, d: usize) -> VectorIndexParams {
    let mut ivf = IvfBuildParams::new(parts);
    ivf.max_iters = 10;
    match mode {
        Mode::IvfFlat | Mode::Flat => VectorIndexParams::with_ivf_flat_params(metric.mt(), ivf),
        Mode::IvfSq => VectorIndexParams::with_ivf_sq_params(metric.mt(), ivf, SQBuildParams::default()),
        Mode::IvfPq => {
            let pq = PQBuildParams { num_sub_vectors: if d % 2 == 0 { 2.min(d) } else { 1 }, num_bits: 8, max_iters: 10, ..Default::default() };
            VectorIndexParams::with_ivf_pq_params(metric.mt(), ivf, pq)
        }
    }
}

async fn build(c: &Case) -> Result<Built, String> {
    let env = Env::new();
    let vs = make_vectors(c.d, c.n, c.variant);
    let rows: Vec<(i32, Vec<i32>)> = vs.iter().enumerate().map(|(i, v)| (i as i32, v.clone())).collect();
    let split = if matches!(c.hist, Hist::Append | Hist::AppendOptimize) { (c.n * 2 / 3).max(1) } else { c.n };
    let mut live: BTreeMap<i32, (Vec<i32>, bool)> = BTreeMap::new();
    let mut deleted = BTreeSet::new();
    let mut ds = env
        .write(URI, vec![batch(c.elem, c.d, &rows[..split])], env.write_params(WriteMode::Create))
        .await
        .map_err(|e| format!("write: {e}"))?;
    for r in &rows[..split] {
        live.insert(r.0, (r.1.clone(), false));
    }
    let parts = if c.n >= 256 { 4 } else if split >= 8 { 2 } else { 1 };
    if c.mode != Mode::Flat {
        ds.create_index(&["vec"], IndexType::Vector, None, &index_params(c.mode, c.metric, parts, c.d), true)
            .await
            .map_err(|e| format!("create_index: {e}"))?;
        for v in live.values_mut() {
            v.1 = true;
        }
    }
    if split < c.n {
        let p = env.write_params(WriteMode::Append);
        ds = env.write(URI, vec![batch(c.elem, c.d, &rows[split..])], p).await.map_err(|e| format!("append: {e}"))?;
        for r in &rows[split..] {
            live.insert(r.0, (r.1.clone(), false));
        }
    }
    match c.hist {
        Hist::Plain | Hist::Append => {}
        Hist::Delete | Hist::DeleteCompact => {
            // delete the nearest-to-origin rows' neighbour: uid 1 and its duplicate stay distinguishable by uid
            for u in [1, (c.n as i32) / 2] {
                if live.contains_key(&u) && live.len() > 1 {
                    ds.delete(&format!("uid = {u}")).await.map_err(|e| format!("delete: {e}"))?;
                    live.remove(&u);
                    deleted.insert(u);
                }
            }
            if c.hist == Hist::DeleteCompact {
                let opts = CompactionOptions { target_rows_per_fragment: 1_000_000, materialize_deletions_threshold: 0.0, ..Default::default() };
                compact_files(&mut ds, opts, None).await.map_err(|e| format!("compact: {e}"))?;
            }
        }
        Hist::AppendOptimize => {
            if c.mode != Mode::Flat {
                ds.optimize_indices(&OptimizeOptions::default()).await.map_err(|e| format!("optimize_indices: {e}"))?;
                for v in live.values_mut() {
                    v.1 = true;
                }
            }
        }
    }
    let ds = env.open(URI).await.map_err(|e| format!("open: {e}"))?;
    Ok(Built { ds, live, deleted, partitions: parts })
}

#[derive(Clone, Debug, Serialize, Deserialize, PartialEq, Eq, Hash)]
pub struct Qry {
    metric: Metric,
    k: usize,
    filter: Option<String>,
    fast: bool,
    q: Vec<i32>,
}

async fn run_query(b: &Built, c: &Case, q: &Qry) -> Result<Vec<(i32, f32)>, String> {
    let mut sc = b.ds.scan();
    sc.project(&["uid"]).map_err(|e| e.to_string())?;
    if let Some(f) = &q.filter {
        sc.filter(f).map_err(|e| e.to_string())?;
        sc.prefilter(true);
    }
    let qa = query_array(c.elem, &q.q);
    sc.nearest("vec", qa.as_ref(), q.k).map_err(|e| e.to_string())?;
    sc.distance_metric(q.metric.mt());
    match c.mode {
        Mode::Flat => {
            sc.use_index(false);
        }
        Mode::IvfFlat => {
            // VX22_NPROBES is a self-test knob only (probing too few partitions must make the oracle fire)
            let np = std::env::var("VX22_NPROBES").ok().and_then(|s| s.parse().ok()).unwrap_or(b.partitions.max(1) * 4);
            sc.nprobes(np);
        }
        Mode::IvfSq | Mode::IvfPq => {
            sc.nprobes(b.partitions.max(1) * 4);
            sc.refine(((c.n + 8) as u32).max(16));
        }
    }
    if q.fast {
        sc.fast_search();
    }
    let batches: Vec<RecordBatch> = sc.try_into_stream().await.map_err(|e| e.to_string())?.try_collect().await.map_err(|e| e.to_string())?;
    let mut out = vec![];
    for bt in batches {
        let uid = bt.column_by_name("uid").ok_or("no uid")?.as_any().downcast_ref::<Int32Array>().ok_or("uid type")?.clone();
        let dc = bt.column_by_name("_distance").ok_or("no _distance")?.as_any().downcast_ref::<Float32Array>().ok_or("_distance type")?.clone();
        for i in 0..bt.num_rows() {
            out.push((uid.value(i), if dc.is_null(i) { f32::NAN } else { dc.value(i) }));
        }
    }
    Ok(out)
}

/// Evaluate one query; returns (class, text) of every broken oracle.
fn judge(b: &Built, c: &Case, q: &Qry, got: &[(i32, f32)]) -> Vec<(String, String)> {
    let mut bad = vec![];
    let passes = |u: i32| match q.filter.as_deref() {
        None => true,
        Some("k = 0") => kcol(u) == Some(0),
        Some(_) => false,
    };
    // rows the query is allowed / required to see
    let index_used = c.mode != Mode::Flat && q.metric == c.metric;
    let cand: Vec<(i32, Option<f64>, bool)> = b.live.iter().filter(|(u, _)| passes(**u)).map(|(u, (v, ix))| (*u, q.metric.dist(&q.q, v), *ix)).collect();
    let must: Vec<&(i32, Option<f64>, bool)> = cand.iter().filter(|x| !(q.fast && index_used) || x.2).collect();
    let tol = c.elem.tol();
    let close = |a: f64, b: f64| (a - b).abs() <= tol * (1.0 + a.abs().max(b.abs()));
    let mut seen = BTreeSet::new();
    for (u, d) in got {
        if !seen.insert(*u) {
            bad.push(("duplicate-row".to_string(), format!("uid {u} returned twice")));
        }
        if b.deleted.contains(u) {
            bad.push(("deleted-row-returned".to_string(), format!("deleted uid {u} returned")));
            continue;
        }
        let Some((v, _)) = b.live.get(u) else {
            bad.push(("unknown-row".to_string(), format!("uid {u} is not a live row")));
            continue;
        };
        if !passes(*u) {
            bad.push(("filtered-row-returned".to_string(), format!("uid {u} (k = {:?}) does not pass {:?}", kcol(*u), q.filter)));
            continue;
        }
        match q.metric.dist(&q.q, v) {
            Some(t) => {
                if !close(t, *d as f64) {
                    bad.push(("distance-mismatch".to_string(), format!("uid {u}: reported {d}, recomputed {t}")));
                }
            }
            None => {}
        }
    }
    // ascending among defined distances
    let defined: Vec<f64> = got
        .iter()
        .filter(|(u, _)| b.live.get(u).map(|(v, _)| q.metric.dist(&q.q, v).is_some()).unwrap_or(false))
        .map(|g| g.1 as f64)
        .collect();
    if defined.windows(2).any(|w| w[0] > w[1] + tol * (1.0 + w[1].abs())) {
        bad.push(("not-ascending".to_string(), format!("distances {defined:?}")));
    }
    // count
    let lo = q.k.min(must.len());
    let hi = q.k.min(cand.len());
    if got.len() < lo || got.len() > hi {
        let missing_only_zero = must.iter().filter(|x| !seen.contains(&x.0)).all(|x| x.1.is_none()) && must.iter().any(|x| !seen.contains(&x.0) && x.1.is_none());
        let class = if got.len() < lo && q.metric == Metric::Cosine && missing_only_zero && index_used {
            "zero-vector-row-not-returned"
        } else if got.len() < lo {
            if !q.fast && cand.iter().any(|x| !x.2 && !seen.contains(&x.0)) && must.len() > got.len() && c.mode != Mode::Flat {
                "too-few-rows(unindexed-rows-not-searched)"
            } else {
                "too-few-rows"
            }
        } else {
            "too-many-rows"
        };
        bad.push((class.to_string(), format!("{} rows, expected between {lo} and {hi} (k {}, matching rows {})", got.len(), q.k, cand.len())));
    }
    // k smallest: the returned defined distances must be the smallest defined true distances of the rows
    // the query must see (when undefined rows exist they may take result slots, nothing is said about them)
    let mut truth: Vec<f64> = must.iter().filter_map(|x| x.1).collect();
    truth.sort_by(|a, b| a.partial_cmp(b).unwrap());
    let mut gd = defined.clone();
    gd.sort_by(|a, b| a.partial_cmp(b).unwrap());
    let all_defined = must.iter().all(|x| x.1.is_some());
    if all_defined || !gd.is_empty() {
        for (i, g) in gd.iter().enumerate() {
            // with fast_search off every candidate is visible, so position i must hold the i-th smallest;
            // with unindexed rows possibly joining under fast_search the i-th returned may only be smaller
            match truth.get(i) {
                Some(t) if close(*t, *g) => {}
                Some(t) if q.fast && index_used && *g < *t => {}
                Some(t) => {
                    bad.push(("not-the-nearest".to_string(), format!("{}-th returned distance {g} but the {}-th smallest true distance is {t}", i + 1, i + 1)));
                    break;
                }
                None => {}
            }
        }
    }
    bad
}

/// `/repo/...rs:line` of the first source location named in an error text (classification of errors / panics)
fn site(msg: &str) -> String {
    if let Some(i) = msg.find("/repo/rust/") {
        let rest = &msg[i + "/repo/rust/".len()..];
        let end = rest.find(|c: char| c == ',' || c == ' ' || c == ')' || c == '"').unwrap_or(rest.len());
        let loc = &rest[..end];
        // drop the column
        let parts: Vec<&str> = loc.split(':').collect();
        return parts[..parts.len().min(2)].join(":");
    }
    msg.chars().take(40).collect::<String>().replace(' ', "_")
}

fn dims(quick: bool) -> Vec<usize> {
    if quick {
        vec![2, 8, 17]
    } else {
        vec![1, 2, 3, 8, 9, 16, 17]
    }
}

fn cases(ctx: &Ctx) -> Vec<Case> {
    let quick = ctx.quick();
    let mut v = vec![];
    let elems: Vec<Elem> = if quick { vec![Elem::F32] } else { vec![Elem::F32, Elem::F16, Elem::F64] };
    for elem in elems {
        for d in dims(quick) {
            for (n, variant) in if quick { vec![(12usize, 0usize), (3, 1)] } else { vec![(12, 0), (12, 1), (5, 2), (3, 1), (1, 0)] } {
                // flat mode: no index, the query metric is free -> one dataset per history
                for hist in [Hist::Plain, Hist::Delete, Hist::DeleteCompact] {
                    v.push(Case { d, elem, n, variant, mode: Mode::Flat, metric: Metric::L2, hist });
                }
                if n < 3 {
                    continue;
                }
                for mode in [Mode::IvfFlat, Mode::IvfSq] {
                    if quick && mode == Mode::IvfSq && !(d == 8 && n == 12) {
                        continue;
                    }
                    for metric in [Metric::L2, Metric::Cosine, Metric::Dot] {
                        for hist in [Hist::Plain, Hist::Append, Hist::Delete, Hist::DeleteCompact, Hist::AppendOptimize] {
                            if quick && n == 3 && hist != Hist::Plain && hist != Hist::Append {
                                continue;
                            }
                            v.push(Case { d, elem, n, variant, mode, metric, hist });
                        }
                    }
                }
            }
        }
    }
    if !quick {
        // IVF_PQ needs >= 256 training rows: one larger table per metric / history on two dimensions
        for d in [8usize, 16] {
            for metric in [Metric::L2, Metric::Cosine, Metric::Dot] {
                for hist in [Hist::Plain, Hist::Append, Hist::Delete, Hist::AppendOptimize] {
                    v.push(Case { d, elem: Elem::F32, n: 400, variant: 0, mode: Mode::IvfPq, metric, hist });
                }
            }
        }
    }
    v
}

fn queries(c: &Case, quick: bool) -> Vec<Qry> {
    let vs = make_vectors(c.d, c.n, c.variant);
    let mut qv: Vec<Vec<i32>> = vec![vec![0; c.d], vs[vs.len() / 2].clone()];
    let mut off = vec![2; c.d];
    off[0] = -1;
    qv.push(off);
    let metrics: Vec<Metric> = if c.mode == Mode::Flat { vec![Metric::L2, Metric::Cosine, Metric::Dot] } else { vec![c.metric] };
    let ks: Vec<usize> = if c.n >= 256 {
        vec![1, 10]
    } else if quick {
        vec![1, 2, c.n + 3]
    } else {
        vec![1, 2, c.n, c.n + 3]
    };
    let mut v = vec![];
    for metric in metrics {
        for k in &ks {
            for filter in [None, Some("k = 0".to_string()), Some("k = 99".to_string())] {
                for fast in [false, true] {
                    if fast && c.mode == Mode::Flat {
                        continue;
                    }
                    // quick tier: the unsatisfiable filter only once per (metric, query vector)
                    if quick && filter.as_deref() == Some("k = 99") && (*k != 2 || fast) {
                        continue;
                    }
                    for q in &qv {
                        v.push(Qry { metric, k: *k, filter: filter.clone(), fast, q: q.clone() });
                    }
                }
            }
        }
    }
    v
}

struct CaseResult {
    cov: Cov,
    violations: Vec<Violation>,
}

fn eval_case(c: &Case, only: Option<&Qry>, quick: bool) -> CaseResult {
    let mut cov = Cov::new();
    let mut violations = vec![];
    let built = match vds::run_catch(build(c)) {
        Ok(Ok(b)) => b,
        Ok(Err(e)) if e.contains("Not enough rows to train PQ") || e.contains("KMeans: can not train") => {
            // a clean, documented rejection of a training set that is too small: not a verdict
            cov.outcome("index-config-rejected(too-few-training-rows)");
            return CaseResult { cov, violations };
        }
        Ok(Err(e)) => {
            cov.outcome("build-error");
            violations.push(Violation::new("build", &format!("build-error/{:?}/{:?}/{}/{}", c.mode, c.elem, e.split(':').next().unwrap_or("step"), site(&e)).to_lowercase(), format!("{c:?}: {}", e.chars().take(300).collect::<String>()), json!({"case": c})));
            return CaseResult { cov, violations: collapse_non_f32_flat(c, violations) };
        }
        Err(p) => {
            cov.outcome("build-panic");
            violations.push(Violation::new("panic", &format!("panic/build/{:?}/{:?}/{}", c.mode, c.elem, site(&p)).to_lowercase(), format!("{c:?}: {}", p.chars().take(300).collect::<String>()), json!({"case": c})));
            return CaseResult { cov, violations };
        }
    };
    let qs = match only {
        Some(q) => vec![q.clone()],
        None => queries(c, quick),
    };
    let mut failures_in_a_row = 0;
    for q in &qs {
        if failures_in_a_row >= 3 && c.mode == Mode::IvfFlat && c.elem != Elem::F32 {
            cov.outcome("skipped-after-3-failing-queries");
            continue;
        }
        let art = json!({"case": c, "query": q});
        let run = |b: &Built| vds::run_catch(run_query(b, c, q));
        let first = run(&built);
        let matching = built.live.keys().filter(|u| match q.filter.as_deref() {
            None => true,
            Some("k = 0") => kcol(**u) == Some(0),
            Some(_) => false,
        });
        let nm = matching.count();
        let nontrivial = nm > 0 && q.k < nm;
        cov.eval(if nontrivial { Some(vcore::hash64(format!("{c:?}|{q:?}").as_bytes())) } else { None });
        let got = match first {
            Err(p) => {
                cov.outcome("panic");
                failures_in_a_row += 1;
                violations.push(Violation::new("panic", &format!("panic/query/{:?}/{:?}/{}", c.mode, c.elem, site(&p)).to_lowercase(), format!("{c:?} {q:?}: {}", p.chars().take(300).collect::<String>()), art));
                continue;
            }
            Ok(Err(e)) => {
                cov.outcome("error");
                failures_in_a_row += 1;
                violations.push(Violation::new(
                    "error",
                    &format!("error/query/{:?}/{:?}/{}", c.mode, c.elem, site(&e)).to_lowercase(),
                    format!("{c:?} {q:?}: {}", e.chars().take(300).collect::<String>()),
                    art,
                ));
                continue;
            }
            Ok(Ok(g)) => g,
        };
        cov.outcome(if got.is_empty() { "empty" } else { "rows" });
        failures_in_a_row = 0;
        let bad = judge(&built, c, q, &got);
        if bad.is_empty() {
            if nontrivial {
                cov.sample(json!({"case": c, "query": q, "result": got.iter().map(|g| json!([g.0, g.1])).collect::<Vec<_>>()}));
            }
            continue;
        }
        // confirm on a freshly built table (k-means seeding is random): the verdict must repeat
        let confirmed = match vds::run_catch(build(c)) {
            Ok(Ok(b2)) => match vds::run_catch(run_query(&b2, c, q)) {
                Ok(Ok(g2)) => {
                    let bad2 = judge(&b2, c, q, &g2);
                    let k1: BTreeSet<&String> = bad.iter().map(|x| &x.0).collect();
                    let k2: BTreeSet<&String> = bad2.iter().map(|x| &x.0).collect();
                    k1 == k2
                }
                _ => false,
            },
            _ => false,
        };
        for (class, text) in bad {
            let key = if class == "zero-vector-row-not-returned" && confirmed {
                "zero-vector-row-not-returned-by-cosine-index".to_string()
            } else {
                format!("{}{}/{:?}/{:?}", if confirmed { "" } else { "flaky/" }, class, c.mode, q.metric).to_lowercase()
            };
            violations.push(Violation::new(
                "knn",
                &key,
                format!("{c:?} {q:?}: {text}; got {:?}", got.iter().take(16).collect::<Vec<_>>()),
                art.clone(),
            ));
        }
    }
    CaseResult { cov, violations: collapse_non_f32_flat(c, violations) }
}

/// The `flat` sub-index only implements Float32 vectors (FlatQuantizer::field / FlatDistanceCal), yet
/// create_index accepts IVF_FLAT on float16 / float64 columns; every later use of the index (query,
/// compaction remap) then fails or panics at a different place. One key per element type for that.
fn collapse_non_f32_flat(c: &Case, mut v: Vec<Violation>) -> Vec<Violation> {
    if c.mode == Mode::IvfFlat && c.elem != Elem::F32 {
        for x in v.iter_mut() {
            if x.key.starts_with("error/") || x.key.starts_with("panic/") || x.key.starts_with("build-error/") {
                x.what = format!("[{}] {}", x.key, x.what);
                x.key = "ivf_flat-on-non-f32-column-accepted-but-unusable".to_string();
            }
        }
    }
    v
}

pub fn run(ctx: &Ctx) -> Outcome {
    let mut out = Outcome::new("exploration");
    if let Some(art) = ctx.replay_case() {
        let c = &art["case"];
        let case: Case = serde_json::from_value(c["case"].clone()).unwrap_or_else(|e| vcore::machinery_error(&format!("bad replay case: {e}")));
        let q: Option<Qry> = c.get("query").filter(|q| !q.is_null()).map(|q| serde_json::from_value(q.clone()).unwrap_or_else(|e| vcore::machinery_error(&format!("bad replay query: {e}"))));
        let r = eval_case(&case, q.as_ref(), false);
        out.violations = r.violations;
        r.cov.fill(&mut out, "replay of one case", false);
        return out;
    }
    let mut cs = cases(ctx);
    if let Some(e) = ctx.opts.get("elem") {
        cs.retain(|c| format!("{:?}", c.elem).to_lowercase() == e.to_lowercase());
    }
    if let Some(d) = ctx.opts.get("d").and_then(|d| d.parse::<usize>().ok()) {
        cs.retain(|c| c.d == d);
    }
    if let Some(m) = ctx.opts.get("mode") {
        cs.retain(|c| format!("{:?}", c.mode).to_lowercase() == m.to_lowercase());
    }
    if !cs.is_empty() {
        let r = (ctx.seed as usize) % cs.len();
        cs.rotate_left(r);
    }
    let total = cs.len();
    let quick = ctx.quick();
    let wall = ctx.tier.pick(36.0, 800.0);
    let start = std::time::Instant::now();
    let results = vcore::par_map(cs, ctx.workers, |_, c| {
        if start.elapsed().as_secs_f64() > wall {
            return None;
        }
        Some(eval_case(&c, None, quick))
    });
    let mut cov = Cov::new();
    let mut done = 0;
    for r in results.into_iter().flatten() {
        done += 1;
        cov.merge(r.cov);
        out.violations.extend(r.violations);
    }
    out.violations.sort_by_key(|v| (v.key.clone(), v.case.to_string().len()));
    let exhaustive = done == total;
    cov.fill(
        &mut out,
        "one evaluation = one (table, history, mode, query) of the stated family; non-trivial = k smaller than the number of rows passing the filter (the search really has to choose); distinct by (table case, query)",
        exhaustive,
    );
    out.set("table_cases", json!({"total": total, "completed": done}));
    if !exhaustive {
        out.set("cap_hit", format!("wall cap {wall}s: {done} of {total} table cases completed"));
    }
    out.assume("distances are the documented definitions: L2 = squared euclidean, cosine = 1 - cos, dot = 1 - x.y, recomputed in f64 on exact lattice values");
    out.assume("cosine distance involving a zero vector is undefined; such rows are exempt from the value / order / k-smallest oracles");
    out.assume("all IVF partitions are probed (nprobes >= partitions) and SQ/PQ results are refined with refine_factor >= n, which is what makes those modes exact");
    out
}
