//! C31 – object writer persists exactly what was written (K4 x K5).
//!
//! Chunk-size sequences around the multipart threshold are written through the real
//! `lance_io::object_writer::ObjectWriter` onto a `vstore::MemStore`. A single-actor `Controller`
//! (defined here) observes every storage call, checks that the destination is invisible until the
//! committing call (single `put` / multipart `complete`), and injects one fault. Pass 0 of every
//! sequence records its calls; then every (call, FailBefore|FailAfter) is re-run from scratch, plus
//! `abort()` and plain drop after every prefix of the sequence.
//!
//! `LANCE_INITIAL_UPLOAD_SIZE` is a process-global OnceLock: the thorough tier re-executes this
//! binary (`std::env::current_exe`) with the variable set to 6 MiB and merges the child's result.

use async_trait::async_trait;
use bytes::Bytes;
use lance_io::object_store::ObjectStore as LanceStore;
use lance_io::object_writer::ObjectWriter;
use lance_io::traits::Writer;
use object_store::path::Path;
use serde_json::{json, Value};
use std::collections::BTreeMap;
use std::sync::{Arc, Mutex};
use tokio::io::AsyncWriteExt;
use vcore::{Cov, Ctx, Outcome, Violation};
use vstore::{Answer, Call, Controller, MemStore, Verb};

const MIB: usize = 1024 * 1024;
const DEST: &str = "out/object.bin";

fn pattern(len: usize) -> Bytes {
    // period-free enough that swapped / dropped / duplicated parts or chunks change the bytes
    // 8 bytes at a time (a multiplicative hash of the word index): position dependent everywhere
    let mut v = Vec::with_capacity(len + 8);
    let mut i: u64 = 0;
    while v.len() < len {
        v.extend_from_slice(&(i.wrapping_add(1).wrapping_mul(0x9E37_79B9_7F4A_7C15)).to_le_bytes());
        i += 1;
    }
    v.truncate(len);
    Bytes::from(v)
}

#[derive(Default, Debug)]
struct CtlState {
    counts: BTreeMap<String, usize>,
    log: Vec<(String, usize)>,
    visible_early: Vec<String>,
    commit_started: bool,
    fired: bool,
}

#[derive(Debug)]
struct Ctl {
    raw: MemStore,
    plan: Option<(String, usize, Answer)>,
    st: Mutex<CtlState>,
}

#[async_trait]
impl Controller for Ctl {
    async fn before(&self, _actor: usize, call: &Call) -> Answer {
        let mut st = self.st.lock().unwrap();
        let verb = format!("{:?}", call.verb);
        let ord = {
            let c = st.counts.entry(verb.clone()).or_insert(0);
            let o = *c;
            *c += 1;
            o
        };
        st.log.push((verb.clone(), ord));
        if !st.commit_started && self.raw.exists(DEST) {
            st.visible_early.push(format!("before {verb}#{ord}"));
        }
        if matches!(call.verb, Verb::Put | Verb::PutCreate | Verb::MultipartComplete) {
            st.commit_started = true;
        }
        if let Some((v, o, a)) = &self.plan {
            if *v == verb && *o == ord {
                st.fired = true;
                return *a;
            }
        }
        Answer::Normal
    }
    fn after(&self, _actor: usize, _call: &Call, _ok: bool) {}
}

#[derive(Clone, Debug, serde::Serialize, serde::Deserialize, PartialEq)]
enum End {
    Shutdown,
    /// write the first `n` chunks, then `abort().await`
    AbortAfter(usize),
    /// write the first `n` chunks, then drop the writer
    DropAfter(usize),
}

#[derive(Clone, Debug, serde::Serialize, serde::Deserialize)]
struct Case {
    chunks: Vec<usize>,
    constant_parts: bool,
    fault: Option<(String, usize, String)>,
    end: End,
}

struct RunResult {
    label: String,
    log: Vec<(String, usize)>,
    fired: bool,
    problems: Vec<(String, String)>, // (key suffix, what)
}

fn answer_of(s: &str) -> Answer {
    match s {
        "FailBefore" => Answer::FailBefore,
        "FailAfter" => Answer::FailAfter,
        _ => Answer::Normal,
    }
}

async fn quiesce() {
    for _ in 0..50 {
        tokio::task::yield_now().await;
    }
}

fn run_case(case: &Case, data: &Bytes) -> RunResult {
    run_case_t(case, data, 30)
}

fn run_case_t(case: &Case, data: &Bytes, timeout_s: u64) -> RunResult {
    let raw = MemStore::new();
    let ctl = Arc::new(Ctl {
        raw: raw.clone(),
        plan: case.fault.as_ref().map(|(v, o, a)| (v.clone(), *o, answer_of(a))),
        st: Mutex::new(CtlState::default()),
    });
    let view = raw.view(0, Some(ctl.clone() as Arc<dyn Controller>));
    let store = LanceStore::new(
        Arc::new(view),
        "memory:///".parse().unwrap(),
        Some(4096),
        None,
        case.constant_parts,
        true,
        8,
        0,
        None,
    );
    let total: usize = case.chunks.iter().sum();
    let mut problems: Vec<(String, String)> = vec![];
    let path = Path::from(DEST);
    let label = vstore::block_on(async {
        let fut = async {
            let mut w = match ObjectWriter::new(&store, &path).await {
                Ok(w) => w,
                Err(e) => return format!("err-new:{e}"),
            };
            let n_write = match case.end {
                End::Shutdown => case.chunks.len(),
                End::AbortAfter(n) | End::DropAfter(n) => n,
            };
            let mut off = 0usize;
            for (i, c) in case.chunks.iter().take(n_write).enumerate() {
                if let Err(e) = w.write_all(&data[off..off + c]).await {
                    drop(w);
                    quiesce().await;
                    return format!("err-write#{i}:{}", short(&e.to_string()));
                }
                off += c;
                match w.tell().await {
                    Ok(t) if t == off => {}
                    other => problems.push(("tell".into(), format!("tell() after chunk {i} = {other:?}, expected {off}"))),
                }
            }
            match case.end {
                End::Shutdown => {
                    if raw.exists(DEST) {
                        problems.push(("visible-before-shutdown".into(), "destination exists before shutdown() was called".into()));
                    }
                    match w.shutdown().await {
                        Ok(r) => {
                            if r.size != total {
                                problems.push(("size".into(), format!("WriteResult.size {} != bytes written {total}", r.size)));
                            }
                            "ok".to_string()
                        }
                        Err(e) => {
                            drop(w);
                            quiesce().await;
                            format!("err-shutdown:{}", short(&e.to_string()))
                        }
                    }
                }
                End::AbortAfter(_) => {
                    w.abort().await;
                    drop(w);
                    quiesce().await;
                    "aborted".to_string()
                }
                End::DropAfter(_) => {
                    drop(w);
                    quiesce().await;
                    "dropped".to_string()
                }
            }
        };
        match tokio::time::timeout(std::time::Duration::from_secs(timeout_s), fut).await {
            Ok(l) => l,
            Err(_) => "hang".to_string(),
        }
    });
    let st = ctl.st.lock().unwrap();
    for v in &st.visible_early {
        problems.push(("visible-early".into(), format!("destination visible {v} (before the committing call)")));
    }
    let obj = raw.read(DEST);
    let others: Vec<String> = raw.paths().into_iter().filter(|p| p != DEST).collect();
    if !others.is_empty() {
        problems.push(("stray-object".into(), format!("objects other than the destination exist: {others:?}")));
    }
    let fault_is_lost_commit_reply = matches!(&case.fault, Some((v, _, a)) if a == "FailAfter" && (v == "Put" || v == "MultipartComplete")) && st.fired;
    if label == "ok" {
        match &obj {
            None => problems.push(("ok-but-missing".into(), "shutdown returned Ok but the destination does not exist".into())),
            Some(b) => {
                if b.len() != total || b[..] != data[..total] {
                    let first = b.iter().zip(data.iter()).position(|(x, y)| x != y);
                    problems.push(("ok-but-wrong-bytes".into(), format!("shutdown Ok but object has {} bytes (written {total}); first differing offset {first:?}", b.len())));
                }
            }
        }
    } else if label == "hang" {
        problems.push(("hang".into(), format!("writer did not finish within {timeout_s} s of real time")));
    } else if let Some(b) = &obj {
        if fault_is_lost_commit_reply {
            // the environment applied the committing call and lost the reply: the object is there by
            // the environment's doing; it must still be the full, exact content
            if b.len() != total || b[..] != data[..total] {
                problems.push(("lost-reply-wrong-bytes".into(), format!("committing call applied (reply lost) but object has {} bytes, written {total}", b.len())));
            }
        } else {
            problems.push(("left-behind".into(), format!("write ended with '{label}' but an object of {} bytes exists at the destination", b.len())));
        }
    }
    RunResult {
        label: label.split(':').next().unwrap_or("").split('#').next().unwrap_or("").to_string(),
        log: st.log.clone(),
        fired: st.fired,
        problems,
    }
}

fn short(s: &str) -> String {
    s.chars().take(80).collect()
}

fn sequences(thorough: bool) -> Vec<Vec<usize>> {
    let sizes = [0usize, 1, 5 * MIB - 1, 5 * MIB, 5 * MIB + 1, 11 * MIB];
    let mut out: Vec<Vec<usize>> = vec![vec![]];
    let maxlen = if thorough { 3 } else { 2 };
    for s in vcore::smallx::sequences(sizes.len(), 1, maxlen) {
        out.push(s.iter().map(|i| sizes[*i]).collect());
    }
    if !thorough {
        // a few length-3 sequences that straddle a part boundary twice
        out.push(vec![5 * MIB - 1, 1, 5 * MIB + 1]);
        out.push(vec![1, 5 * MIB, 1]);
        out.push(vec![0, 11 * MIB, 0]);
    }
    // many small writes across the threshold(s)
    out.push(vec![MIB - 1; 11]);
    out.push(vec![700_001; 16]);
    if thorough {
        out.push(vec![64 * 1024 + 1; 170]);
        out.push(vec![3 * MIB; 5]);
    }
    out
}

fn seq_name(c: &[usize]) -> String {
    let f = |s: &usize| -> String {
        let d = *s as i64 - (5 * MIB) as i64;
        if *s >= 5 * MIB - 1 && *s <= 5 * MIB + 1 {
            format!("5M{}", if d == 0 { "".to_string() } else { format!("{d:+}") })
        } else if *s == 11 * MIB {
            "11M".into()
        } else {
            s.to_string()
        }
    };
    if c.len() > 4 {
        format!("{}x{}", f(&c[0]), c.len())
    } else {
        format!("[{}]", c.iter().map(f).collect::<Vec<_>>().join(","))
    }
}

/// everything for one chunk sequence: pass 0, every fault, every abort/drop point
fn explore_sequence(chunks: &[usize], constant_parts: bool, data: &Bytes, cov: &mut Cov, viol: &mut Vec<Violation>) {
    let judge = |case: &Case, r: &RunResult, cov: &mut Cov, viol: &mut Vec<Violation>| {
        // a time-out is only a verdict if it repeats with a 4x longer cap (the machine may be loaded)
        let retry;
        let r = if r.label == "hang" {
            cov.outcome("hang-suspected:re-run");
            retry = run_case_t(case, data, 120);
            &retry
        } else {
            r
        };
        cov.evaluations += 1;
        let fault_tag = match &case.fault {
            None => "no-fault".to_string(),
            Some((v, _, a)) => format!("{a}@{v}"),
        };
        let end_tag = match case.end {
            End::Shutdown => "shutdown",
            End::AbortAfter(_) => "abort",
            End::DropAfter(_) => "drop",
        };
        cov.outcome(&format!("{end_tag}/{fault_tag}:{}", r.label));
        if case.fault.is_some() && r.fired {
            cov.nontrivial.insert(vcore::hash64(serde_json::to_string(case).unwrap().as_bytes()));
        }
        if matches!(case.end, End::AbortAfter(_) | End::DropAfter(_)) && !r.log.is_empty() {
            cov.nontrivial.insert(vcore::hash64(serde_json::to_string(case).unwrap().as_bytes()));
        }
        for (k, what) in &r.problems {
            viol.push(Violation::new(
                k,
                &format!("{end_tag}/{fault_tag}/{k}"),
                format!("chunks {} constant_parts={constant_parts} fault={:?} end={:?}: {what}", seq_name(&case.chunks), case.fault, case.end),
                serde_json::to_value(case).unwrap(),
            ));
        }
    };
    let base = Case {
        chunks: chunks.to_vec(),
        constant_parts,
        fault: None,
        end: End::Shutdown,
    };
    let r0 = run_case(&base, data);
    judge(&base, &r0, cov, viol);
    if cov.samples.len() < 6 {
        cov.sample(json!({"chunks": seq_name(chunks), "constant_parts": constant_parts, "calls": r0.log.iter().map(|(v, o)| format!("{v}#{o}")).collect::<Vec<_>>()}));
    }
    for (verb, ord) in &r0.log {
        for ans in ["FailBefore", "FailAfter"] {
            let case = Case {
                fault: Some((verb.clone(), *ord, ans.to_string())),
                ..base.clone()
            };
            let r = run_case(&case, data);
            if !r.fired {
                viol.push(Violation::new("determinism", "machinery/fault-not-reached", format!("fault {verb}#{ord} recorded in pass 0 was not reached when re-running {}", seq_name(chunks)), serde_json::to_value(&case).unwrap()));
            }
            judge(&case, &r, cov, viol);
        }
    }
    for n in 0..=chunks.len() {
        for end in [End::AbortAfter(n), End::DropAfter(n)] {
            let case = Case { end, ..base.clone() };
            let r = run_case(&case, data);
            judge(&case, &r, cov, viol);
        }
    }
}

/// informational probe (not judged): `AsyncWriteExt::write(&[])` – a poll_write with an empty slice
fn probe_empty_write() -> Value {
    let raw = MemStore::new();
    let store = LanceStore::new(Arc::new(raw), "memory:///".parse().unwrap(), Some(4096), None, false, true, 8, 0, None);
    let r = vstore::block_on(async {
        let mut w = ObjectWriter::new(&store, &Path::from(DEST)).await.unwrap();
        let r = tokio::time::timeout(std::time::Duration::from_secs(2), w.write(&[])).await;
        match r {
            Ok(Ok(n)) => format!("returned Ok({n})"),
            Ok(Err(e)) => format!("returned Err({e})"),
            Err(_) => "still pending after 2 s with no storage call in flight (poll_write returns Pending for an empty slice)".to_string(),
        }
    });
    json!({"what": "write(&[]) on a fresh ObjectWriter (write_all skips empty slices, so the judged runs never issue it)", "observed": r})
}

pub fn run(ctx: &Ctx) -> Outcome {
    let mut out = Outcome::new("fault_enumeration");
    let thorough = !ctx.quick();
    let data = pattern(34 * MIB);

    if let Some(art) = ctx.replay_case() {
        let case: Case = serde_json::from_value(art["case"].clone()).unwrap_or_else(|e| vcore::machinery_error(&format!("bad C31 case: {e}")));
        let mut cov = Cov::new();
        let r = run_case(&case, &data);
        cov.evaluations = 1;
        cov.nontrivial.insert(1);
        cov.nontrivial.insert(2);
        cov.sample(art["case"].clone());
        let key = art["key"].as_str().unwrap_or("");
        for (k, what) in &r.problems {
            if key.ends_with(k.as_str()) {
                out.violations.push(Violation::new(k, key, what.clone(), art["case"].clone()));
            }
        }
        cov.fill(&mut out, "replay of one recorded case", false);
        return out;
    }

    // child mode: a slice of the work under a different LANCE_INITIAL_UPLOAD_SIZE
    let child = ctx.opts.get("child").is_some();
    let seqs: Vec<Vec<usize>> = if child {
        // threshold moved to 6 MiB: sizes relative to the new threshold
        let t = 6 * MIB;
        vec![vec![t - 1], vec![t], vec![t + 1], vec![t - 1, 1], vec![t, t], vec![5 * MIB, MIB + 1], vec![13 * MIB], vec![MIB - 1; 13]]
    } else {
        sequences(thorough)
    };
    let mut items: Vec<(Vec<usize>, bool)> = vec![];
    for s in &seqs {
        items.push((s.clone(), false));
        if thorough || s.iter().sum::<usize>() >= 10 * MIB {
            items.push((s.clone(), true));
        }
    }
    let start = std::time::Instant::now();
    let wall_cap = ctx.tier.pick(42.0, 700.0);
    let capped = std::sync::atomic::AtomicBool::new(false);
    let results = vcore::par_map(items, ctx.workers.min(8), |_, (chunks, cp)| {
        let mut cov = Cov::new();
        let mut viol = vec![];
        if start.elapsed().as_secs_f64() > wall_cap {
            capped.store(true, std::sync::atomic::Ordering::SeqCst);
            return (cov, viol);
        }
        explore_sequence(&chunks, cp, &data, &mut cov, &mut viol);
        (cov, viol)
    });
    let mut cov = Cov::new();
    let mut viol = vec![];
    for (c, v) in results {
        cov.merge(c);
        viol.extend(v);
    }
    viol.sort_by_key(|v| (v.key.clone(), v.case["chunks"].as_array().map(|a| a.len()).unwrap_or(0), v.case.to_string().len()));

    if child {
        let res = json!({
            "evaluations": cov.evaluations,
            "nontrivial": cov.nontrivial.len(),
            "outcomes": cov.outcomes,
            "violations": viol.iter().map(|v| json!({"oracle": v.oracle, "key": v.key, "what": v.what, "case": v.case})).collect::<Vec<_>>(),
            "upload_size_env": std::env::var("LANCE_INITIAL_UPLOAD_SIZE").ok(),
        });
        crate::sub::child_finish(ctx, res);
    }

    let mut child_summary = Value::Null;
    if thorough {
        match crate::sub::run_child(ctx, &[("LANCE_INITIAL_UPLOAD_SIZE", (6 * MIB).to_string())], &[("child", "1")], 600) {
            Ok(v) => {
                cov.evaluations += v["evaluations"].as_u64().unwrap_or(0);
                for (k, n) in v["outcomes"].as_object().cloned().unwrap_or_default() {
                    *cov.outcomes.entry(format!("upload-size-6MiB/{k}")).or_insert(0) += n.as_u64().unwrap_or(0);
                }
                for x in v["violations"].as_array().cloned().unwrap_or_default() {
                    viol.push(Violation::new(
                        x["oracle"].as_str().unwrap_or(""),
                        &format!("upload-size-6MiB/{}", x["key"].as_str().unwrap_or("")),
                        x["what"].as_str().unwrap_or("").to_string(),
                        x["case"].clone(),
                    ));
                }
                child_summary = json!({"evaluations": v["evaluations"], "distinct_nontrivial": v["nontrivial"], "env": v["upload_size_env"]});
            }
            Err(e) => vcore::machinery_error(&format!("C31 child process failed: {e}")),
        }
    }

    let capped = capped.load(std::sync::atomic::Ordering::SeqCst);
    cov.fill(
        &mut out,
        "one execution = (chunk-size sequence, constant-size-parts flag, one injected answer at one recorded storage call | abort() or drop after a prefix | no fault); sequences: all of length <=2 (quick) / <=3 (thorough) over {0,1,5MiB-1,5MiB,5MiB+1,11MiB} plus many-small-writes families; non-trivial = the injected fault was actually reached, or an abort/drop happened after at least one storage call",
        !capped,
    );
    out.set("sequences", seqs.len() as u64);
    out.set("not_judged", probe_empty_write());
    if thorough {
        out.set("child_LANCE_INITIAL_UPLOAD_SIZE_6MiB", child_summary);
    }
    if capped {
        out.set("cap_hit", "wall cap reached; remaining sequences skipped");
    }
    out.assume("MemStore models the object_store contract: multipart parts are invisible until complete(); FailAfter = effect applied, error returned (lost reply). When the *committing* call's reply is lost the object legitimately exists and is only required to be exact");
    out.assume("single fault per execution; the 'connection reset by peer' retry path (2-8 s real sleep per retry) is not explored; dangling multipart uploads after a failure are not observable through MemStore's public API and are not judged");
    out.assume("quick tier: LANCE_INITIAL_UPLOAD_SIZE default (5 MiB) only; thorough tier additionally re-executes the binary with 6 MiB");
    out.violations = viol;
    out
}
