//! C41 – replay spill and stream chunking deliver every batch exactly once.
//!
//! Part 1 (spill, step-level explicit-state search): writer steps {Write next batch (<=3), Finish,
//! SendError} and, for each of two readers, {Open (again = a fresh replay), NextStart (spawn
//! `stream.next()`), NextJoin, ReadOne}. `ReadOne` / `NextJoin` are enabled only when the model says
//! the answer is determined (a batch is available, or the spill finished / errored), so nothing
//! blocks legitimately; a spawned `next()` is awaited (5 s cap) as soon as a later step determines
//! it. The spill cannot be snapshotted: a state is its step trace and every transition re-executes
//! the trace on a fresh spill file; states are de-duplicated on the model state. memory_limit in
//! {0, one batch, huge}. After Finish a fresh reader must replay everything.
//! Part 2 (chunker, K5): every sequence of <=4 batches of 0..=5 rows x chunk size 1..=4 through
//! chunk_stream, chunk_concat_stream and StrictBatchSizeStream.

use arrow_array::{Int32Array, RecordBatch};
use arrow_schema::{DataType, Field, Schema};
use datafusion::execution::SendableRecordBatchStream;
use datafusion::physical_plan::stream::RecordBatchStreamAdapter;
use datafusion_common::DataFusionError;
use futures::{StreamExt, TryStreamExt};
use lance_datafusion::chunker::{break_stream, chunk_concat_stream, chunk_stream, StrictBatchSizeStream};
use lance_datafusion::spill::{create_replay_spill, SpillReceiver, SpillSender};
use serde::{Deserialize, Serialize};
use serde_json::{json, Value};
use std::sync::Arc;
use std::time::Duration;
use vcore::seqx::{Caps, Step, Sut};
use vcore::{Cov, Ctx, Outcome, Violation};

fn schema() -> Arc<Schema> {
    Arc::new(Schema::new(vec![Field::new("a", DataType::Int32, false)]))
}

fn batch_of(first: i32, rows: usize) -> RecordBatch {
    RecordBatch::try_new(schema(), vec![Arc::new(Int32Array::from((0..rows as i32).map(|i| first + i).collect::<Vec<_>>()))]).unwrap()
}

fn spill_batch(i: usize) -> RecordBatch {
    batch_of(100 * (i as i32 + 1), 2)
}

// ---------------------------------------------------------------------------------------------
// spill: model
// ---------------------------------------------------------------------------------------------

#[derive(Clone, Debug, Serialize, Deserialize, PartialEq)]
pub enum Op {
    Write,
    Finish,
    SendError,
    Open(usize),
    NextStart(usize),
    NextJoin(usize),
    ReadOne(usize),
}

#[derive(Clone, Debug, Serialize, PartialEq)]
enum Expect {
    Batch(usize),
    End,
    Error,
}

#[derive(Clone, Debug, Serialize, Default)]
struct MReader {
    opened: bool,
    read: usize,
    ended: bool,
    failed: bool,
    /// a spawned next(): number of batches written when it was started
    pending_since: Option<usize>,
    /// what the pending next() must return, fixed at the first moment it became determined
    pending_expect: Option<Expect>,
    /// batches this reader consumed before the spill left memory (part of the hidden reader mode)
    read_while_buffered: usize,
}

#[derive(Clone, Debug, Serialize)]
pub struct Model {
    limit: usize,
    written: usize,
    finished: bool,
    errored: bool,
    /// number of batches written when the sender switched to the file (None = still in memory)
    spilled_at: Option<usize>,
    readers: Vec<MReader>,
}

const MAX_BATCHES: usize = 3;

impl Model {
    fn new(limit: usize) -> Self {
        Self { limit, written: 0, finished: false, errored: false, spilled_at: None, readers: vec![MReader::default(), MReader::default()] }
    }
    fn determined(&self, r: &MReader) -> Option<Expect> {
        if self.errored {
            Some(Expect::Error)
        } else if self.written > r.read {
            Some(Expect::Batch(r.read))
        } else if self.finished {
            Some(Expect::End)
        } else {
            None
        }
    }
    fn settle_pending(&mut self) {
        for i in 0..self.readers.len() {
            if self.readers[i].pending_since.is_some() && self.readers[i].pending_expect.is_none() {
                let d = self.determined(&self.readers[i]);
                self.readers[i].pending_expect = d;
            }
        }
    }
    fn ops(&self) -> Vec<Op> {
        let mut v = vec![];
        let live = !self.finished && !self.errored;
        for (i, r) in self.readers.iter().enumerate() {
            let can_read = r.opened && r.pending_since.is_none() && !r.ended && !r.failed;
            if can_read && self.determined(r).is_some() {
                v.push(Op::ReadOne(i));
            }
            if r.pending_since.is_some() && r.pending_expect.is_some() {
                v.push(Op::NextJoin(i));
            }
            if can_read {
                v.push(Op::NextStart(i));
            }
            if !r.opened || (r.pending_since.is_none() && (r.read > 0 || r.ended || r.failed)) {
                v.push(Op::Open(i));
            }
        }
        if live && self.written < MAX_BATCHES {
            v.push(Op::Write);
        }
        if live {
            v.push(Op::Finish);
            v.push(Op::SendError);
        }
        v
    }
    fn apply_result(&mut self, i: usize, e: &Expect) {
        let buffered = self.spilled_at.is_none();
        let r = &mut self.readers[i];
        match e {
            Expect::Batch(_) => {
                r.read += 1;
                if buffered {
                    r.read_while_buffered += 1;
                }
            }
            Expect::End => r.ended = true,
            Expect::Error => r.failed = true,
        }
    }
}

// ---------------------------------------------------------------------------------------------
// spill: execution of one trace
// ---------------------------------------------------------------------------------------------

type NextResult = Option<Result<RecordBatch, DataFusionError>>;

struct RReader {
    stream: Option<SendableRecordBatchStream>,
    task: Option<tokio::task::JoinHandle<(SendableRecordBatchStream, NextResult)>>,
    collected: Option<Result<NextResult, String>>,
}

fn describe(r: &Result<NextResult, String>) -> String {
    match r {
        Err(e) => format!("<{e}>"),
        Ok(None) => "end-of-stream".into(),
        Ok(Some(Err(e))) => format!("error({})", e.to_string().chars().take(60).collect::<String>()),
        Ok(Some(Ok(b))) => format!("batch{:?}", b.column(0).as_any().downcast_ref::<Int32Array>().map(|a| a.values().to_vec())),
    }
}

fn matches(e: &Expect, got: &Result<NextResult, String>) -> bool {
    match (e, got) {
        (Expect::Batch(i), Ok(Some(Ok(b)))) => *b == spill_batch(*i),
        (Expect::End, Ok(None)) => true,
        (Expect::Error, Ok(Some(Err(_)))) => true,
        _ => false,
    }
}

fn one_batch_limit() -> usize {
    // memory accounted for exactly one batch: the second write exceeds it
    let mut acc = lance_arrow::memory::MemoryAccumulator::default();
    acc.record_batch(&spill_batch(0));
    acc.total()
}

struct ExecOut {
    model: Model,
    outcome: String,
    violations: Vec<Violation>,
}

fn exec(limit_name: &str, limit: usize, trace: &[Op]) -> ExecOut {
    let first = exec_t(limit_name, limit, trace, 5);
    if first.violations.iter().any(|v| v.oracle == "hang") {
        // a time-out is only a verdict if it repeats with a 60 s cap (the machine may be loaded)
        return exec_t(limit_name, limit, trace, 60);
    }
    first
}

fn exec_t(limit_name: &str, limit: usize, trace: &[Op], cap_s: u64) -> ExecOut {
    let res = vcore::catch(|| {
        vstore::block_on(async {
            let dir = tempfile::tempdir().expect("tempdir");
            let path = dir.path().join("spill.arrow");
            let (sender, receiver): (SpillSender, SpillReceiver) = create_replay_spill(path.clone(), schema(), limit);
            let mut sender = Some(sender);
            let mut m = Model::new(limit);
            let mut rs: Vec<RReader> = (0..2).map(|_| RReader { stream: None, task: None, collected: None }).collect();
            let mut viol: Vec<Violation> = vec![];
            let mut outcome = "ok".to_string();
            let phase = |m: &Model| -> &'static str {
                if m.errored {
                    "after-error"
                } else if m.finished {
                    "after-finish"
                } else if m.spilled_at.is_some() {
                    "while-spilled"
                } else {
                    "while-buffered"
                }
            };
            for (k, op) in trace.iter().enumerate() {
                let last = k + 1 == trace.len();
                match op {
                    Op::Write => {
                        let b = spill_batch(m.written);
                        let r = tokio::time::timeout(Duration::from_secs(cap_s), sender.as_mut().unwrap().write(b)).await;
                        match r {
                            Ok(Ok(())) => {
                                m.written += 1;
                                // the spill file exists from the moment the sender leaves memory
                                if m.spilled_at.is_none() && path.exists() {
                                    m.spilled_at = Some(m.written - 1);
                                }
                                if last {
                                    outcome = if m.spilled_at.is_some() { "to-file".into() } else { "in-memory".into() };
                                }
                            }
                            Ok(Err(e)) => {
                                if last {
                                    viol.push(Violation::new("writer", "spill/write-error", format!("write #{} failed: {e}", m.written), json!({"limit": limit_name})));
                                }
                            }
                            Err(_) => {
                                if last {
                                    viol.push(Violation::new("hang", &format!("spill/hang/write/{}", phase(&m)), "write did not return within the time cap".to_string(), json!({"limit": limit_name})));
                                }
                            }
                        }
                    }
                    Op::Finish => {
                        let r = tokio::time::timeout(Duration::from_secs(cap_s), sender.as_mut().unwrap().finish()).await;
                        match r {
                            Ok(Ok(())) => m.finished = true,
                            Ok(Err(e)) => {
                                if last {
                                    viol.push(Violation::new("writer", "spill/finish-error", format!("finish failed: {e}"), json!({"limit": limit_name})));
                                }
                            }
                            Err(_) => {
                                if last {
                                    viol.push(Violation::new("hang", &format!("spill/hang/finish/{}", phase(&m)), "finish did not return within the time cap".to_string(), json!({"limit": limit_name})));
                                }
                            }
                        }
                    }
                    Op::SendError => {
                        sender.as_mut().unwrap().send_error(DataFusionError::Execution("injected".into()));
                        m.errored = true;
                    }
                    Op::Open(i) => {
                        rs[*i] = RReader { stream: Some(receiver.read()), task: None, collected: None };
                        m.readers[*i] = MReader { opened: true, ..Default::default() };
                    }
                    Op::NextStart(i) => {
                        let mut s = rs[*i].stream.take().expect("NextStart without stream");
                        rs[*i].task = Some(tokio::spawn(async move {
                            let r = s.next().await;
                            (s, r)
                        }));
                        m.readers[*i].pending_since = Some(m.written);
                    }
                    Op::NextJoin(i) => {
                        let got = rs[*i].collected.take().expect("NextJoin before the result was collected");
                        let exp = m.readers[*i].pending_expect.clone().expect("NextJoin undetermined");
                        if last {
                            outcome = format!("{exp:?}").split('(').next().unwrap_or("").to_string();
                            if !matches(&exp, &got) {
                                viol.push(Violation::new(
                                    "reader-sequence",
                                    &format!("spill/next-started-early/{}/{}", phase(&m), format!("{exp:?}").split('(').next().unwrap_or("")),
                                    format!("reader {i}: next() started when {} batches were written returned {}, expected {exp:?}", m.readers[*i].pending_since.unwrap_or(0), describe(&got)),
                                    json!({"limit": limit_name}),
                                ));
                            }
                        }
                        m.readers[*i].pending_since = None;
                        m.readers[*i].pending_expect = None;
                        m.apply_result(*i, &exp);
                    }
                    Op::ReadOne(i) => {
                        let exp = m.determined(&m.readers[*i]).expect("ReadOne undetermined");
                        let s = rs[*i].stream.as_mut().expect("ReadOne without stream");
                        let got: Result<NextResult, String> = match tokio::time::timeout(Duration::from_secs(cap_s), s.next()).await {
                            Ok(r) => Ok(r),
                            Err(_) => Err("no answer within the time cap".into()),
                        };
                        if last {
                            outcome = format!("{exp:?}").split('(').next().unwrap_or("").to_string();
                            if got.is_err() {
                                viol.push(Violation::new("hang", &format!("spill/hang/read/{}", phase(&m)), format!("reader {i}: next() did not answer within the time cap although {exp:?} is determined"), json!({"limit": limit_name})));
                            } else if !matches(&exp, &got) {
                                viol.push(Violation::new(
                                    "reader-sequence",
                                    &format!("spill/read/{}/{}", phase(&m), format!("{exp:?}").split('(').next().unwrap_or("")),
                                    format!("reader {i} (has read {}) got {}, expected {exp:?}", m.readers[*i].read, describe(&got)),
                                    json!({"limit": limit_name}),
                                ));
                            }
                        }
                        m.apply_result(*i, &exp);
                    }
                }
                // a spawned next() is collected as soon as this step determined its answer
                m.settle_pending();
                for i in 0..2 {
                    if m.readers[i].pending_expect.is_some() && rs[i].collected.is_none() {
                        if let Some(t) = rs[i].task.take() {
                            match tokio::time::timeout(Duration::from_secs(cap_s), t).await {
                                Ok(Ok((s, r))) => {
                                    rs[i].stream = Some(s);
                                    rs[i].collected = Some(Ok(r));
                                }
                                Ok(Err(e)) => rs[i].collected = Some(Err(format!("task failed: {e}"))),
                                Err(_) => {
                                    rs[i].collected = Some(Err("no answer within the time cap".into()));
                                    if last {
                                        viol.push(Violation::new(
                                            "hang",
                                            &format!("spill/hang/next-started-early/{}", phase(&m)),
                                            format!("reader {i}: a next() started when {} batches were written is still pending 5 s after step {op:?} determined its answer ({:?})", m.readers[i].pending_since.unwrap_or(0), m.readers[i].pending_expect),
                                            json!({"limit": limit_name}),
                                        ));
                                        outcome = "hang".into();
                                    }
                                }
                            }
                        }
                    }
                }
                // after a successful finish every fresh reader replays everything
                if last && m.finished && !m.errored && viol.is_empty() {
                    let s = receiver.read();
                    let all = tokio::time::timeout(Duration::from_secs(cap_s), s.try_collect::<Vec<RecordBatch>>()).await;
                    let want: Vec<RecordBatch> = (0..m.written).map(spill_batch).collect();
                    match all {
                        Ok(Ok(got)) if got == want => {}
                        Ok(Ok(got)) => viol.push(Violation::new("replay", "spill/replay-after-finish/wrong-batches", format!("fresh reader after finish got {} batches, {} were written", got.len(), m.written), json!({"limit": limit_name}))),
                        Ok(Err(e)) => viol.push(Violation::new("replay", "spill/replay-after-finish/error", format!("fresh reader after finish failed: {e}"), json!({"limit": limit_name}))),
                        Err(_) => viol.push(Violation::new("hang", "spill/hang/replay-after-finish", "fresh reader after finish did not drain within the time cap".to_string(), json!({"limit": limit_name}))),
                    }
                }
            }
            // cleanup: abort tasks that can never finish
            for r in rs.iter_mut() {
                if let Some(t) = r.task.take() {
                    t.abort();
                }
            }
            drop(sender);
            (m, outcome, viol)
        })
    });
    match res {
        Ok((model, outcome, violations)) => ExecOut { model, outcome, violations },
        Err(p) => ExecOut {
            model: Model::new(limit),
            outcome: "panic".into(),
            violations: vec![Violation::new("no-panic", "spill/panic", format!("spill panicked: {p}"), json!({"limit": limit_name}))],
        },
    }
}

#[derive(Clone)]
pub struct St {
    root: usize,
    trace: Vec<Op>,
    model: Model,
}

struct SpillSut {
    roots: Vec<(String, usize)>,
}

impl Sut for SpillSut {
    type State = St;
    type Op = Op;
    fn init(&self) -> Vec<(String, St)> {
        self.roots.iter().enumerate().map(|(i, (l, lim))| (l.clone(), St { root: i, trace: vec![], model: Model::new(*lim) })).collect()
    }
    fn ops(&self, st: &St, _d: usize) -> Vec<Op> {
        st.model.ops()
    }
    fn step(&self, st: &St, op: &Op) -> Step<St> {
        let mut trace = st.trace.clone();
        trace.push(op.clone());
        let (name, lim) = &self.roots[st.root];
        let out = exec(name, *lim, &trace);
        Step { next: Some(St { root: st.root, trace, model: out.model }), outcome: out.outcome, violations: out.violations }
    }
    fn canon(&self, st: &St) -> u64 {
        vcore::hash64(format!("{}|{}", st.root, serde_json::to_string(&st.model).unwrap()).as_bytes())
    }
    fn op_kind(&self, op: &Op) -> String {
        format!("{op:?}").split('(').next().unwrap_or("op").to_string()
    }
}

// ---------------------------------------------------------------------------------------------
// chunker (K5)
// ---------------------------------------------------------------------------------------------

fn input_stream(batches: Vec<RecordBatch>) -> SendableRecordBatchStream {
    Box::pin(RecordBatchStreamAdapter::new(schema(), futures::stream::iter(batches.into_iter().map(Ok))))
}

fn values(b: &RecordBatch) -> Vec<i32> {
    b.column(0).as_any().downcast_ref::<Int32Array>().unwrap().values().to_vec()
}

fn chunker_case(sizes: &[usize], chunk: usize, cov: &mut Cov, viol: &mut Vec<Violation>) {
    let mut first = 0i32;
    let batches: Vec<RecordBatch> = sizes
        .iter()
        .map(|n| {
            let b = batch_of(first, *n);
            first += *n as i32;
            b
        })
        .collect();
    let total: usize = sizes.iter().sum();
    let all: Vec<i32> = (0..total as i32).collect();
    let want_sizes: Vec<usize> = {
        let mut v = vec![chunk; total / chunk];
        if total % chunk != 0 {
            v.push(total % chunk);
        }
        v
    };
    let nontrivial = sizes.iter().filter(|s| **s > 0).count() >= 2 && sizes.iter().any(|s| *s % chunk != 0);
    cov.eval(if nontrivial { Some(vcore::hash64(format!("{sizes:?}|{chunk}").as_bytes())) } else { None });
    let shape = || -> &'static str {
        if sizes.contains(&0) {
            "with-empty-batch"
        } else {
            "no-empty-batch"
        }
    };
    let case = json!({"part": "chunker", "batch_sizes": sizes, "chunk_size": chunk});
    let mut check = |api: &str, got: Result<Result<Vec<Vec<i32>>, String>, String>, cov: &mut Cov| {
        cov.evaluations += 1;
        match got {
            Err(p) => viol.push(Violation::new("chunks", &format!("chunker/{api}/{}/panic", shape()), format!("{api} panicked on batches {sizes:?} chunk {chunk}: {p}"), case.clone())),
            Ok(Err(e)) => viol.push(Violation::new("chunks", &format!("chunker/{api}/{}/error", shape()), format!("{api} failed on batches {sizes:?} chunk {chunk}: {e}"), case.clone())),
            Ok(Ok(chunks)) => {
                let got_sizes: Vec<usize> = chunks.iter().map(|c| c.len()).collect();
                let flat: Vec<i32> = chunks.into_iter().flatten().collect();
                if flat != all {
                    viol.push(Violation::new("chunks", &format!("chunker/{api}/{}/rows-lost-or-reordered", shape()), format!("{api} on batches {sizes:?} chunk {chunk}: concatenation {flat:?} != input 0..{total}"), case.clone()));
                } else if got_sizes != want_sizes {
                    viol.push(Violation::new("chunks", &format!("chunker/{api}/{}/chunk-sizes", shape()), format!("{api} on batches {sizes:?} chunk {chunk}: chunk sizes {got_sizes:?}, expected {want_sizes:?}"), case.clone()));
                }
            }
        }
    };
    let b1 = batches.clone();
    let r = vcore::catch(|| {
        vstore::block_on(async {
            chunk_stream(input_stream(b1), chunk)
                .try_collect::<Vec<Vec<RecordBatch>>>()
                .await
                .map(|cs| cs.iter().map(|c| c.iter().flat_map(values).collect::<Vec<i32>>()).collect::<Vec<_>>())
                .map_err(|e| e.to_string())
        })
    });
    check("chunk_stream", r, cov);
    let b2 = batches.clone();
    let r = vcore::catch(|| {
        vstore::block_on(async {
            chunk_concat_stream(input_stream(b2), chunk).try_collect::<Vec<RecordBatch>>().await.map(|cs| cs.iter().map(values).collect::<Vec<_>>()).map_err(|e| e.to_string())
        })
    });
    check("chunk_concat_stream", r, cov);
    let b3 = batches.clone();
    let r = vcore::catch(|| {
        vstore::block_on(async {
            StrictBatchSizeStream::new(input_stream(b3), chunk).try_collect::<Vec<RecordBatch>>().await.map(|cs| cs.iter().map(values).collect::<Vec<_>>()).map_err(|e| e.to_string())
        })
    });
    check("StrictBatchSizeStream", r, cov);
    // break_stream has a different contract (inserts breaks, never combines): observed, not judged
    let b4 = batches;
    let r = vcore::catch(|| vstore::block_on(async { break_stream(input_stream(b4), chunk).try_collect::<Vec<RecordBatch>>().await.map(|cs| cs.iter().map(values).collect::<Vec<_>>()).map_err(|e| e.to_string()) }));
    let obs = match r {
        Ok(Ok(chunks)) => {
            let flat: Vec<i32> = chunks.iter().flatten().copied().collect();
            let mut pos = 0usize;
            let mut crosses = false;
            for c in &chunks {
                if !c.is_empty() && pos / chunk != (pos + c.len() - 1) / chunk {
                    crosses = true;
                }
                pos += c.len();
            }
            if flat != all {
                "rows-changed"
            } else if crosses {
                "batch-crosses-break-point"
            } else {
                "ok"
            }
        }
        Ok(Err(_)) => "error",
        Err(_) => "panic",
    };
    cov.outcome(&format!("not-judged:break_stream/{obs}"));
}

// ---------------------------------------------------------------------------------------------

pub fn run(ctx: &Ctx) -> Outcome {
    let mut out = Outcome::new("model_checking");
    let roots = vec![("memory_limit=0".to_string(), 0usize), ("memory_limit=one-batch".to_string(), one_batch_limit()), ("memory_limit=huge".to_string(), 1usize << 30)];
    let sut = SpillSut { roots };

    if let Some(art) = ctx.replay_case() {
        let c = &art["case"];
        let key = art["key"].as_str().unwrap_or("").to_string();
        if c["part"] == "chunker" {
            let sizes: Vec<usize> = serde_json::from_value(c["batch_sizes"].clone()).unwrap_or_default();
            let chunk = c["chunk_size"].as_u64().unwrap_or(1) as usize;
            let mut cov = Cov::new();
            let mut viol = vec![];
            chunker_case(&sizes, chunk, &mut cov, &mut viol);
            out.violations = viol.into_iter().filter(|v| v.key == key).collect();
        } else {
            match vcore::seqx::replay(&sut, c) {
                Ok(v) => out.violations = v.into_iter().filter(|v| v.key == key).collect(),
                Err(e) => vcore::machinery_error(&format!("replay: {e}")),
            }
        }
        out.set("states", 1u64);
        out.set("transitions", 1u64);
        out.set("traces_validated_against_impl", 1u64);
        out.set("samples", json!([c]));
        return out;
    }

    // ---- chunker ----
    let t0 = std::time::Instant::now();
    let seqs = vcore::smallx::sequences(6, 0, ctx.tier.pick(4, 5));
    let chunks = vcore::smallx::chunks(&seqs, ctx.workers * 4);
    let max_chunk = ctx.tier.pick(4usize, 6);
    let results = vcore::par_map(chunks, ctx.workers, |_, ss| {
        let mut cov = Cov::new();
        let mut viol = vec![];
        for s in ss {
            for c in 1..=max_chunk {
                chunker_case(&s, c, &mut cov, &mut viol);
            }
        }
        (cov, viol)
    });
    let mut ccov = Cov::new();
    let mut viol: Vec<Violation> = vec![];
    for (c, v) in results {
        ccov.merge(c);
        viol.extend(v);
    }
    viol.sort_by_key(|v| (v.key.clone(), v.case["batch_sizes"].as_array().map(|a| a.len()).unwrap_or(0), v.case.to_string()));
    let chunker_wall = t0.elapsed().as_secs_f64();

    // ---- spill ----
    let caps = Caps { max_depth: ctx.tier.pick(7, 10), max_states: ctx.tier.pick(150_000, 3_000_000), wall_s: ctx.tier.pick(30.0, 700.0) };
    let rep = vcore::seqx::explore(&sut, &caps, ctx.workers);
    rep.fill(&mut out);
    let mut sv = rep.violations.clone();
    sv.sort_by_key(|v| (v.key.clone(), v.case["ops"].as_array().map(|a| a.len()).unwrap_or(0)));
    viol.extend(sv);

    out.set("chunker_evaluations", ccov.evaluations);
    out.set("chunker_distinct_nontrivial", ccov.nontrivial.len() as u64);
    out.set("chunker_rule", format!("every sequence of <={} batches of 0..=5 rows x chunk size 1..={max_chunk}; non-trivial = at least two non-empty batches and some batch size not a multiple of the chunk size", ctx.tier.pick(4, 5)));
    out.set("chunker_exhaustive", true);
    out.set("chunker_wall_s", (chunker_wall * 10.0).round() / 10.0);
    let nj: serde_json::Map<String, Value> = ccov.outcomes.iter().filter(|(k, _)| k.starts_with("not-judged:")).map(|(k, v)| (k.trim_start_matches("not-judged:").to_string(), json!(v))).collect();
    out.set("not_judged", json!({"what": "break_stream (inserts breaks at multiples of max_chunk_size, never combines batches - a different contract from the fixed-size chunking the property names)", "observations": nj}));
    out.assume("spill: a step sequence is re-executed from scratch for every transition (real temp file, real spawn_blocking I/O); states are de-duplicated on the model (batches written, finished/errored, spill point, per reader: opened, batches read, batches read while buffered, ended/failed, pending next() and when it was started)");
    out.assume("spill: reads are only issued when the model says their answer is determined, spawned next() calls are awaited as soon as a later step determines them; a 5 s real-time cap turns a missing answer into a hang violation. After send_error a reader may get the error even if unread batches remain (the statement is about successful spills); the sender is never dropped without finish/send_error");
    out.assume("chunker: chunk_stream, chunk_concat_stream and StrictBatchSizeStream are judged against 'all chunks have exactly the requested size except the last, concatenation == input'; break_stream is observed only");
    out.violations = viol;
    out
}
