//! C30 – I/O scheduler returns the right bytes (part A, K5) and always completes (part B, see c30b.rs).
//!
//! Part A: a 64-byte file of distinct bytes on a MemStore; every list of <=3 ranges whose endpoints
//! come from a small alphabet (empty, nested, overlapping, adjacent, unsorted) is submitted through
//! `FileScheduler::submit_request` and through `LanceEncodingsIo` (read_chunk_size 3 and 8) for
//! block sizes {1,4,64}. `LANCE_MAX_IOP_SIZE` / `LANCE_PROCESS_IO_THREADS_LIMIT` are process-global
//! LazyLocks, so the parent process (defaults: 16 MiB, 128) re-executes itself as child processes
//! with (LANCE_MAX_IOP_SIZE=2, LANCE_PROCESS_IO_THREADS_LIMIT=1) and (LANCE_MAX_IOP_SIZE=5) and
//! merges their results.
//! Oracle: Ok, exactly one buffer per requested range, in request order, equal to the file slice.

use bytes::Bytes;
use lance_encoding::EncodingsIo;
use lance_file::LanceEncodingsIo;
use lance_io::object_store::ObjectStore as LanceStore;
use lance_io::scheduler::{FileScheduler, ScanScheduler, SchedulerConfig};
use lance_io::utils::CachedFileSize;
use object_store::path::Path;
use serde_json::{json, Value};
use std::ops::Range;
use std::sync::Arc;
use vcore::{Cov, Ctx, Outcome, Violation};
use vstore::MemStore;

thread_local! {
    /// current-thread runtime without the I/O driver: `yield_now` then never costs an epoll syscall
    static RT: tokio::runtime::Runtime = tokio::runtime::Builder::new_current_thread().enable_time().build().expect("tokio runtime");
}

pub fn block_on<F: std::future::Future>(f: F) -> F::Output {
    RT.with(|rt| rt.block_on(f))
}

pub const FILE_LEN: usize = 64;
pub fn file_bytes() -> Vec<u8> {
    (0..FILE_LEN).map(|i| (i * 3 + 7) as u8).collect()
}

const FULL_ENDPOINTS: [u64; 9] = [0, 1, 2, 3, 8, 9, 16, 63, 64];
const REDUCED_ENDPOINTS: [u64; 5] = [0, 2, 3, 8, 64];

fn ranges_over(e: &[u64]) -> Vec<Range<u64>> {
    let mut v = vec![];
    for (i, s) in e.iter().enumerate() {
        for t in &e[i..] {
            v.push(*s..*t);
        }
    }
    v
}

fn all_lists(thorough: bool) -> Vec<Vec<Range<u64>>> {
    let full = ranges_over(&FULL_ENDPOINTS);
    let mut out: Vec<Vec<Range<u64>>> = vec![vec![]];
    let full_len = if thorough { 3 } else { 2 };
    for s in vcore::smallx::sequences(full.len(), 1, full_len) {
        out.push(s.iter().map(|i| full[*i].clone()).collect());
    }
    if !thorough {
        let red = ranges_over(&REDUCED_ENDPOINTS);
        for s in vcore::smallx::sequences(red.len(), 3, 3) {
            out.push(s.iter().map(|i| red[*i].clone()).collect());
        }
    }
    out
}

struct Rig {
    fs: FileScheduler,
    eio3: LanceEncodingsIo,
    eio8: LanceEncodingsIo,
    _sched: Arc<ScanScheduler>,
}

pub fn lance_store(mem: MemStore, block_size: usize, io_parallelism: usize) -> Arc<LanceStore> {
    Arc::new(LanceStore::new(
        Arc::new(mem),
        "memory:///".parse().unwrap(),
        Some(block_size),
        None,
        false,
        true,
        io_parallelism,
        0,
        None,
    ))
}

async fn rig(block_size: usize) -> Rig {
    {
        let mem = MemStore::new();
        mem.write_raw("f.bin", Bytes::from(file_bytes()));
        let store = lance_store(mem, block_size, 8);
        let sched = ScanScheduler::new(store, SchedulerConfig { io_buffer_size_bytes: 1 << 20 });
        let fs = sched.open_file(&Path::from("f.bin"), &CachedFileSize::unknown()).await.expect("open_file");
        Rig {
            eio3: LanceEncodingsIo::new(fs.clone()).with_read_chunk_size(3),
            eio8: LanceEncodingsIo::new(fs.clone()).with_read_chunk_size(8),
            fs,
            _sched: sched,
        }
    }
}

fn list_json(l: &[Range<u64>]) -> Value {
    json!(l.iter().map(|r| vec![r.start, r.end]).collect::<Vec<_>>())
}

/// structural class of a request list (classification key component), most specific first
pub fn list_class(l: &[Range<u64>]) -> &'static str {
    let sorted = l.windows(2).all(|w| w[0].start <= w[1].start);
    let has_empty = l.iter().any(|r| r.start == r.end);
    let nested_or_overlap = l.windows(2).any(|w| w[1].start < w[0].end);
    match (sorted, nested_or_overlap, has_empty) {
        (false, _, _) => "unsorted",
        (true, true, true) => "sorted-overlapping-with-empty-range",
        (true, true, false) => "sorted-overlapping",
        (true, false, true) => "sorted-with-empty-range",
        (true, false, false) => "sorted-disjoint",
    }
}

type SubmitResult = Result<Result<lance_core::Result<Vec<Bytes>>, tokio::time::error::Elapsed>, String>;

/// None = correct; Some((symptom, description, scheduler may be wedged))
fn verdict(list: &[Range<u64>], res: SubmitResult, file: &[u8]) -> Option<(&'static str, String, bool)> {
    match res {
        Err(p) => Some(("panic", format!("panicked: {p}"), true)),
        Ok(Err(_)) => Some(("hang", "request did not complete within 5 s and, re-submitted on a fresh scheduler, not within 60 s".into(), true)),
        Ok(Ok(Err(e))) => Some(("error", format!("returned Err: {e}"), false)),
        Ok(Ok(Ok(bufs))) => {
            if bufs.len() != list.len() {
                Some(("buffer-count", format!("{} buffers for {} ranges (lens {:?})", bufs.len(), list.len(), bufs.iter().map(|b| b.len()).collect::<Vec<_>>()), false))
            } else {
                (0..list.len()).find(|i| bufs[*i][..] != file[list[*i].start as usize..list[*i].end as usize]).map(|i| {
                    ("wrong-bytes", format!("buffer {i} = {:?}, file[{}..{}] = {:?}", &bufs[i][..], list[i].start, list[i].end, &file[list[i].start as usize..list[i].end as usize]), false)
                })
            }
        }
    }
}

async fn submit(r: &Rig, path: &str, l: &[Range<u64>], cap_s: u64) -> SubmitResult {
    use futures::FutureExt;
    std::panic::AssertUnwindSafe(async {
        let fut = match path {
            "file_scheduler" => r.fs.submit_request(l.to_vec(), 0).boxed(),
            "encodings_io/chunk3" => r.eio3.submit_request(l.to_vec(), 0),
            _ => r.eio8.submit_request(l.to_vec(), 0),
        };
        tokio::time::timeout(std::time::Duration::from_secs(cap_s), fut).await
    })
    .catch_unwind()
    .await
    .map_err(|e| vcore::panic_message(&e))
}

/// does this (counterfactual) request list come back correct?
async fn passes(r: &mut Rig, block: usize, path: &str, cand: &[Range<u64>], file: &[u8]) -> bool {
    let res = submit(r, path, cand, 5).await;
    match verdict(cand, res, file) {
        None => true,
        Some((_, _, wedged)) => {
            if wedged {
                *r = rig(block).await;
            }
            false
        }
    }
}

fn part_a_slice(block: usize, lists: &[Vec<Range<u64>>], tag: &str, cov: &mut Cov, viol: &mut Vec<Violation>) {
    let file = file_bytes();
    // one block_on for the whole slice; every submission is individually guarded against panics
    // (catch_unwind on the future) and hangs (5 s timeout, confirmed with 60 s on a fresh scheduler)
    block_on(async {
        let mut r = rig(block).await;
        for l in lists {
            let class = list_class(l);
            if class != "sorted-disjoint" || l.len() >= 2 {
                cov.nontrivial.insert(vcore::hash64(format!("{block}|{l:?}").as_bytes()));
            }
            cov.outcome(&format!("lists:{class}"));
            for path in ["file_scheduler", "encodings_io/chunk3", "encodings_io/chunk8"] {
                cov.evaluations += 1;
                let mut res = submit(&r, path, l, 5).await;
                if matches!(res, Ok(Err(_))) {
                    cov.outcome("hang-suspected:re-run");
                    r = rig(block).await;
                    res = submit(&r, path, l, 60).await;
                }
                let Some((symptom, what, wedged)) = verdict(l, res, &file) else { continue };
                if wedged {
                    r = rig(block).await;
                }
                // ---- root cause = the input feature whose removal makes the request succeed ----
                let mut cur: Vec<Range<u64>> = l.clone();
                let mut cause = "other";
                let mut decided = false;
                if !cur.windows(2).all(|w| w[0].start <= w[1].start) {
                    cur.sort_by_key(|x| (x.start, x.end));
                    if passes(&mut r, block, path, &cur, &file).await {
                        cause = "unsorted-ranges";
                        decided = true;
                    }
                }
                // overlap first: an empty range can merely widen the coalesced read (and so trigger a
                // split) without being the cause; drop every non-empty range that overlaps an earlier one
                let overlaps = |v: &[Range<u64>]| {
                    let mut end = 0u64;
                    let mut any = false;
                    for x in v.iter().filter(|x| x.start != x.end) {
                        if x.start < end {
                            any = true;
                        }
                        end = end.max(x.end);
                    }
                    any
                };
                if !decided && overlaps(&cur) {
                    let mut end = 0u64;
                    let mut cand = vec![];
                    for x in &cur {
                        if x.start != x.end && x.start < end {
                            continue;
                        }
                        end = end.max(x.end);
                        cand.push(x.clone());
                    }
                    if passes(&mut r, block, path, &cand, &file).await {
                        cause = "overlapping-range-after-a-split-range";
                        decided = true;
                    }
                }
                if !decided && cur.iter().any(|x| x.start == x.end) {
                    let mut cand = cur.clone();
                    cand.retain(|x| x.start != x.end);
                    if passes(&mut r, block, path, &cand, &file).await {
                        cause = "empty-range-gets-no-buffer";
                        decided = true;
                    }
                }
                if !decided && overlaps(&cur) {
                    cause = "overlapping-range-after-a-split-range";
                }
                viol.push(Violation::new(
                    "bytes",
                    &format!("bytes/{cause}"),
                    format!("{path} block_size={block} env={tag} ranges {:?}: {what} [{symptom}]", l.iter().map(|x| (x.start, x.end)).collect::<Vec<_>>()),
                    json!({"part": "A", "path": path, "block_size": block, "ranges": list_json(l), "env": tag, "symptom": symptom}),
                ));
                cov.outcome(&format!("bytes-failure:{cause}:{}:{symptom}", path.split('/').next().unwrap_or(path)));
            }
        }
    });
}

pub fn part_a(ctx: &Ctx, tag: &str) -> (Cov, Vec<Violation>, bool) {
    let thorough = !ctx.quick();
    let lists = all_lists(thorough);
    // a process-wide IOPS quota of 1 makes worker threads contend for one permit: run single-threaded
    let workers = if std::env::var("LANCE_PROCESS_IO_THREADS_LIMIT").ok().as_deref() == Some("1") { 1 } else { ctx.workers };
    let mut items: Vec<(usize, Vec<Vec<Range<u64>>>)> = vec![];
    for block in [1usize, 4, 64] {
        for ch in lists.chunks(lists.len().div_ceil(workers * 2).max(1)) {
            items.push((block, ch.to_vec()));
        }
    }
    let start = std::time::Instant::now();
    let cap = ctx.tier.pick(30.0, 500.0);
    let capped = std::sync::atomic::AtomicBool::new(false);
    let results = vcore::par_map(items, workers, |_, (block, ls)| {
        let mut cov = Cov::new();
        let mut viol = vec![];
        for sub in ls.chunks(256) {
            if start.elapsed().as_secs_f64() > cap {
                capped.store(true, std::sync::atomic::Ordering::SeqCst);
                break;
            }
            part_a_slice(block, sub, tag, &mut cov, &mut viol);
        }
        (cov, viol)
    });
    let mut cov = Cov::new();
    let mut viol = vec![];
    for (c, v) in results {
        cov.merge(c);
        viol.extend(v);
    }
    cov.sample(json!({"part": "A", "ranges": list_json(&lists[lists.len() / 3]), "env": tag}));
    cov.sample(json!({"part": "A", "ranges": list_json(&lists[lists.len() - 7]), "env": tag}));
    (cov, viol, capped.load(std::sync::atomic::Ordering::SeqCst))
}

fn viol_json(v: &[Violation]) -> Value {
    // keep the shortest example per key (lists are enumerated shortest first per worker; sort again)
    let mut by_key: std::collections::BTreeMap<String, (usize, &Violation)> = Default::default();
    let mut counts: std::collections::BTreeMap<String, u64> = Default::default();
    for x in v {
        *counts.entry(x.key.clone()).or_insert(0) += 1;
        let size = x.case["ranges"].as_array().map(|a| a.len()).unwrap_or(9);
        match by_key.get(&x.key) {
            Some((s, _)) if *s <= size => {}
            _ => {
                by_key.insert(x.key.clone(), (size, x));
            }
        }
    }
    json!(by_key
        .values()
        .map(|(_, x)| json!({"oracle": x.oracle, "key": x.key, "what": x.what, "case": x.case, "count": counts[&x.key]}))
        .collect::<Vec<_>>())
}

pub fn run(ctx: &Ctx) -> Outcome {
    let tag = format!(
        "max_iop={} io_threads={}",
        std::env::var("LANCE_MAX_IOP_SIZE").unwrap_or_else(|_| "default".into()),
        std::env::var("LANCE_PROCESS_IO_THREADS_LIMIT").unwrap_or_else(|_| "default".into())
    );
    // ---- child mode ----
    if ctx.opts.get("child").map(|s| s.as_str()) == Some("A") {
        let (cov, viol, capped) = part_a(ctx, &tag);
        crate::sub::child_finish(
            ctx,
            json!({"evaluations": cov.evaluations, "nontrivial": cov.nontrivial.len(), "outcomes": cov.outcomes, "violations": viol_json(&viol), "capped": capped, "tag": tag}),
        );
    }
    if ctx.opts.get("child").map(|s| s.as_str()) == Some("B") {
        let r = crate::c30b::explore(ctx, &tag);
        crate::sub::child_finish(ctx, crate::c30b::report_json(&r));
    }

    // ---- replay ----
    if let Some(art) = ctx.replay_case() {
        return replay(ctx, &art);
    }

    // ---- parent ----
    let mut out = Outcome::new("model_checking");
    let only = ctx.opts.get("only").cloned().unwrap_or_default();
    let t0 = std::time::Instant::now();
    // children of part A run concurrently with the parent's own slice (they are separate processes)
    let child_envs: Vec<Vec<(&str, String)>> = if only == "B" {
        vec![]
    } else {
        vec![
            vec![("LANCE_MAX_IOP_SIZE", "2".to_string()), ("LANCE_PROCESS_IO_THREADS_LIMIT", "1".to_string())],
            vec![("LANCE_MAX_IOP_SIZE", "5".to_string())],
        ]
    };
    let handles: Vec<std::thread::JoinHandle<Result<Value, String>>> = child_envs
        .into_iter()
        .map(|envs| {
            let ctx2 = ctx.clone();
            let secs = ctx.tier.pick(55, 700);
            std::thread::spawn(move || crate::sub::run_child(&ctx2, &envs, &[("child", "A")], secs))
        })
        .collect();
    let (mut cov, mut viol, mut capped) = if only == "B" { (Cov::new(), vec![], false) } else { part_a(ctx, &tag) };
    let mut children = vec![];
    for h in handles {
        let res = h.join().unwrap_or_else(|_| Err("child thread panicked".into()));
        match res {
            Ok(v) => {
                cov.evaluations += v["evaluations"].as_u64().unwrap_or(0);
                capped |= v["capped"].as_bool().unwrap_or(false);
                for (k, n) in v["outcomes"].as_object().cloned().unwrap_or_default() {
                    *cov.outcomes.entry(k).or_insert(0) += n.as_u64().unwrap_or(0);
                }
                for x in v["violations"].as_array().cloned().unwrap_or_default() {
                    for _ in 0..x["count"].as_u64().unwrap_or(1).min(3) {
                        viol.push(Violation::new(x["oracle"].as_str().unwrap_or(""), x["key"].as_str().unwrap_or(""), x["what"].as_str().unwrap_or("").to_string(), x["case"].clone()));
                    }
                }
                children.push(json!({"env": v["tag"], "evaluations": v["evaluations"], "distinct_nontrivial": v["nontrivial"]}));
            }
            Err(e) => vcore::machinery_error(&format!("C30 part A child failed: {e}")),
        }
    }
    viol.sort_by_key(|v| (v.key.clone(), v.case["ranges"].as_array().map(|a| a.len()).unwrap_or(9), v.case.to_string()));

    let bytes_wall = t0.elapsed().as_secs_f64();
    out.set("bytes_wall_s", (bytes_wall * 10.0).round() / 10.0);

    // ---- part B (liveness) ----
    let t1 = std::time::Instant::now();
    let b = crate::c30b::run_all(ctx, &tag, only == "A");
    out.set("liveness_wall_s", (t1.elapsed().as_secs_f64() * 10.0).round() / 10.0);
    b.fill(&mut out);
    viol.extend(b.violations.clone());

    out.set("bytes_evaluations", cov.evaluations);
    out.set("bytes_distinct_nontrivial", cov.nontrivial.len() as u64);
    out.set("bytes_rule", "part A: one case = (block size, request list); all lists of <=2 ranges over endpoints {0,1,2,3,8,9,16,63,64} and (quick) all lists of 3 ranges over {0,2,3,8,64} / (thorough) over the full alphabet; each through FileScheduler and LanceEncodingsIo(chunk 3, 8); non-trivial = >=2 ranges or an empty range");
    out.set("bytes_outcomes", json!(cov.outcomes));
    out.set("bytes_children", json!(children));
    out.set("bytes_samples", json!(cov.samples));
    out.set("bytes_exhaustive", !capped);
    if capped {
        out.set("bytes_cap_hit", "part A wall cap reached in at least one process");
    }
    out.assume("part A: file of 64 distinct bytes on MemStore; LANCE_MAX_IOP_SIZE in {default(16MiB), 2, 5} and LANCE_PROCESS_IO_THREADS_LIMIT in {default(128), 1} are varied by re-executing this binary (they are process-global LazyLocks); requests are submitted one at a time");
    out.violations = viol;
    out
}

/// the env vars a recorded case ran under ("max_iop=2 io_threads=1"), when they differ from ours
fn recorded_env(tag: &str) -> Vec<(&'static str, String)> {
    let mut v = vec![];
    for part in tag.split_whitespace() {
        if let Some((k, val)) = part.split_once('=') {
            let name = match k {
                "max_iop" => "LANCE_MAX_IOP_SIZE",
                "io_threads" => "LANCE_PROCESS_IO_THREADS_LIMIT",
                _ => continue,
            };
            if val != "default" && std::env::var(name).ok().as_deref() != Some(val) {
                v.push((name, val.to_string()));
            }
        }
    }
    v
}

fn replay(ctx: &Ctx, art: &Value) -> Outcome {
    let mut out = Outcome::new("model_checking");
    let c = &art["case"];
    // the knobs are process-global: re-execute ourselves under the recorded environment
    let envs = recorded_env(c["env"].as_str().unwrap_or(""));
    if !envs.is_empty() {
        let mut cmd = std::process::Command::new(std::env::current_exe().expect("current_exe"));
        cmd.arg(&ctx.id).arg("--tier").arg(ctx.tier.name()).arg("--replay").arg(ctx.replay.as_ref().unwrap());
        for (k, v) in &envs {
            cmd.env(k, v);
        }
        cmd.env("VERIF_DIR", &ctx.verif_dir);
        let st = cmd.status().unwrap_or_else(|e| vcore::machinery_error(&format!("cannot re-execute for replay: {e}")));
        std::process::exit(st.code().unwrap_or(2));
    }
    if c["part"] == "B" {
        return crate::c30b::replay(ctx, art);
    }
    let list: Vec<Range<u64>> = c["ranges"].as_array().cloned().unwrap_or_default().iter().map(|p| p[0].as_u64().unwrap()..p[1].as_u64().unwrap()).collect();
    let block = c["block_size"].as_u64().unwrap_or(4) as usize;
    let mut cov = Cov::new();
    let mut viol = vec![];
    part_a_slice(block, &[list], "replay (this process's env)", &mut cov, &mut viol);
    let key = art["key"].as_str().unwrap_or("");
    viol.retain(|v| v.key == key);
    out.set("states", 1u64);
    out.set("transitions", cov.evaluations);
    out.set("traces_validated_against_impl", cov.evaluations);
    out.set("samples", json!([c]));
    out.assume("replay runs in this process's environment: set LANCE_MAX_IOP_SIZE / LANCE_PROCESS_IO_THREADS_LIMIT as recorded in case.env to reproduce a child-process finding");
    out.violations = viol;
    out
}
