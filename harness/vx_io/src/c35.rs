//! C35 – distance kernels agree with the scalar definitions (K5).
//!
//! Part 1 (kernels): for every element type {f16, bf16, f32, f64, u8}, every length 0..=1100, every
//! ordered pair of value patterns (see `PATTERNS`), every public path of l2 / dot / cosine / norm /
//! hamming (free fn, trait method, `*_batch`, trait `*_batch`, Arrow FixedSizeList helpers incl. null
//! rows and sliced inputs, `DistanceType::{func, arrow_batch_func}`, `cosine_fast`,
//! `cosine_with_norms`) is compared with an f64 scalar loop written here.
//! Tolerance is a first-order worst-case rounding bound of an n-term sum in the accumulator type
//! (not a tuned constant): |got-ref| <= 2(n+8)·eps·Σ|terms| + 2·eps32·|ref|.
//!
//! Part 2 (nearest centroid): every centroid list (k<=4 for dim<=2, k<=3 for dim 3) over the lattice
//! {-1,0,1}^dim with every lattice vector, through argmin*/compute_partition/compute_partitions/
//! compute_partitions_arrow_array/kmeans_find_partitions(_arrow_array): the chosen centroid is at
//! minimal reference distance (ties allowed) and reported distances equal the reference.

use arrow_array::types::{Float16Type, Float32Type, Float64Type, Int8Type, UInt8Type};
use arrow_array::{Array, ArrayRef, FixedSizeListArray, Float32Array, PrimitiveArray};
use arrow_buffer::NullBuffer;
use arrow_schema::Field;
use half::{bf16, f16};
use lance_index::vector::kmeans::{
    compute_partition, compute_partitions, compute_partitions_arrow_array, kmeans_find_partitions,
    kmeans_find_partitions_arrow_array, KMeansAlgoFloat,
};
use lance_linalg::distance::{
    cosine_distance, cosine_distance_arrow_batch, cosine_distance_batch, dot, dot_distance,
    dot_distance_arrow_batch, dot_distance_batch, hamming::hamming, hamming::hamming_distance_arrow_batch,
    hamming::hamming_distance_batch, hamming::hamming_scalar, l2, l2_distance_arrow_batch,
    l2_distance_batch, l2_distance_uint_scalar, norm_l2, norm_squared_fsl, Cosine, DistanceType, Dot,
    Normalize, L2,
};
use lance_linalg::kernels::{
    argmax, argmin, argmin_opt, argmin_value, argmin_value_float, argmin_value_float_with_bias,
};
use serde_json::{json, Value};
use std::sync::Arc;
use vcore::{Cov, Ctx, Outcome, Violation};

pub const PATTERNS: [&str; 9] = [
    "zeros", "ones", "ramp13", "ramp7", "alt", "first", "last", "huge", "tiny",
];

pub trait Elem: Copy + L2 + Dot + Cosine + Normalize + Send + Sync + 'static {
    const NAME: &'static str;
    /// unit round-off of the accumulator the kernels use for this type
    const ACC_EPS: f64;
    const IS_INT: bool = false;
    fn from_f64(v: f64) -> Self;
    fn to_f64(self) -> f64;
    fn huge() -> f64;
    fn tiny() -> f64;
    /// Arrow array of this element type (None: no Arrow helper accepts it)
    fn arr(v: &[Self]) -> Option<ArrayRef>;
}

const E32: f64 = 5.960464477539063e-8; // 2^-24
const E64: f64 = 1.1102230246251565e-16; // 2^-53

impl Elem for f32 {
    const NAME: &'static str = "f32";
    const ACC_EPS: f64 = E32;
    fn from_f64(v: f64) -> Self {
        v as f32
    }
    fn to_f64(self) -> f64 {
        self as f64
    }
    fn huge() -> f64 {
        2f64.powi(50)
    }
    fn tiny() -> f64 {
        2f64.powi(-50)
    }
    fn arr(v: &[Self]) -> Option<ArrayRef> {
        Some(Arc::new(PrimitiveArray::<Float32Type>::from(v.to_vec())))
    }
}
impl Elem for f64 {
    const NAME: &'static str = "f64";
    const ACC_EPS: f64 = E64;
    fn from_f64(v: f64) -> Self {
        v
    }
    fn to_f64(self) -> f64 {
        self
    }
    fn huge() -> f64 {
        2f64.powi(50)
    }
    fn tiny() -> f64 {
        2f64.powi(-50)
    }
    fn arr(v: &[Self]) -> Option<ArrayRef> {
        Some(Arc::new(PrimitiveArray::<Float64Type>::from(v.to_vec())))
    }
}
impl Elem for f16 {
    const NAME: &'static str = "f16";
    const ACC_EPS: f64 = E32;
    fn from_f64(v: f64) -> Self {
        f16::from_f64(v)
    }
    fn to_f64(self) -> f64 {
        f16::to_f64(self)
    }
    fn huge() -> f64 {
        32768.0
    }
    fn tiny() -> f64 {
        2f64.powi(-12)
    }
    fn arr(v: &[Self]) -> Option<ArrayRef> {
        Some(Arc::new(PrimitiveArray::<Float16Type>::from(v.to_vec())))
    }
}
impl Elem for bf16 {
    const NAME: &'static str = "bf16";
    const ACC_EPS: f64 = E32;
    fn from_f64(v: f64) -> Self {
        bf16::from_f64(v)
    }
    fn to_f64(self) -> f64 {
        bf16::to_f64(self)
    }
    fn huge() -> f64 {
        2f64.powi(50)
    }
    fn tiny() -> f64 {
        2f64.powi(-50)
    }
    fn arr(_: &[Self]) -> Option<ArrayRef> {
        None
    }
}
impl Elem for u8 {
    const NAME: &'static str = "u8";
    const ACC_EPS: f64 = E32;
    const IS_INT: bool = true;
    fn from_f64(v: f64) -> Self {
        v as u8
    }
    fn to_f64(self) -> f64 {
        self as f64
    }
    fn huge() -> f64 {
        255.0
    }
    fn tiny() -> f64 {
        1.0
    }
    fn arr(v: &[Self]) -> Option<ArrayRef> {
        Some(Arc::new(PrimitiveArray::<UInt8Type>::from(v.to_vec())))
    }
}

/// value of pattern `p` at position `i` of a vector of length `n`
fn pat_value<T: Elem>(p: usize, i: usize, n: usize) -> f64 {
    let int = T::IS_INT;
    match PATTERNS[p] {
        "zeros" => 0.0,
        "ones" => 1.0,
        "ramp13" => {
            if int {
                ((i * 37) % 256) as f64
            } else {
                ((i % 13) as f64 - 6.0) * 0.5
            }
        }
        "ramp7" => {
            if int {
                ((i * 11 + 3) % 7) as f64
            } else {
                (((i + 3) % 7) as f64 - 2.0) * 0.25
            }
        }
        "alt" => {
            if int {
                if i % 2 == 0 {
                    255.0
                } else {
                    0.0
                }
            } else if i % 2 == 0 {
                1.0
            } else {
                -1.0
            }
        }
        "first" => {
            if i == 0 {
                3.0
            } else {
                0.0
            }
        }
        "last" => {
            if i + 1 == n {
                3.0
            } else {
                0.0
            }
        }
        "huge" => T::huge(),
        "tiny" => T::tiny(),
        _ => unreachable!(),
    }
}

fn make<T: Elem>(p: usize, n: usize) -> Vec<T> {
    (0..n).map(|i| T::from_f64(pat_value::<T>(p, i, n))).collect()
}

/// f64 scalar references: value and Σ|terms| (for the rounding bound)
struct Ref {
    l2: f64,
    l2_abs: f64,
    dot: f64,
    dot_abs: f64,
    nx2: f64,
    ny2: f64,
}

fn reference(x: &[f64], y: &[f64]) -> Ref {
    let mut r = Ref {
        l2: 0.0,
        l2_abs: 0.0,
        dot: 0.0,
        dot_abs: 0.0,
        nx2: 0.0,
        ny2: 0.0,
    };
    for (a, b) in x.iter().zip(y.iter()) {
        let d = a - b;
        r.l2 += d * d;
        // |a-b|^2 is the term; its rounding depends on |a|,|b| (difference rounded before squaring)
        r.l2_abs += (a.abs() + b.abs()) * (a.abs() + b.abs());
        r.dot += a * b;
        r.dot_abs += (a * b).abs();
        r.nx2 += a * a;
        r.ny2 += b * b;
    }
    r
}

fn sum_tol(n: usize, eps: f64, sum_abs: f64, reference: f64) -> f64 {
    2.0 * (n as f64 + 8.0) * eps * sum_abs + 2.0 * E32 * reference.abs()
}

struct Sink<'a> {
    cov: &'a mut Cov,
    viol: &'a mut Vec<Violation>,
    ty: &'static str,
    n: usize,
    px: usize,
    py: usize,
}

impl Sink<'_> {
    fn case(&self, metric: &str, path: &str) -> Value {
        json!({"part": "kernel", "type": self.ty, "len": self.n, "px": PATTERNS[self.px], "py": PATTERNS[self.py], "metric": metric, "path": path})
    }
    /// compare one kernel result with the reference; `tol` absolute
    fn cmp(&mut self, metric: &str, path: &str, got: f32, want: f64, tol: f64) {
        self.cov.evaluations += 1;
        let g = got as f64;
        let ok = if want.is_nan() {
            true // reference undefined (cosine with a zero vector): not judged
        } else if g.is_nan() {
            false
        } else {
            (g - want).abs() <= tol || (g == want)
        };
        if !ok {
            let shape = if g.is_nan() {
                "nan"
            } else if g.is_infinite() {
                "inf"
            } else {
                "mismatch"
            };
            self.viol.push(Violation::new(
                "scalar-definition",
                &format!("kernel/{metric}/{path}/{}/{shape}", self.ty),
                format!(
                    "{metric} via {path} on {} len {} patterns ({},{}): got {got:e}, f64 reference {want:e}, tolerance {tol:e}",
                    self.ty, self.n, PATTERNS[self.px], PATTERNS[self.py]
                ),
                self.case(metric, path),
            ));
        }
    }
    fn panic(&mut self, metric: &str, path: &str, msg: String) {
        self.cov.evaluations += 1;
        self.viol.push(Violation::new(
            "no-panic",
            &format!("kernel/{metric}/{path}/{}/panic", self.ty),
            format!(
                "{metric} via {path} on {} len {} patterns ({},{}) panicked: {msg}",
                self.ty, self.n, PATTERNS[self.px], PATTERNS[self.py]
            ),
            self.case(metric, path),
        ));
    }
    fn err(&mut self, metric: &str, path: &str, msg: String) {
        self.cov.evaluations += 1;
        self.viol.push(Violation::new(
            "no-error",
            &format!("kernel/{metric}/{path}/{}/error", self.ty),
            format!(
                "{metric} via {path} on {} len {} returned an error on supported input: {msg}",
                self.ty, self.n
            ),
            self.case(metric, path),
        ));
    }
}

fn fsl_of(values: ArrayRef, dim: usize, nulls: Option<Vec<bool>>) -> FixedSizeListArray {
    let field = Arc::new(Field::new("item", values.data_type().clone(), true));
    FixedSizeListArray::try_new(field, dim as i32, values, nulls.map(NullBuffer::from)).unwrap()
}

/// All paths for one (type, len, px, py).
fn eval_case<T: Elem>(cov: &mut Cov, viol: &mut Vec<Violation>, n: usize, px: usize, py: usize) {
    let x: Vec<T> = make::<T>(px, n);
    let y: Vec<T> = make::<T>(py, n);
    let xf: Vec<f64> = x.iter().map(|v| v.to_f64()).collect();
    let yf: Vec<f64> = y.iter().map(|v| v.to_f64()).collect();
    let r = reference(&xf, &yf);
    let eps = T::ACC_EPS;
    let l2_tol = sum_tol(n, eps, r.l2_abs, r.l2);
    let dot_tol = sum_tol(n, eps, r.dot_abs, r.dot);
    let nx = r.nx2.sqrt();
    let ny = r.ny2.sqrt();
    let cos_ref = if nx == 0.0 || ny == 0.0 {
        f64::NAN
    } else {
        1.0 - r.dot / (nx * ny)
    };
    let cos_tol = 4.0 * (n as f64 + 8.0) * E32.max(eps) + 1e-6;
    let nontrivial = r.l2 != 0.0 && r.dot != 0.0;
    if nontrivial {
        cov.nontrivial.insert(vcore::hash64(
            format!("{}|{n}|{px}|{py}", T::NAME).as_bytes(),
        ));
    }
    let mut s = Sink {
        cov,
        viol,
        ty: T::NAME,
        n,
        px,
        py,
    };

    macro_rules! one {
        ($metric:expr, $path:expr, $want:expr, $tol:expr, $e:expr) => {
            match vcore::catch(|| $e) {
                Ok(g) => s.cmp($metric, $path, g, $want, $tol),
                Err(m) => s.panic($metric, $path, m),
            }
        };
    }

    // ---- single-pair paths -------------------------------------------------------------------
    one!("l2", "fn", r.l2, l2_tol, l2::<T>(&x, &y));
    one!("l2", "trait", r.l2, l2_tol, T::l2(&x, &y));
    one!("l2", "DistanceType::func", r.l2, l2_tol, (DistanceType::L2.func::<T>())(&x, &y));
    one!("dot", "fn", r.dot, dot_tol, dot::<T>(&x, &y));
    one!("dot", "trait", r.dot, dot_tol, T::dot(&x, &y));
    one!("dot", "dot_distance", 1.0 - r.dot, dot_tol + 2.0 * E32, dot_distance::<T>(&x, &y));
    one!("dot", "DistanceType::func", 1.0 - r.dot, dot_tol + 2.0 * E32, (DistanceType::Dot.func::<T>())(&x, &y));
    one!("norm", "fn", nx, sum_tol(n, eps, r.nx2, r.nx2) / (2.0 * nx).max(f64::MIN_POSITIVE) + 2.0 * E32 * nx, norm_l2::<T>(&x));
    one!("norm", "trait", ny, sum_tol(n, eps, r.ny2, r.ny2) / (2.0 * ny).max(f64::MIN_POSITIVE) + 2.0 * E32 * ny, T::norm_l2(&y));
    one!("cosine", "fn", cos_ref, cos_tol, cosine_distance::<T>(&x, &y));
    one!("cosine", "trait", cos_ref, cos_tol, T::cosine(&x, &y));
    one!("cosine", "DistanceType::func", cos_ref, cos_tol, (DistanceType::Cosine.func::<T>())(&x, &y));
    one!("cosine", "cosine_fast", cos_ref, cos_tol, T::cosine_fast(&x, nx as f32, &y));
    one!("cosine", "cosine_with_norms", cos_ref, cos_tol, T::cosine_with_norms(&x, nx as f32, ny as f32, &y));

    // ---- batch paths: batch = [y, x, y] (dimension 0 is outside the scope: chunks_exact(0)) -----
    if n > 0 {
        let mut batch: Vec<T> = Vec::with_capacity(3 * n);
        batch.extend_from_slice(&y);
        batch.extend_from_slice(&x);
        batch.extend_from_slice(&y);
        let self_ref = reference(&xf, &xf);
        let l2_rows = [(r.l2, l2_tol), (0.0, 0.0), (r.l2, l2_tol)];
        let dself_tol = sum_tol(n, eps, self_ref.dot_abs, self_ref.dot);
        let dot_rows = [
            (1.0 - r.dot, dot_tol + 2.0 * E32),
            (1.0 - self_ref.dot, dself_tol + 2.0 * E32),
            (1.0 - r.dot, dot_tol + 2.0 * E32),
        ];
        let cos_self = if nx == 0.0 { f64::NAN } else { 0.0 };
        let cos_rows = [(cos_ref, cos_tol), (cos_self, cos_tol), (cos_ref, cos_tol)];

        macro_rules! rows {
            ($metric:expr, $path:expr, $rows:expr, $e:expr) => {
                match vcore::catch(|| -> Vec<f32> { $e }) {
                    Ok(g) => {
                        if g.len() != 3 {
                            s.err($metric, $path, format!("{} results for 3 rows", g.len()));
                        } else {
                            for (i, (w, t)) in $rows.iter().enumerate() {
                                s.cmp($metric, $path, g[i], *w, *t);
                            }
                        }
                    }
                    Err(m) => s.panic($metric, $path, m),
                }
            };
        }
        rows!("l2", "batch", l2_rows, l2_distance_batch::<T>(&x, &batch, n).collect());
        rows!("l2", "trait_batch", l2_rows, T::l2_batch(&x, &batch, n).collect());
        rows!("dot", "batch", dot_rows, dot_distance_batch::<T>(&x, &batch, n).collect());
        rows!("cosine", "batch", cos_rows, cosine_distance_batch::<T>(&x, &batch, n).collect());
        rows!("cosine", "trait_batch", cos_rows, T::cosine_batch(&x, &batch, n).collect());

        // ---- Arrow helpers: rows [y, x(null), y], plain and sliced (from: offset 1, to: offset 1) ---
        if let (Some(from), Some(vals)) = (T::arr(&x), T::arr(&batch)) {
            let to = fsl_of(vals, n, Some(vec![true, false, true]));
            // sliced variants: prepend one junk element / one junk row and slice it away
            let mut xj = vec![T::from_f64(1.0)];
            xj.extend_from_slice(&x);
            let from_sl = T::arr(&xj).unwrap().slice(1, n);
            let mut bj: Vec<T> = make::<T>(1, n);
            bj.extend_from_slice(&batch);
            let to_sl = fsl_of(T::arr(&bj).unwrap(), n, Some(vec![true, true, false, true])).slice(1, 3);

            type F = fn(&dyn Array, &FixedSizeListArray) -> lance_linalg::Result<Arc<Float32Array>>;
            let mut arrow_path = |metric: &str, path: &str, f: F, rows: &[(f64, f64); 3], from: &dyn Array, to: &FixedSizeListArray| {
                match vcore::catch(|| f(from, to)) {
                    Ok(Ok(a)) => {
                        if a.len() != 3 || !a.is_null(1) || a.is_null(0) || a.is_null(2) {
                            s.err(metric, path, format!("len {} nulls {:?}: null buffer of `to` not propagated", a.len(), a.nulls()));
                        } else {
                            s.cmp(metric, path, a.value(0), rows[0].0, rows[0].1);
                            s.cmp(metric, path, a.value(2), rows[2].0, rows[2].1);
                        }
                    }
                    Ok(Err(e)) => s.err(metric, path, e.to_string()),
                    Err(m) => s.panic(metric, path, m),
                }
            };
            if !T::IS_INT {
                arrow_path("l2", "arrow_batch", l2_distance_arrow_batch, &l2_rows, from.as_ref(), &to);
                arrow_path("l2", "arrow_batch_sliced", l2_distance_arrow_batch, &l2_rows, from_sl.as_ref(), &to_sl);
                arrow_path("l2", "DistanceType::arrow_batch_func", DistanceType::L2.arrow_batch_func(), &l2_rows, from.as_ref(), &to);
                arrow_path("dot", "arrow_batch", dot_distance_arrow_batch, &dot_rows, from.as_ref(), &to);
                arrow_path("dot", "arrow_batch_sliced", dot_distance_arrow_batch, &dot_rows, from_sl.as_ref(), &to_sl);
                arrow_path("dot", "DistanceType::arrow_batch_func", DistanceType::Dot.arrow_batch_func(), &dot_rows, from.as_ref(), &to);
                arrow_path("cosine", "arrow_batch", cosine_distance_arrow_batch, &cos_rows, from.as_ref(), &to);
                arrow_path("cosine", "arrow_batch_sliced", cosine_distance_arrow_batch, &cos_rows, from_sl.as_ref(), &to_sl);
                arrow_path("cosine", "DistanceType::arrow_batch_func", DistanceType::Cosine.arrow_batch_func(), &cos_rows, from.as_ref(), &to);
                // norm_squared_fsl is NOT one of the distances the property names and is on no judged
                // distance path: observed and recorded (coverage.not_judged), never a violation.
                let want = [r.ny2, r.nx2, r.ny2];
                let obs = match vcore::catch(|| norm_squared_fsl(&to)) {
                    Ok(g) if g.len() == 3 => {
                        let mut worst = "within-bound";
                        for i in [0usize, 2] {
                            let t = sum_tol(n, eps, want[i], want[i]);
                            let d = (g[i] as f64 - want[i]).abs();
                            if g[i].is_infinite() || g[i].is_nan() {
                                worst = "non-finite";
                            } else if d > t && worst == "within-bound" {
                                worst = "outside-bound";
                            }
                        }
                        worst
                    }
                    Ok(_) => "wrong-row-count",
                    Err(_) => "panic",
                };
                s.cov.outcome(&format!("not-judged:norm_squared_fsl/{}/{obs}", T::NAME));
            }
        }
    }
}

/// u8-only paths (hamming, uint l2) and the Int8 Arrow helper path.
fn eval_int_case(cov: &mut Cov, viol: &mut Vec<Violation>, n: usize, px: usize, py: usize) {
    let x: Vec<u8> = make::<u8>(px, n);
    let y: Vec<u8> = make::<u8>(py, n);
    let ham: f64 = x.iter().zip(y.iter()).map(|(a, b)| (a ^ b).count_ones() as f64).sum();
    let l2r: f64 = x.iter().zip(y.iter()).map(|(a, b)| (*a as f64 - *b as f64).powi(2)).sum();
    if ham != 0.0 {
        cov.nontrivial.insert(vcore::hash64(format!("ham|{n}|{px}|{py}").as_bytes()));
    }
    let mut s = Sink {
        cov,
        viol,
        ty: "u8",
        n,
        px,
        py,
    };
    macro_rules! one {
        ($metric:expr, $path:expr, $want:expr, $tol:expr, $e:expr) => {
            match vcore::catch(|| $e) {
                Ok(g) => s.cmp($metric, $path, g, $want, $tol),
                Err(m) => s.panic($metric, $path, m),
            }
        };
    }
    let ht = 2.0 * E32 * ham;
    one!("hamming", "fn", ham, ht, hamming(&x, &y));
    one!("hamming", "scalar", ham, ht, hamming_scalar(&x, &y));
    one!("l2", "uint_scalar", l2r, 2.0 * E32 * l2r, l2_distance_uint_scalar(&x, &y));
    if n > 0 {
        let mut batch = y.clone();
        batch.extend_from_slice(&x);
        batch.extend_from_slice(&y);
        match vcore::catch(|| hamming_distance_batch(&x, &batch, n).collect::<Vec<f32>>()) {
            Ok(g) if g.len() == 3 => {
                s.cmp("hamming", "batch", g[0], ham, ht);
                s.cmp("hamming", "batch", g[1], 0.0, 0.0);
                s.cmp("hamming", "batch", g[2], ham, ht);
            }
            Ok(g) => s.err("hamming", "batch", format!("{} rows", g.len())),
            Err(m) => s.panic("hamming", "batch", m),
        }
        let from = u8::arr(&x).unwrap();
        let to = fsl_of(u8::arr(&batch).unwrap(), n, Some(vec![true, false, true]));
        for (path, f) in [
            ("arrow_batch", hamming_distance_arrow_batch as fn(&dyn Array, &FixedSizeListArray) -> lance_linalg::Result<Arc<Float32Array>>),
            ("DistanceType::arrow_batch_func", DistanceType::Hamming.arrow_batch_func()),
        ] {
            match vcore::catch(|| f(from.as_ref(), &to)) {
                Ok(Ok(a)) => {
                    if a.len() != 3 || !a.is_null(1) {
                        s.err("hamming", path, "null buffer not propagated".into());
                    } else {
                        s.cmp("hamming", path, a.value(0), ham, ht);
                        s.cmp("hamming", path, a.value(2), ham, ht);
                    }
                }
                Ok(Err(e)) => s.err("hamming", path, e.to_string()),
                Err(m) => s.panic("hamming", path, m),
            }
        }
        // Int8 Arrow path of l2/dot/cosine: values re-interpreted as i8
        let xi: Vec<i8> = x.iter().map(|v| *v as i8).collect();
        let bi: Vec<i8> = batch.iter().map(|v| *v as i8).collect();
        let xf: Vec<f64> = xi.iter().map(|v| *v as f64).collect();
        let yf: Vec<f64> = y.iter().map(|v| (*v as i8) as f64).collect();
        let r = reference(&xf, &yf);
        let from: ArrayRef = Arc::new(PrimitiveArray::<Int8Type>::from(xi));
        let to = fsl_of(Arc::new(PrimitiveArray::<Int8Type>::from(bi)), n, Some(vec![true, false, true]));
        s.ty = "i8";
        let cos_ref = if r.nx2 == 0.0 || r.ny2 == 0.0 {
            f64::NAN
        } else {
            1.0 - r.dot / (r.nx2.sqrt() * r.ny2.sqrt())
        };
        let cases: [(&str, fn(&dyn Array, &FixedSizeListArray) -> lance_linalg::Result<Arc<Float32Array>>, f64, f64); 3] = [
            ("l2", l2_distance_arrow_batch, r.l2, sum_tol(n, E32, r.l2_abs, r.l2)),
            ("dot", dot_distance_arrow_batch, 1.0 - r.dot, sum_tol(n, E32, r.dot_abs, r.dot) + 2.0 * E32),
            ("cosine", cosine_distance_arrow_batch, cos_ref, 4.0 * (n as f64 + 8.0) * E32 + 1e-6),
        ];
        for (metric, f, want, tol) in cases {
            match vcore::catch(|| f(from.as_ref(), &to)) {
                Ok(Ok(a)) => {
                    if a.len() != 3 || !a.is_null(1) {
                        s.err(metric, "arrow_batch", "null buffer not propagated".into());
                    } else {
                        s.cmp(metric, "arrow_batch", a.value(0), want, tol);
                        s.cmp(metric, "arrow_batch", a.value(2), want, tol);
                    }
                }
                Ok(Err(e)) => s.err(metric, "arrow_batch", e.to_string()),
                Err(m) => s.panic(metric, "arrow_batch", m),
            }
        }
    }
}

fn eval_type(ty: &str, cov: &mut Cov, viol: &mut Vec<Violation>, n: usize, px: usize, py: usize) {
    match ty {
        "f32" => eval_case::<f32>(cov, viol, n, px, py),
        "f64" => eval_case::<f64>(cov, viol, n, px, py),
        "f16" => eval_case::<f16>(cov, viol, n, px, py),
        "bf16" => eval_case::<bf16>(cov, viol, n, px, py),
        "u8" => {
            eval_case::<u8>(cov, viol, n, px, py);
            eval_int_case(cov, viol, n, px, py);
        }
        _ => {}
    }
}

// ------------------------------------------------------------------------------------------------
// Part 2: nearest centroid
// ------------------------------------------------------------------------------------------------

fn lattice(dim: usize) -> Vec<Vec<f64>> {
    let mut out = vec![];
    vcore::smallx::product(&vec![3; dim], |ix| {
        out.push(ix.iter().map(|i| *i as f64 - 1.0).collect());
        true
    });
    out
}

fn rd(metric: DistanceType, v: &[f64], c: &[f64]) -> f64 {
    match metric {
        DistanceType::L2 => v.iter().zip(c).map(|(a, b)| (a - b) * (a - b)).sum(),
        DistanceType::Dot => 1.0 - v.iter().zip(c).map(|(a, b)| a * b).sum::<f64>(),
        DistanceType::Hamming => v
            .iter()
            .zip(c)
            .map(|(a, b)| ((*a as u8) ^ (*b as u8)).count_ones() as f64)
            .sum(),
        _ => unreachable!(),
    }
}

struct CSink<'a> {
    cov: &'a mut Cov,
    viol: &'a mut Vec<Violation>,
}

impl CSink<'_> {
    #[allow(clippy::too_many_arguments)]
    fn judge(&mut self, api: &str, ty: &str, metric: DistanceType, cents: &[Vec<f64>], v: &[f64], got: Option<u32>, got_dist: Option<f32>) {
        self.cov.evaluations += 1;
        let dists: Vec<f64> = cents.iter().map(|c| rd(metric, v, c)).collect();
        let min = dists.iter().cloned().fold(f64::INFINITY, f64::min);
        let case = json!({"part": "centroid", "api": api, "type": ty, "metric": format!("{metric}"), "centroids": cents, "vector": v});
        match got {
            None => self.viol.push(Violation::new(
                "nearest-centroid",
                &format!("centroid/{api}/{ty}/{metric}/none"),
                format!("{api} returned no centroid for finite vector {v:?} with centroids {cents:?}"),
                case,
            )),
            Some(c) => {
                let c = c as usize;
                if c >= cents.len() || (dists[c] - min).abs() > 1e-6 {
                    self.viol.push(Violation::new(
                        "nearest-centroid",
                        &format!("centroid/{api}/{ty}/{metric}/not-minimal"),
                        format!("{api} chose centroid {c} (distance {:?}) for {v:?}; minimal distance is {min} in {dists:?}", dists.get(c)),
                        case,
                    ));
                } else if let Some(d) = got_dist {
                    if (d as f64 - min).abs() > 1e-6 {
                        self.viol.push(Violation::new(
                            "nearest-centroid",
                            &format!("centroid/{api}/{ty}/{metric}/wrong-distance"),
                            format!("{api} reported distance {d} for {v:?}; reference {min}"),
                            case,
                        ));
                    }
                }
            }
        }
    }
}

fn flat<T: Elem>(vs: &[Vec<f64>]) -> Vec<T> {
    vs.iter().flatten().map(|v| T::from_f64(*v)).collect()
}

macro_rules! centroid_float_impl {
    ($name:ident, $T:ty, $A:ty) => {
fn $name(s: &mut CSink, cents: &[Vec<f64>], vecs: &[Vec<f64>], dim: usize) {
    type T = $T;
    type A = $A;
    let c: Vec<T> = flat::<T>(cents);
    let d: Vec<T> = flat::<T>(vecs);
    let k = cents.len();
    for metric in [DistanceType::L2, DistanceType::Dot] {
        // compute_partition (single vector)
        for v in vecs {
            let vv: Vec<T> = v.iter().map(|x| T::from_f64(*x)).collect();
            match vcore::catch(|| <T as num_float::FloatLike>::compute_partition(&c, &vv, metric)) {
                Ok(g) => s.judge("compute_partition", T::NAME, metric, cents, v, g, None),
                Err(m) => s.viol.push(Violation::new("no-panic", &format!("centroid/compute_partition/{}/panic", T::NAME), m, json!({"centroids": cents, "vector": v}))),
            }
            // kmeans_find_partitions for every nprobes
            for nprobes in 1..=k {
                match vcore::catch(|| <T as num_float::FloatLike>::find_partitions(&c, &vv, nprobes, metric)) {
                    Ok(Ok((ids, dists))) => {
                        s.cov.evaluations += 1;
                        let mut want: Vec<f64> = cents.iter().map(|cc| rd(metric, v, cc)).collect();
                        want.sort_by(|a, b| a.partial_cmp(b).unwrap());
                        let mut seen = std::collections::BTreeSet::new();
                        let ok = ids.len() == nprobes
                            && dists.len() == nprobes
                            && (0..nprobes).all(|i| {
                                let id = ids.value(i) as usize;
                                id < k
                                    && seen.insert(id)
                                    && (rd(metric, v, &cents[id]) - want[i]).abs() <= 1e-6
                                    && (dists.value(i) as f64 - want[i]).abs() <= 1e-6
                            });
                        if !ok {
                            s.viol.push(Violation::new(
                                "nearest-centroid",
                                &format!("centroid/kmeans_find_partitions/{}/{metric}/not-nearest-prefix", T::NAME),
                                format!("kmeans_find_partitions(nprobes={nprobes}) returned ids {:?} dists {:?}; sorted reference distances {want:?}", ids.values(), dists.values()),
                                json!({"part": "centroid", "api": "kmeans_find_partitions", "type": T::NAME, "metric": format!("{metric}"), "centroids": cents, "vector": v, "nprobes": nprobes}),
                            ));
                        }
                    }
                    Ok(Err(e)) => s.viol.push(Violation::new("no-error", &format!("centroid/kmeans_find_partitions/{}/error", T::NAME), e.to_string(), json!({"centroids": cents, "vector": v}))),
                    Err(m) => s.viol.push(Violation::new("no-panic", &format!("centroid/kmeans_find_partitions/{}/panic", T::NAME), m, json!({"centroids": cents, "vector": v}))),
                }
            }
        }
        // compute_partitions (all vectors at once)
        let ca = PrimitiveArray::<A>::from(c.clone());
        let da = PrimitiveArray::<A>::from(d.clone());
        match vcore::catch(|| compute_partitions::<A, KMeansAlgoFloat<A>>(&ca, &da, dim, metric)) {
            Ok((ids, loss)) => {
                let mut want_loss = 0.0;
                for (v, g) in vecs.iter().zip(ids.iter()) {
                    s.judge("compute_partitions", T::NAME, metric, cents, v, *g, None);
                    want_loss += cents.iter().map(|cc| rd(metric, v, cc)).fold(f64::INFINITY, f64::min);
                }
                s.cov.evaluations += 1;
                if ids.len() != vecs.len() || (loss - want_loss).abs() > 1e-4 {
                    s.viol.push(Violation::new(
                        "nearest-centroid",
                        &format!("centroid/compute_partitions/{}/{metric}/loss", T::NAME),
                        format!("compute_partitions loss {loss} for {} vectors; reference Σ min distance {want_loss}", ids.len()),
                        json!({"part": "centroid", "api": "compute_partitions", "type": T::NAME, "metric": format!("{metric}"), "centroids": cents}),
                    ));
                }
            }
            Err(m) => s.viol.push(Violation::new("no-panic", &format!("centroid/compute_partitions/{}/panic", T::NAME), m, json!({"centroids": cents}))),
        }
        // Arrow entry points
        let cf = fsl_of(Arc::new(ca.clone()), dim, None);
        let df = fsl_of(Arc::new(da.clone()), dim, None);
        match vcore::catch(|| compute_partitions_arrow_array(&cf, &df, metric)) {
            Ok(Ok((ids, dists))) => {
                for ((v, g), dd) in vecs.iter().zip(ids.iter()).zip(dists.iter()) {
                    s.judge("compute_partitions_arrow_array", T::NAME, metric, cents, v, *g, *dd);
                }
            }
            Ok(Err(e)) => s.viol.push(Violation::new("no-error", &format!("centroid/compute_partitions_arrow_array/{}/error", T::NAME), e.to_string(), json!({"centroids": cents}))),
            Err(m) => s.viol.push(Violation::new("no-panic", &format!("centroid/compute_partitions_arrow_array/{}/panic", T::NAME), m, json!({"centroids": cents}))),
        }
        for v in vecs.iter().take(3) {
            let q = T::arr(&v.iter().map(|x| T::from_f64(*x)).collect::<Vec<T>>()).unwrap();
            match vcore::catch(|| kmeans_find_partitions_arrow_array(&cf, q.as_ref(), 1, metric)) {
                Ok(Ok((ids, dists))) => s.judge("kmeans_find_partitions_arrow_array", T::NAME, metric, cents, v, ids.iter().next().flatten(), dists.iter().next().flatten()),
                Ok(Err(e)) => s.viol.push(Violation::new("no-error", &format!("centroid/kmeans_find_partitions_arrow_array/{}/error", T::NAME), e.to_string(), json!({"centroids": cents}))),
                Err(m) => s.viol.push(Violation::new("no-panic", &format!("centroid/kmeans_find_partitions_arrow_array/{}/panic", T::NAME), m, json!({"centroids": cents}))),
            }
        }
    }
}
    };
}
centroid_float_impl!(centroid_f32, f32, Float32Type);
centroid_float_impl!(centroid_f64, f64, Float64Type);
centroid_float_impl!(centroid_f16, f16, Float16Type);

/// small indirection: `compute_partition` / `kmeans_find_partitions` need `num_traits::Float`
mod num_float {
    use super::*;
    pub trait FloatLike: Sized {
        fn compute_partition(c: &[Self], v: &[Self], m: DistanceType) -> Option<u32>;
        fn find_partitions(c: &[Self], v: &[Self], n: usize, m: DistanceType) -> arrow::error::Result<(arrow_array::UInt32Array, Float32Array)>;
    }
    macro_rules! imp {
        ($t:ty) => {
            impl FloatLike for $t {
                fn compute_partition(c: &[Self], v: &[Self], m: DistanceType) -> Option<u32> {
                    compute_partition::<$t>(c, v, m)
                }
                fn find_partitions(c: &[Self], v: &[Self], n: usize, m: DistanceType) -> arrow::error::Result<(arrow_array::UInt32Array, Float32Array)> {
                    kmeans_find_partitions::<$t>(c, v, n, m)
                }
            }
        };
    }
    imp!(f32);
    imp!(f64);
    imp!(f16);
}

/// argmin family on the reference distance lists themselves + u8/hamming partitions
fn centroid_misc(s: &mut CSink, cents: &[Vec<f64>], vecs: &[Vec<f64>], dim: usize) {
    for v in vecs {
        let d: Vec<f32> = cents.iter().map(|c| rd(DistanceType::L2, v, c) as f32).collect();
        let min = d.iter().cloned().fold(f32::INFINITY, f32::min);
        let max = d.iter().cloned().fold(f32::NEG_INFINITY, f32::max);
        let checks: Vec<(&str, Option<u32>, f32)> = vec![
            ("argmin", argmin(d.iter().copied()), min),
            ("argmin_value", argmin_value(d.iter().copied()).map(|x| x.0), min),
            ("argmin_value_float", argmin_value_float(d.iter().copied()).map(|x| x.0), min),
            ("argmin_value_float_with_bias/none", argmin_value_float_with_bias(d.iter().copied(), None::<std::iter::Empty<f32>>).map(|x| x.0), min),
            ("argmin_opt", argmin_opt(d.iter().map(|x| Some(*x))), min),
            ("argmax", argmax(d.iter().copied()), max),
        ];
        for (api, got, want) in checks {
            s.cov.evaluations += 1;
            let ok = matches!(got, Some(i) if (i as usize) < d.len() && d[i as usize] == want);
            if !ok {
                s.viol.push(Violation::new(
                    "nearest-centroid",
                    &format!("centroid/{api}/f32/not-extremal"),
                    format!("{api} over {d:?} returned {got:?}; extremal value {want}"),
                    json!({"part": "centroid", "api": api, "centroids": cents, "vector": v}),
                ));
            }
        }
    }
    // u8 / hamming through the Arrow entry point (KModeAlgo is private): lattice -1,0,1 -> bytes 0x00,0x0f,0xff
    let byte = |x: f64| -> f64 {
        if x < 0.0 {
            0.0
        } else if x == 0.0 {
            15.0
        } else {
            255.0
        }
    };
    let cb: Vec<Vec<f64>> = cents.iter().map(|c| c.iter().map(|x| byte(*x)).collect()).collect();
    let vb: Vec<Vec<f64>> = vecs.iter().map(|c| c.iter().map(|x| byte(*x)).collect()).collect();
    let cf = fsl_of(u8::arr(&flat::<u8>(&cb)).unwrap(), dim, None);
    let df = fsl_of(u8::arr(&flat::<u8>(&vb)).unwrap(), dim, None);
    match vcore::catch(|| compute_partitions_arrow_array(&cf, &df, DistanceType::Hamming)) {
        Ok(Ok((ids, dists))) => {
            for ((v, g), dd) in vb.iter().zip(ids.iter()).zip(dists.iter()) {
                s.judge("compute_partitions_arrow_array", "u8", DistanceType::Hamming, &cb, v, *g, *dd);
            }
        }
        Ok(Err(e)) => s.viol.push(Violation::new("no-error", "centroid/compute_partitions_arrow_array/u8/error", e.to_string(), json!({"centroids": cb}))),
        Err(m) => s.viol.push(Violation::new("no-panic", "centroid/compute_partitions_arrow_array/u8/panic", m, json!({"centroids": cb}))),
    }
}

fn centroid_item(cov: &mut Cov, viol: &mut Vec<Violation>, dim: usize, cidx: &[usize], types: &[&str]) {
    let lat = lattice(dim);
    let cents: Vec<Vec<f64>> = cidx.iter().map(|i| lat[*i].clone()).collect();
    let distinct: std::collections::BTreeSet<&usize> = cidx.iter().collect();
    if distinct.len() >= 2 {
        cov.nontrivial.insert(vcore::hash64(format!("cent|{dim}|{cidx:?}").as_bytes()));
    }
    let mut s = CSink { cov, viol };
    for ty in types {
        match *ty {
            "f32" => centroid_f32(&mut s, &cents, &lat, dim),
            "f64" => centroid_f64(&mut s, &cents, &lat, dim),
            "f16" => centroid_f16(&mut s, &cents, &lat, dim),
            _ => {}
        }
    }
    centroid_misc(&mut s, &cents, &lat, dim);
}

// ------------------------------------------------------------------------------------------------

const TYPES: [&str; 5] = ["f32", "f64", "f16", "bf16", "u8"];

pub fn run(ctx: &Ctx) -> Outcome {
    let mut out = Outcome::new("exploration");
    if let Some(art) = ctx.replay_case() {
        let c = &art["case"];
        let mut cov = Cov::new();
        let mut viol = vec![];
        if c["part"] == "kernel" {
            let ty = c["type"].as_str().unwrap_or("f32");
            let ty = if ty == "i8" { "u8" } else { ty };
            let n = c["len"].as_u64().unwrap_or(0) as usize;
            let px = PATTERNS.iter().position(|p| Some(*p) == c["px"].as_str()).unwrap_or(0);
            let py = PATTERNS.iter().position(|p| Some(*p) == c["py"].as_str()).unwrap_or(0);
            eval_type(ty, &mut cov, &mut viol, n, px, py);
        } else {
            let cents: Vec<Vec<f64>> = serde_json::from_value(c["centroids"].clone()).unwrap_or_default();
            let dim = cents.first().map(|c| c.len()).unwrap_or(1);
            let lat = lattice(dim);
            let cidx: Vec<usize> = cents.iter().filter_map(|c| lat.iter().position(|l| l == c)).collect();
            centroid_item(&mut cov, &mut viol, dim, &cidx, &["f32", "f64", "f16"]);
        }
        let key = art["key"].as_str().unwrap_or("").to_string();
        viol.retain(|v| v.key == key);
        cov.sample(c.clone());
        cov.nontrivial.insert(1);
        cov.nontrivial.insert(2);
        cov.fill(&mut out, "replay of one recorded case", false);
        out.violations = viol;
        return out;
    }

    // ---- part 1 ----
    // quick: every length 0..=1100 for every type, pattern pairs restricted to a covering subset
    // (every pattern appears as x and as y, the diagonal, and all pairs among the 5 non-degenerate ones);
    // thorough: all 81 ordered pairs.
    let np = PATTERNS.len();
    let mut pairs: Vec<(usize, usize)> = vec![];
    for a in 0..np {
        for b in 0..np {
            let keep = ctx.tier.pick(
                a == b || (a >= 1 && a <= 4 && b >= 1 && b <= 4) || a == 2 || b == 3,
                true,
            );
            if keep {
                pairs.push((a, b));
            }
        }
    }
    let lens: Vec<usize> = (0..=1100).collect();
    // work items: (type, chunk of lengths)
    let mut items: Vec<(&str, Vec<usize>)> = vec![];
    for ty in TYPES {
        for ch in lens.chunks(25) {
            items.push((ty, ch.to_vec()));
        }
    }
    let wall_cap = ctx.tier.pick(40.0, 800.0);
    let start = std::time::Instant::now();
    let capped = std::sync::atomic::AtomicBool::new(false);
    let results = vcore::par_map(items, ctx.workers, |_, (ty, ls)| {
        let mut cov = Cov::new();
        let mut viol = vec![];
        let mut done = 0usize;
        for n in ls {
            if start.elapsed().as_secs_f64() > wall_cap {
                capped.store(true, std::sync::atomic::Ordering::SeqCst);
                break;
            }
            for (px, py) in &pairs {
                eval_type(ty, &mut cov, &mut viol, n, *px, *py);
                done += 1;
            }
            if n % 275 == 17 {
                cov.sample(json!({"type": ty, "len": n, "px": PATTERNS[pairs[n % pairs.len()].0], "py": PATTERNS[pairs[n % pairs.len()].1]}));
            }
        }
        cov.outcomes.insert(format!("kernel-cases/{ty}"), done as u64);
        (cov, viol)
    });
    let mut cov = Cov::new();
    let mut viol: Vec<Violation> = vec![];
    for (c, v) in results {
        cov.merge(c);
        viol.extend(v);
    }
    let kernel_evals = cov.evaluations;

    // ---- part 2 ----
    let mut citems: Vec<(usize, Vec<usize>)> = vec![];
    for dim in 1..=3usize {
        let l = 3usize.pow(dim as u32);
        let kmax = if dim == 3 { ctx.tier.pick(2, 3) } else { ctx.tier.pick(3, 4) };
        for k in 1..=kmax {
            vcore::smallx::product(&vec![l; k], |ix| {
                citems.push((dim, ix.to_vec()));
                true
            });
        }
    }
    let n_citems = citems.len();
    let types: Vec<&str> = vec!["f32", "f64", "f16"];
    let chunks = vcore::smallx::chunks(&citems, ctx.workers * 8);
    let wall_cap2 = ctx.tier.pick(52.0, 880.0);
    let results = vcore::par_map(chunks, ctx.workers, |_, ch| {
        let mut cov = Cov::new();
        let mut viol = vec![];
        let mut done = 0u64;
        for (dim, cidx) in ch {
            if start.elapsed().as_secs_f64() > wall_cap2 {
                capped.store(true, std::sync::atomic::Ordering::SeqCst);
                break;
            }
            centroid_item(&mut cov, &mut viol, dim, &cidx, &types);
            done += 1;
            if done == 5 {
                cov.sample(json!({"part": "centroid", "dim": dim, "centroid_lattice_indices": cidx}));
            }
        }
        cov.outcomes.insert("centroid-sets".into(), done);
        (cov, viol)
    });
    for (c, v) in results {
        cov.merge(c);
        viol.extend(v);
    }
    // minimal-first per key: shortest length / fewest centroids first
    viol.sort_by_key(|v| {
        (
            v.key.clone(),
            v.case["len"].as_u64().unwrap_or(0),
            v.case["centroids"].as_array().map(|a| a.len()).unwrap_or(0),
        )
    });
    let capped = capped.load(std::sync::atomic::Ordering::SeqCst);
    cov.fill(
        &mut out,
        "kernel part: one case = (element type, length 0..=1100, x pattern, y pattern); every public path is evaluated on it; non-trivial = reference l2 != 0 and reference dot != 0 (both vectors non-zero and different); hamming: reference distance != 0. centroid part: one case = (dim, ordered centroid list over {-1,0,1}^dim) evaluated against all 3^dim vectors; non-trivial = at least 2 distinct centroids",
        !capped,
    );
    let nj: serde_json::Map<String, Value> = cov
        .outcomes
        .iter()
        .filter(|(k, _)| k.starts_with("not-judged:"))
        .map(|(k, v)| (k.trim_start_matches("not-judged:").to_string(), json!(v)))
        .collect();
    out.set(
        "not_judged",
        json!({"what": "norm_squared_fsl (a norm helper, not a distance named by the property and not on a judged distance path) compared with the f64 sum of squares under the same rounding bound; informational only", "observations": nj}),
    );
    out.set("kernel_comparisons", kernel_evals);
    out.set("pattern_pairs", pairs.len() as u64);
    out.set("lengths", "0..=1100");
    out.set("centroid_sets", n_citems as u64);
    out.set("simd_support", format!("{:?}", *lance_core::utils::cpu::SIMD_SUPPORT));
    if capped {
        out.set("cap_hit", "wall cap reached; remaining cases not evaluated");
    }
    out.assume("value space is a pattern alphabet {zeros, ones, two ramps, +-1 alternating, one-hot first/last, huge, tiny}, not all floats; huge/tiny are chosen so that sums of squares stay inside the f32 accumulator range (2^±50, f16: 2^15 / 2^-12)");
    out.assume("tolerance = first-order worst-case rounding bound of an n-term sum in the kernel's accumulator type: 2(n+8)·eps·Σ|terms| + 2·2^-24·|ref| (cosine: 4(n+8)·2^-24 + 1e-6 absolute); cosine with a zero vector is undefined in the scalar definition and is not judged");
    out.assume("dimension-0 FixedSizeList / batch calls are outside the scope (chunks_exact(0)); bf16 has no Arrow helper path; C fp16 kernels are only exercised when the fp16kernels feature is compiled in (it is not in this harness build) – the Rust fallback is what is checked");
    out.assume("nearest-centroid inputs are small-integer lattice points, so all distances are exact in every element type and ties are accepted");
    out.violations = viol;
    out
}
