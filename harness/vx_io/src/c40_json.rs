//! C40 (JSON part): JSON <-> JSONB conversion and path extraction against `serde_json::Value`.
//!
//! Documents: every document of a depth-<=2 grammar (scalars incl. i64/u64 extremes, a fraction,
//! strings with quotes / non-ASCII / control characters; arrays and objects of <=2 members over a
//! reduced scalar set; containers nested once). Helpers: `encode_json`/`decode_json`,
//! `JsonArray::{try_from_iter, value, to_arrow_json, json_path, TryFrom<StringArray|LargeStringArray>}`
//! (with null entries and slices), `convert_json_columns` / `convert_lance_json_to_arrow` batch
//! conversions, and the DataFusion UDFs `json_extract`, `json_exists`, `json_get`,
//! `json_get_{string,int,float,bool}` invoked through `ScalarUDF::invoke_with_args`.
//! Path semantics are judged only where every step addresses a container of the matching kind
//! (`.k` on an object, `[i]` on an array); lax/strict differences elsewhere are recorded, not judged.
//! Typed getters are judged only where the JSON type matches exactly (or the value is missing / null).

use arrow_array::{Array, ArrayRef, LargeBinaryArray, LargeStringArray, RecordBatch, StringArray};
use arrow_schema::{DataType, Field, Schema};
use datafusion::logical_expr::{ColumnarValue, ScalarFunctionArgs, ScalarUDF};
use lance_arrow::json::{convert_json_columns, convert_lance_json_to_arrow, decode_json, encode_json, JsonArray, ARROW_JSON_EXT_NAME};
use lance_datafusion::udf::json as udf;
use serde_json::{json, Value};
use std::sync::Arc;
use vcore::{Cov, Violation};

fn scalars() -> Vec<Value> {
    vec![
        Value::Null,
        json!(true),
        json!(false),
        json!(0),
        json!(1),
        json!(-7),
        json!(2.5),
        json!(i64::MAX),
        json!(i64::MIN),
        json!(u64::MAX),
        json!(9007199254740993u64),
        json!("a"),
        json!(""),
        json!("q\"uote\\"),
        json!("uni-\u{e9}\u{4e2d}"),
        json!("line\nbreak\ttab"),
    ]
}

fn containers1() -> Vec<Value> {
    let r = [Value::Null, json!(1), json!("a"), json!(true)];
    let mut v = vec![json!([]), json!({})];
    for a in &r {
        v.push(json!([a]));
        v.push(json!({"k": a}));
        for b in &r {
            v.push(json!([a, b]));
            v.push(json!({"k": a, "m": b}));
        }
    }
    v
}

pub fn documents() -> Vec<Value> {
    let mut d = scalars();
    let c1 = containers1();
    d.extend(c1.clone());
    for c in &c1 {
        d.push(json!([c]));
        d.push(json!({"k": c}));
    }
    d.push(json!([{"k": 1}, {"k": "a"}]));
    d.push(json!({"k": [1, 2], "m": {"k": [true]}}));
    d
}

#[derive(Clone, Debug)]
enum PStep {
    Key(&'static str),
    Idx(usize),
}

fn paths() -> Vec<(&'static str, Vec<PStep>)> {
    use PStep::*;
    vec![
        ("$", vec![]),
        ("$.k", vec![Key("k")]),
        ("$.m", vec![Key("m")]),
        ("$.z", vec![Key("z")]),
        ("$[0]", vec![Idx(0)]),
        ("$[1]", vec![Idx(1)]),
        ("$[5]", vec![Idx(5)]),
        ("$.k.k", vec![Key("k"), Key("k")]),
        ("$.k.m", vec![Key("k"), Key("m")]),
        ("$.k[0]", vec![Key("k"), Idx(0)]),
        ("$.k[1]", vec![Key("k"), Idx(1)]),
        ("$[0].k", vec![Idx(0), Key("k")]),
        ("$[0][0]", vec![Idx(0), Idx(0)]),
        ("$[0][1]", vec![Idx(0), Idx(1)]),
    ]
}

/// Some(result) when the path is judged on this document (every step meets a container of its kind)
fn eval_path(doc: &Value, steps: &[PStep]) -> Option<Option<Value>> {
    let mut cur = doc;
    for s in steps {
        match (s, cur) {
            (PStep::Key(k), Value::Object(m)) => match m.get(*k) {
                Some(v) => cur = v,
                None => return Some(None),
            },
            (PStep::Idx(i), Value::Array(a)) => match a.get(*i) {
                Some(v) => cur = v,
                None => return Some(None),
            },
            _ => return None,
        }
    }
    Some(Some(cur.clone()))
}

fn num_eq(a: &Value, b: &Value) -> bool {
    match (a, b) {
        (Value::Number(x), Value::Number(y)) => {
            if let (Some(i), Some(j)) = (x.as_i64(), y.as_i64()) {
                i == j
            } else if let (Some(i), Some(j)) = (x.as_u64(), y.as_u64()) {
                i == j
            } else if x.is_f64() && y.is_f64() {
                x.as_f64() == y.as_f64()
            } else {
                false
            }
        }
        (Value::Array(x), Value::Array(y)) => x.len() == y.len() && x.iter().zip(y).all(|(p, q)| num_eq(p, q)),
        (Value::Object(x), Value::Object(y)) => x.len() == y.len() && x.iter().all(|(k, v)| y.get(k).map(|w| num_eq(v, w)).unwrap_or(false)),
        _ => a == b,
    }
}

fn kind(v: &Value) -> &'static str {
    match v {
        Value::Null => "null",
        Value::Bool(_) => "bool",
        Value::Number(n) => {
            if n.is_f64() {
                "float"
            } else if n.as_i64().is_some() {
                "int"
            } else {
                "uint-above-i64"
            }
        }
        Value::String(_) => "string",
        Value::Array(_) => "array",
        Value::Object(_) => "object",
    }
}

fn invoke(udf: &ScalarUDF, args: Vec<ArrayRef>, ret: DataType) -> Result<ArrayRef, String> {
    let n = args[0].len();
    let arg_fields = args.iter().enumerate().map(|(i, a)| Arc::new(Field::new(format!("a{i}"), a.data_type().clone(), true))).collect();
    let a = ScalarFunctionArgs {
        args: args.into_iter().map(ColumnarValue::Array).collect(),
        arg_fields,
        number_rows: n,
        return_field: Arc::new(Field::new("r", ret, true)),
        config_options: Arc::new(datafusion_common::config::ConfigOptions::default()),
    };
    match vcore::catch(|| udf.invoke_with_args(a)) {
        Ok(Ok(ColumnarValue::Array(a))) => Ok(a),
        Ok(Ok(ColumnarValue::Scalar(s))) => s.to_array_of_size(n).map_err(|e| e.to_string()),
        Ok(Err(e)) => Err(format!("error: {e}")),
        Err(p) => Err(format!("panic: {p}")),
    }
}

pub fn run(cov: &mut Cov, viol: &mut Vec<Violation>) {
    let docs = documents();
    let mut bad = |api: &str, shape: &str, what: String, case: Value| {
        viol.push(Violation::new("json", &format!("json/{api}/{shape}"), what, case));
    };

    // ---- round trip, per document ----
    let texts: Vec<String> = docs.iter().map(|d| d.to_string()).collect();
    for (d, t) in docs.iter().zip(&texts) {
        cov.evaluations += 1;
        if !matches!(d, Value::Null | Value::Bool(_)) {
            cov.nontrivial.insert(vcore::hash64(format!("json|{t}").as_bytes()));
        }
        let case = json!({"part": "json", "doc": t});
        match vcore::catch(|| encode_json(t).map_err(|e| e.to_string()).and_then(|b| decode_json(&b).map_err(|e| e.to_string()))) {
            Ok(Ok(back)) => match serde_json::from_str::<Value>(&back) {
                Ok(v) if num_eq(&v, d) => {}
                Ok(v) => bad("roundtrip", &format!("{}-changed", kind(d)), format!("JSON -> JSONB -> JSON changed {t} into {v}"), case),
                Err(e) => bad("roundtrip", &format!("{}-unparseable", kind(d)), format!("decode_json(encode_json({t})) = {back:?} is not JSON: {e}"), case),
            },
            Ok(Err(e)) => bad("roundtrip", &format!("{}-error", kind(d)), format!("encode/decode of {t} failed: {e}"), case),
            Err(p) => bad("roundtrip", &format!("{}-panic", kind(d)), format!("encode/decode of {t} panicked: {p}"), case),
        }
    }

    // ---- JsonArray over windows of 3 documents with every validity pattern, sliced too ----
    for w in 0..docs.len().saturating_sub(2) {
        for pat in vcore::smallx::validity_patterns(3) {
            cov.evaluations += 1;
            let items: Vec<Option<&str>> = (0..3).map(|i| if pat[i] { Some(texts[w + i].as_str()) } else { None }).collect();
            let case = json!({"part": "json", "docs": items});
            let ja = match vcore::catch(|| JsonArray::try_from_iter(items.clone())) {
                Ok(Ok(a)) => a,
                Ok(Err(e)) => {
                    bad("JsonArray", "try_from_iter-error", format!("{e}"), case);
                    continue;
                }
                Err(p) => {
                    bad("JsonArray", "try_from_iter-panic", p, case);
                    continue;
                }
            };
            let from_str = JsonArray::try_from(StringArray::from(items.clone()));
            let from_large = JsonArray::try_from(LargeStringArray::from(items.clone()));
            let arrow = ja.to_arrow_json();
            for i in 0..3 {
                let want = items[i].map(|_| &docs[w + i]);
                let views: Vec<(&str, Option<Result<String, String>>)> = vec![
                    ("value", if ja.is_null(i) { None } else { Some(ja.value(i).map_err(|e| e.to_string())) }),
                    ("TryFrom<StringArray>", from_str.as_ref().ok().and_then(|a| if a.is_null(i) { None } else { Some(a.value(i).map_err(|e| e.to_string())) })),
                    ("TryFrom<LargeStringArray>", from_large.as_ref().ok().and_then(|a| if a.is_null(i) { None } else { Some(a.value(i).map_err(|e| e.to_string())) })),
                    (
                        "to_arrow_json",
                        arrow.as_ref().ok().and_then(|a| {
                            let s = a.as_any().downcast_ref::<StringArray>().unwrap();
                            if s.is_null(i) {
                                None
                            } else {
                                Some(Ok(s.value(i).to_string()))
                            }
                        }),
                    ),
                ];
                for (api, got) in views {
                    let ok = match (&got, want) {
                        (None, None) => true,
                        (Some(Ok(s)), Some(d)) => serde_json::from_str::<Value>(s).map(|v| num_eq(&v, d)).unwrap_or(false),
                        _ => false,
                    };
                    if !ok {
                        bad("JsonArray", &format!("{api}-mismatch"), format!("{api} at {i} of {items:?} gave {got:?}, expected {want:?}"), case.clone());
                    }
                }
            }
            // sliced array keeps values / nulls
            let sl = ja.inner().slice(1, 2);
            let sl = sl.as_any().downcast_ref::<LargeBinaryArray>().unwrap();
            for i in 0..2 {
                let ok = match (sl.is_null(i), items[i + 1]) {
                    (true, None) => true,
                    (false, Some(_)) => decode_json(sl.value(i)).ok().and_then(|s| serde_json::from_str::<Value>(&s).ok()).map(|v| num_eq(&v, &docs[w + i + 1])).unwrap_or(false),
                    _ => false,
                };
                if !ok {
                    bad("JsonArray", "slice-mismatch", format!("slice(1,2) of {items:?} differs at {i}"), case.clone());
                }
            }
        }
    }

    // ---- batch level conversion arrow.json (Utf8) <-> lance.json (JSONB) ----
    {
        cov.evaluations += 1;
        let mut md = std::collections::HashMap::new();
        md.insert("ARROW:extension:name".to_string(), ARROW_JSON_EXT_NAME.to_string());
        let f = Field::new("j", DataType::Utf8, true).with_metadata(md);
        let items: Vec<Option<&str>> = texts.iter().enumerate().map(|(i, t)| if i % 5 == 4 { None } else { Some(t.as_str()) }).collect();
        let batch = RecordBatch::try_new(Arc::new(Schema::new(vec![f])), vec![Arc::new(StringArray::from(items.clone()))]).unwrap();
        let case = json!({"part": "json", "api": "convert_json_columns"});
        match vcore::catch(|| convert_json_columns(&batch).and_then(|b| convert_lance_json_to_arrow(&b))) {
            Ok(Ok(back)) => {
                let ok = back.num_rows() == items.len()
                    && back.column(0).as_any().downcast_ref::<StringArray>().map(|s| {
                        (0..items.len()).all(|i| match items[i] {
                            None => s.is_null(i),
                            Some(_) => !s.is_null(i) && serde_json::from_str::<Value>(s.value(i)).map(|v| num_eq(&v, &docs[i])).unwrap_or(false),
                        })
                    }) == Some(true);
                if !ok {
                    bad("convert_json_columns", "roundtrip-mismatch", "arrow.json -> lance.json -> arrow.json changed values or nulls".into(), case);
                }
            }
            Ok(Err(e)) => bad("convert_json_columns", "error", e.to_string(), case),
            Err(p) => bad("convert_json_columns", "panic", p, case),
        }
    }

    // ---- path extraction: JsonArray::json_path, json_extract, json_exists ----
    let ja = JsonArray::try_from_iter(texts.iter().map(|t| Some(t.as_str()))).expect("JsonArray of all docs");
    let jsonb: ArrayRef = Arc::new(ja.inner().clone());
    let n = docs.len();
    for (ptxt, steps) in paths() {
        let parr: ArrayRef = Arc::new(StringArray::from(vec![ptxt; n]));
        let ext = invoke(&udf::json_extract_udf(), vec![jsonb.clone(), parr.clone()], DataType::Utf8);
        let exi = invoke(&udf::json_exists_udf(), vec![jsonb.clone(), parr.clone()], DataType::Boolean);
        for (i, d) in docs.iter().enumerate() {
            let case = json!({"part": "json", "doc": texts[i], "path": ptxt});
            let Some(want) = eval_path(d, &steps) else {
                cov.outcome("json-path:not-judged(step on wrong container kind)");
                continue;
            };
            cov.evaluations += 1;
            cov.outcome(if want.is_some() { "json-path:present" } else { "json-path:absent" });
            let cmp = |got: &Option<String>| -> bool {
                match (got, &want) {
                    (None, None) => true,
                    (Some(s), Some(w)) => serde_json::from_str::<Value>(s).map(|v| num_eq(&v, w)).unwrap_or(false),
                    _ => false,
                }
            };
            match vcore::catch(|| ja.json_path(i, ptxt)) {
                Ok(Ok(got)) => {
                    if !cmp(&got) {
                        bad("json_path", if want.is_some() { "wrong-or-missing-value" } else { "value-for-absent-path" }, format!("json_path({}, {ptxt}) = {got:?}, model {want:?}", texts[i]), case.clone());
                    }
                }
                Ok(Err(e)) => bad("json_path", "error", format!("json_path({}, {ptxt}) failed: {e}", texts[i]), case.clone()),
                Err(p) => bad("json_path", "panic", format!("json_path({}, {ptxt}) panicked: {p}", texts[i]), case.clone()),
            }
            match &ext {
                Ok(a) => {
                    let s = a.as_any().downcast_ref::<StringArray>().unwrap();
                    let got = if s.is_null(i) { None } else { Some(s.value(i).to_string()) };
                    if !cmp(&got) {
                        bad("json_extract", if want.is_some() { "wrong-or-missing-value" } else { "value-for-absent-path" }, format!("json_extract({}, {ptxt}) = {got:?}, model {want:?}", texts[i]), case.clone());
                    }
                }
                Err(e) => {
                    if i == 0 {
                        bad("json_extract", "error", format!("json_extract(all docs, {ptxt}) failed: {e}"), case.clone());
                    }
                }
            }
            match &exi {
                Ok(a) => {
                    let b = a.as_any().downcast_ref::<arrow_array::BooleanArray>().unwrap();
                    let got = if b.is_null(i) { None } else { Some(b.value(i)) };
                    if got != Some(want.is_some()) {
                        bad("json_exists", "wrong-answer", format!("json_exists({}, {ptxt}) = {got:?}, model {}", texts[i], want.is_some()), case.clone());
                    }
                }
                Err(e) => {
                    if i == 0 {
                        bad("json_exists", "error", format!("json_exists(all docs, {ptxt}) failed: {e}"), case.clone());
                    }
                }
            }
        }
    }

    // ---- json_get family: key = field name or array index ----
    for key in ["k", "m", "z", "0", "1", "5"] {
        let karr: ArrayRef = Arc::new(StringArray::from(vec![key; n]));
        let got_raw = invoke(&udf::json_get_udf(), vec![jsonb.clone(), karr.clone()], DataType::LargeBinary);
        for (i, d) in docs.iter().enumerate() {
            // typed getters are strict (a type mismatch fails the whole call): one row per call
            let one: ArrayRef = jsonb.slice(i, 1);
            let k1: ArrayRef = Arc::new(StringArray::from(vec![key]));
            let got_s = invoke(&udf::json_get_string_udf(), vec![one.clone(), k1.clone()], DataType::Utf8);
            let got_i = invoke(&udf::json_get_int_udf(), vec![one.clone(), k1.clone()], DataType::Int64);
            let got_f = invoke(&udf::json_get_float_udf(), vec![one.clone(), k1.clone()], DataType::Float64);
            let got_b = invoke(&udf::json_get_bool_udf(), vec![one.clone(), k1.clone()], DataType::Boolean);
            let idx = key.parse::<usize>().ok();
            let want: Option<Option<Value>> = match (d, idx) {
                (Value::Object(m), None) => Some(m.get(key).cloned()),
                (Value::Array(a), Some(j)) => Some(a.get(j).cloned()),
                _ => None, // key kind does not match the container: not judged
            };
            let Some(want) = want else {
                cov.outcome("json-get:not-judged(key kind vs container)");
                continue;
            };
            cov.evaluations += 1;
            let case = json!({"part": "json", "doc": texts[i], "key": key});
            if let Ok(a) = &got_raw {
                let b = a.as_any().downcast_ref::<LargeBinaryArray>().unwrap();
                let got = if b.is_null(i) { None } else { decode_json(b.value(i)).ok().and_then(|s| serde_json::from_str::<Value>(&s).ok()) };
                let ok = match (&got, &want) {
                    (None, None) => true,
                    (Some(g), Some(w)) => num_eq(g, w),
                    _ => false,
                };
                if !ok {
                    bad("json_get", "wrong-or-missing-value", format!("json_get({}, {key}) = {got:?}, model {want:?}", texts[i]), case.clone());
                }
            }
            // typed getters: judged for missing / JSON null (-> NULL) and for exactly matching types
            let is_nullish = matches!(want, None | Some(Value::Null));
            for (api, r, exact) in [
                ("json_get_string", got_s.as_ref().err(), matches!(want, Some(Value::String(_)))),
                ("json_get_int", got_i.as_ref().err(), want.as_ref().and_then(|v| v.as_i64()).is_some()),
                ("json_get_float", got_f.as_ref().err(), matches!(&want, Some(Value::Number(w)) if w.is_f64())),
                ("json_get_bool", got_b.as_ref().err(), matches!(want, Some(Value::Bool(_)))),
            ] {
                if let Some(e) = r {
                    if exact || is_nullish {
                        bad(api, "error-on-matching-type", format!("{api}({}, {key}) failed: {e}", texts[i]), case.clone());
                    } else {
                        cov.outcome(&format!("json-get:{api} type mismatch -> error (strict, not judged)"));
                    }
                }
            }
            if let Ok(a) = &got_s {
                let s = a.as_any().downcast_ref::<StringArray>().unwrap();
                if is_nullish && !s.is_null(0) {
                    bad("json_get_string", "value-for-null-or-missing", format!("json_get_string({}, {key}) = {:?}", texts[i], s.value(0)), case.clone());
                } else if let Some(Value::String(w)) = &want {
                    if s.is_null(0) || s.value(0) != w {
                        bad("json_get_string", "wrong-string", format!("json_get_string({}, {key}) = {:?}, model {w:?}", texts[i], if s.is_null(0) { None } else { Some(s.value(0)) }), case.clone());
                    }
                }
            }
            if let Ok(a) = &got_i {
                let s = a.as_any().downcast_ref::<arrow_array::Int64Array>().unwrap();
                if is_nullish && !s.is_null(0) {
                    bad("json_get_int", "value-for-null-or-missing", format!("json_get_int({}, {key}) = {}", texts[i], s.value(0)), case.clone());
                } else if let Some(w) = want.as_ref().and_then(|v| v.as_i64()) {
                    if s.is_null(0) || s.value(0) != w {
                        bad("json_get_int", "wrong-int", format!("json_get_int({}, {key}) != {w}", texts[i]), case.clone());
                    }
                }
            }
            if let Ok(a) = &got_f {
                let s = a.as_any().downcast_ref::<arrow_array::Float64Array>().unwrap();
                if is_nullish && !s.is_null(0) {
                    bad("json_get_float", "value-for-null-or-missing", format!("json_get_float({}, {key}) = {}", texts[i], s.value(0)), case.clone());
                } else if let Some(Value::Number(w)) = &want {
                    if w.is_f64() && (s.is_null(0) || Some(s.value(0)) != w.as_f64()) {
                        bad("json_get_float", "wrong-float", format!("json_get_float({}, {key}) != {w}", texts[i]), case.clone());
                    }
                }
            }
            if let Ok(a) = &got_b {
                let s = a.as_any().downcast_ref::<arrow_array::BooleanArray>().unwrap();
                if is_nullish && !s.is_null(0) {
                    bad("json_get_bool", "value-for-null-or-missing", format!("json_get_bool({}, {key}) = {}", texts[i], s.value(0)), case.clone());
                } else if let Some(Value::Bool(w)) = &want {
                    if s.is_null(0) || s.value(0) != *w {
                        bad("json_get_bool", "wrong-bool", format!("json_get_bool({}, {key}) != {w}", texts[i]), case.clone());
                    }
                }
            }
        }
        if let Err(e) = &got_raw {
            bad("json_get", "error", format!("json_get(all docs, {key}) failed: {e}"), json!({"part": "json", "key": key}));
        }
    }
    cov.sample(json!({"part": "json", "doc": texts[texts.len() - 1], "paths": paths().iter().map(|p| p.0).collect::<Vec<_>>()}));
}
