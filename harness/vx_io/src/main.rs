//! vx_io: see /verif/harness/AGENTS-GUIDE.md; one module per property, dispatched on the property id.
mod c35;
mod c30;
mod c30b;
mod c31;
mod c40;
mod c40_json;
mod c41;
mod sub;

use vcore::{machinery_error, Ctx};

fn main() {
    let ctx = Ctx::from_args();
    vcore::quiet_panics();
    let out: vcore::Outcome = match ctx.id.as_str() {
        "C30" => c30::run(&ctx),
        "C31" => c31::run(&ctx),
        "C35" => c35::run(&ctx),
        "C40" => c40::run(&ctx),
        "C41" => c41::run(&ctx),
        other => machinery_error(&format!("vx_io does not implement {other}")),
    };
    vcore::finish(&ctx, out);
}
