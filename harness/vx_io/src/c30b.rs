//! C30 part B – liveness of the real ScanScheduler / FileScheduler under explorer-controlled read
//! completions (explicit-state search, K1 at step level).
//!
//! The scheduler runs on the thread's current-thread tokio runtime over a `ParkStore`: an
//! `ObjectStore` whose ranged `get` registers itself and parks on a oneshot until the explorer
//! completes it. Events: Submit (next request), Complete(read), Consume(response – enabled when all of
//! the request's reads were completed, or cancelled by a scheduler drop), DropResponse, DropScheduler.
//! After every event the runtime is driven to quiescence (yield until nothing changes). The real
//! scheduler cannot be snapshotted, so a state is its event trace and every transition re-executes
//! the trace on a fresh scheduler; states are de-duplicated on an abstraction (per-request status,
//! issued / completed reads, scheduler alive).
//! Oracles (every state): consumed data equals the file slices; an error is only acceptable after the
//! scheduler was dropped; a response whose reads are all done is delivered; and some progress is
//! always possible: a read is in flight, or a finished response can be consumed, or nothing is
//! pending ("finished responses are eventually consumed" is the fairness assumption).

use async_trait::async_trait;
use bytes::Bytes;
use futures::channel::oneshot;
use futures::stream::BoxStream;
use lance_io::object_store::ObjectStore as LanceStore;
use lance_io::scheduler::{FileScheduler, ScanScheduler, SchedulerConfig};
use lance_io::utils::CachedFileSize;
use object_store::path::Path;
use object_store::{
    GetOptions, GetRange, GetResult, ListResult, MultipartUpload, ObjectMeta, ObjectStore, PutMultipartOptions, PutOptions, PutPayload,
    PutResult, Result as OsResult,
};
use serde::{Deserialize, Serialize};
use serde_json::{json, Value};
use std::collections::BTreeSet;
use std::future::Future;
use std::ops::Range;
use std::pin::Pin;
use std::sync::{Arc, Mutex};
use std::task::Poll;
use vcore::seqx::{Caps, Report, Step, Sut};
use vcore::{Ctx, Outcome, Violation};
use vstore::MemStore;

// ---------------------------------------------------------------------------------------------
// ParkStore
// ---------------------------------------------------------------------------------------------

#[derive(Default)]
struct ParkState {
    /// parked reads in arrival order: (start, end, release)
    inflight: Vec<(u64, u64, oneshot::Sender<()>)>,
    issued: Vec<u64>,
    completed: Vec<u64>,
}

#[derive(Clone)]
struct ParkStore {
    inner: MemStore,
    st: Arc<Mutex<ParkState>>,
}

impl std::fmt::Debug for ParkStore {
    fn fmt(&self, f: &mut std::fmt::Formatter<'_>) -> std::fmt::Result {
        write!(f, "ParkStore")
    }
}
impl std::fmt::Display for ParkStore {
    fn fmt(&self, f: &mut std::fmt::Formatter<'_>) -> std::fmt::Result {
        write!(f, "ParkStore")
    }
}

#[async_trait]
impl ObjectStore for ParkStore {
    async fn put_opts(&self, location: &Path, payload: PutPayload, opts: PutOptions) -> OsResult<PutResult> {
        self.inner.put_opts(location, payload, opts).await
    }
    async fn put_multipart_opts(&self, location: &Path, opts: PutMultipartOptions) -> OsResult<Box<dyn MultipartUpload>> {
        self.inner.put_multipart_opts(location, opts).await
    }
    async fn get_opts(&self, location: &Path, options: GetOptions) -> OsResult<GetResult> {
        if let Some(GetRange::Bounded(r)) = &options.range {
            let (tx, rx) = oneshot::channel();
            {
                let mut st = self.st.lock().unwrap();
                st.inflight.push((r.start, r.end, tx));
                st.issued.push(r.start);
            }
            let _ = rx.await;
            self.st.lock().unwrap().completed.push(r.start);
        }
        self.inner.get_opts(location, options).await
    }
    async fn delete(&self, location: &Path) -> OsResult<()> {
        self.inner.delete(location).await
    }
    fn list(&self, prefix: Option<&Path>) -> BoxStream<'static, OsResult<ObjectMeta>> {
        self.inner.list(prefix)
    }
    async fn list_with_delimiter(&self, prefix: Option<&Path>) -> OsResult<ListResult> {
        self.inner.list_with_delimiter(prefix).await
    }
    async fn copy(&self, from: &Path, to: &Path) -> OsResult<()> {
        self.inner.copy(from, to).await
    }
    async fn copy_if_not_exists(&self, from: &Path, to: &Path) -> OsResult<()> {
        self.inner.copy_if_not_exists(from, to).await
    }
}

// ---------------------------------------------------------------------------------------------
// roots, ops, abstraction
// ---------------------------------------------------------------------------------------------

#[derive(Clone, Debug, Serialize, Deserialize)]
pub struct Req {
    ranges: Vec<(u64, u64)>,
    prio: u64,
}

#[derive(Clone, Debug, Serialize, Deserialize)]
pub struct Root {
    label: String,
    reqs: Vec<Req>,
    io_buffer: u64,
    capacity: usize,
}

#[derive(Clone, Debug, Serialize, Deserialize, PartialEq)]
pub enum Op {
    Submit(usize),
    /// complete the parked read that starts at this file offset
    Complete(u64),
    Consume(usize),
    DropResponse(usize),
    DropScheduler,
}

#[derive(Clone, Copy, Debug, PartialEq, Eq, Hash, Serialize)]
enum Status {
    Unsubmitted,
    Pending,
    ConsumedOk,
    ConsumedErr,
    Dropped,
}

#[derive(Clone, Debug, Serialize)]
pub struct Abs {
    status: Vec<Status>,
    inflight: BTreeSet<u64>,
    issued: BTreeSet<u64>,
    completed: BTreeSet<u64>,
    sched_alive: bool,
}

#[derive(Clone)]
pub struct St {
    root: usize,
    trace: Vec<Op>,
    abs: Abs,
}

impl Abs {
    fn initial(n: usize) -> Self {
        Self {
            status: vec![Status::Unsubmitted; n],
            inflight: BTreeSet::new(),
            issued: BTreeSet::new(),
            completed: BTreeSet::new(),
            sched_alive: true,
        }
    }
    /// all reads of request i are done (completed, or never to be issued because the scheduler is gone)
    fn ready(&self, root: &Root, i: usize) -> bool {
        root.reqs[i].ranges.iter().all(|(s, _)| self.completed.contains(s) || (!self.sched_alive && !self.issued.contains(s)))
    }
}

// ---------------------------------------------------------------------------------------------
// execution of one trace on a fresh scheduler
// ---------------------------------------------------------------------------------------------

type RespFut = Pin<Box<dyn Future<Output = lance_core::Result<Vec<Bytes>>> + Send>>;

async fn quiesce(st: &Arc<Mutex<ParkState>>) {
    quiesce_n(st, 16).await
}

async fn quiesce_n(st: &Arc<Mutex<ParkState>>, need: usize) {
    let mut stable = 0;
    let mut last = (usize::MAX, usize::MAX);
    for _ in 0..20000 {
        tokio::task::yield_now().await;
        let now = {
            let g = st.lock().unwrap();
            (g.issued.len(), g.completed.len())
        };
        if now == last {
            stable += 1;
            if stable >= need {
                return;
            }
        } else {
            stable = 0;
            last = now;
        }
    }
}

pub struct ExecOut {
    abs: Abs,
    outcome: String,
    violations: Vec<Violation>,
}

fn exec(root: &Root, trace: &[Op], env_tag: &str) -> ExecOut {
    let file = crate::c30::file_bytes();
    let n = root.reqs.len();
    let res = vcore::catch(|| {
        crate::c30::block_on(async {
            let mem = MemStore::new();
            mem.write_raw("f.bin", Bytes::from(file.clone()));
            let pst: Arc<Mutex<ParkState>> = Default::default();
            let park = ParkStore { inner: mem, st: pst.clone() };
            let store = Arc::new(LanceStore::new(Arc::new(park), "memory:///".parse().unwrap(), Some(1), None, false, true, root.capacity, 0, None));
            let sched = ScanScheduler::new(store, SchedulerConfig { io_buffer_size_bytes: root.io_buffer });
            let fs = sched.open_file(&Path::from("f.bin"), &CachedFileSize::new(crate::c30::FILE_LEN as u64)).await.expect("open_file");
            let mut sched: Option<Arc<ScanScheduler>> = Some(sched);
            let mut fs: Option<FileScheduler> = Some(fs);
            let mut futs: Vec<Option<RespFut>> = (0..n).map(|_| None).collect();
            let mut abs = Abs::initial(n);
            let mut viol: Vec<Violation> = vec![];
            let mut outcome = "ok".to_string();
            let case = |what: &str| json!({"part": "B", "what": what, "env": env_tag});
            quiesce(&pst).await;
            for (k, op) in trace.iter().enumerate() {
                let last = k + 1 == trace.len();
                match op {
                    Op::Submit(i) => {
                        let r = &root.reqs[*i];
                        let ranges: Vec<Range<u64>> = r.ranges.iter().map(|(s, e)| *s..*e).collect();
                        let f = fs.as_ref().expect("submit after scheduler drop").submit_request(ranges, r.prio);
                        futs[*i] = Some(Box::pin(f));
                        abs.status[*i] = Status::Pending;
                    }
                    Op::Complete(start) => {
                        let tx = {
                            let mut g = pst.lock().unwrap();
                            let pos = g.inflight.iter().position(|(s, _, _)| s == start).expect("complete: read not in flight");
                            g.inflight.remove(pos).2
                        };
                        let _ = tx.send(());
                    }
                    Op::Consume(i) => {
                        let mut f = futs[*i].take().expect("consume: no future");
                        let polled = std::future::poll_fn(|cx| Poll::Ready(f.as_mut().poll(cx))).await;
                        match polled {
                            Poll::Pending => {
                                if last {
                                    viol.push(Violation::new(
                                        "delivery",
                                        &format!("liveness/ready-but-not-delivered/{}", cause(&abs)),
                                        format!("all reads of request {i} are done but its response future is still pending after quiescence"),
                                        case("ready-but-not-delivered"),
                                    ));
                                    outcome = "not-delivered".into();
                                }
                                futs[*i] = Some(f);
                            }
                            Poll::Ready(Ok(bufs)) => {
                                abs.status[*i] = Status::ConsumedOk;
                                let want: Vec<&[u8]> = root.reqs[*i].ranges.iter().map(|(s, e)| &file[*s as usize..*e as usize]).collect();
                                let got: Vec<&[u8]> = bufs.iter().map(|b| &b[..]).collect();
                                if last {
                                    outcome = "consumed-ok".into();
                                    if got != want {
                                        viol.push(Violation::new("bytes", "liveness/consumed-wrong-bytes", format!("request {i} returned {got:?}, expected {want:?}"), case("wrong-bytes")));
                                    }
                                }
                            }
                            Poll::Ready(Err(e)) => {
                                abs.status[*i] = Status::ConsumedErr;
                                if last {
                                    outcome = "consumed-err".into();
                                    if abs.sched_alive {
                                        viol.push(Violation::new("bytes", "liveness/error-while-scheduler-alive", format!("request {i} failed although the scheduler is alive: {e}"), case("error")));
                                    }
                                }
                            }
                        }
                    }
                    Op::DropResponse(i) => {
                        futs[*i] = None;
                        abs.status[*i] = Status::Dropped;
                    }
                    Op::DropScheduler => {
                        fs = None;
                        sched = None;
                        abs.sched_alive = false;
                    }
                }
                quiesce(&pst).await;
                {
                    let g = pst.lock().unwrap();
                    abs.inflight = g.inflight.iter().map(|x| x.0).collect();
                    abs.issued = g.issued.iter().copied().collect();
                    abs.completed = g.completed.iter().copied().collect();
                }
                if last {
                    // progress oracle
                    let pending: Vec<usize> = (0..n).filter(|i| abs.status[*i] == Status::Pending).collect();
                    let any_ready = pending.iter().any(|i| abs.ready(root, *i));
                    let mut stuck = !pending.is_empty() && abs.inflight.is_empty() && !any_ready;
                    if stuck {
                        // confirm with a much longer quiescence and a little real time before judging
                        quiesce_n(&pst, 2000).await;
                        tokio::time::sleep(std::time::Duration::from_millis(20)).await;
                        quiesce_n(&pst, 2000).await;
                        let g = pst.lock().unwrap();
                        stuck = g.inflight.is_empty() && g.issued.len() == abs.issued.len();
                    }
                    if stuck {
                        viol.push(Violation::new(
                            "progress",
                            &format!("liveness/stuck/{}", cause(&abs)),
                            format!(
                                "requests {pending:?} are pending, no read is in flight, no finished response is waiting to be consumed: nothing can make progress (status {:?}, issued {:?}, completed {:?}, scheduler alive {})",
                                abs.status, abs.issued, abs.completed, abs.sched_alive
                            ),
                            case("stuck"),
                        ));
                        outcome = "stuck".into();
                    }
                }
            }
            // ---- cleanup: never leave parked reads behind (they hold process-wide IOPS permits) ----
            futs.clear();
            drop(fs);
            drop(sched);
            for _ in 0..64 {
                let txs: Vec<oneshot::Sender<()>> = {
                    let mut g = pst.lock().unwrap();
                    g.inflight.drain(..).map(|x| x.2).collect()
                };
                let none = txs.is_empty();
                for tx in txs {
                    let _ = tx.send(());
                }
                quiesce(&pst).await;
                if none && pst.lock().unwrap().inflight.is_empty() {
                    break;
                }
            }
            (abs, outcome, viol)
        })
    });
    match res {
        Ok((abs, outcome, violations)) => ExecOut { abs, outcome, violations },
        Err(p) => ExecOut {
            abs: Abs::initial(n),
            outcome: "panic".into(),
            violations: vec![Violation::new("no-panic", "liveness/panic", format!("scheduler panicked: {p}"), json!({"part": "B", "env": env_tag}))],
        },
    }
}

fn cause(abs: &Abs) -> &'static str {
    let dropped_resp = abs.status.contains(&Status::Dropped);
    match (dropped_resp, abs.sched_alive) {
        (true, true) => "dropped-response-future-never-returns-its-budget",
        (true, false) => "dropped-response-and-scheduler-dropped",
        (false, false) => "after-scheduler-dropped",
        (false, true) => "plain",
    }
}

// ---------------------------------------------------------------------------------------------
// Sut
// ---------------------------------------------------------------------------------------------

pub struct LiveSut {
    roots: Vec<Root>,
    env_tag: String,
}

impl Sut for LiveSut {
    type State = St;
    type Op = Op;
    fn init(&self) -> Vec<(String, St)> {
        self.roots
            .iter()
            .enumerate()
            .map(|(i, r)| (r.label.clone(), St { root: i, trace: vec![], abs: Abs::initial(r.reqs.len()) }))
            .collect()
    }
    fn ops(&self, st: &St, _depth: usize) -> Vec<Op> {
        let root = &self.roots[st.root];
        let a = &st.abs;
        let mut v = vec![];
        for s in &a.inflight {
            v.push(Op::Complete(*s));
        }
        for i in 0..root.reqs.len() {
            if a.status[i] == Status::Pending && a.ready(root, i) {
                v.push(Op::Consume(i));
            }
        }
        if a.sched_alive {
            if let Some(i) = (0..root.reqs.len()).find(|i| a.status[*i] == Status::Unsubmitted) {
                v.push(Op::Submit(i));
            }
        }
        for i in 0..root.reqs.len() {
            if a.status[i] == Status::Pending {
                v.push(Op::DropResponse(i));
            }
        }
        if a.sched_alive && a.status.iter().any(|s| *s != Status::Unsubmitted) {
            v.push(Op::DropScheduler);
        }
        v
    }
    fn step(&self, st: &St, op: &Op) -> Step<St> {
        let mut trace = st.trace.clone();
        trace.push(op.clone());
        let out = exec(&self.roots[st.root], &trace, &self.env_tag);
        Step {
            next: Some(St { root: st.root, trace, abs: out.abs }),
            outcome: out.outcome,
            violations: out.violations,
        }
    }
    fn canon(&self, st: &St) -> u64 {
        vcore::hash64(format!("{}|{}", st.root, serde_json::to_string(&st.abs).unwrap()).as_bytes())
    }
    fn op_kind(&self, op: &Op) -> String {
        match op {
            Op::Submit(_) => "Submit",
            Op::Complete(_) => "Complete",
            Op::Consume(_) => "Consume",
            Op::DropResponse(_) => "DropResponse",
            Op::DropScheduler => "DropScheduler",
        }
        .to_string()
    }
}

fn small(i: u64) -> Vec<(u64, u64)> {
    vec![(16 * i, 16 * i + 2)]
}
fn big(i: u64) -> Vec<(u64, u64)> {
    vec![(16 * i, 16 * i + 4), (16 * i + 8, 16 * i + 12)]
}

pub fn roots(thorough: bool) -> Vec<Root> {
    let n: usize = if thorough { 4 } else { 3 };
    let mut out = vec![];
    // shapes: which requests are "big" (2 reads, 8 bytes); others small (1 read, 2 bytes)
    let shapes: Vec<Vec<bool>> = if thorough {
        vec![vec![false; 4], vec![true, false, false, false], vec![false, false, false, true], vec![true, true, false, false], vec![true; 4]]
    } else {
        vec![vec![false; 3], vec![true, false, false], vec![false, false, true], vec![true, true, true]]
    };
    let prios: Vec<(&str, Vec<u64>)> = if thorough {
        vec![("asc", vec![0, 1, 2, 3]), ("desc", vec![3, 2, 1, 0]), ("equal", vec![0, 0, 0, 0]), ("zigzag", vec![1, 3, 0, 2])]
    } else {
        vec![("asc", vec![0, 1, 2]), ("desc", vec![2, 1, 0])]
    };
    for shape in &shapes {
        let total: u64 = shape.iter().map(|b| if *b { 8 } else { 2 }).sum();
        for (pn, pr) in &prios {
            for (bn, buf) in [("1", 1u64), ("half", (total / 2).max(1)), ("huge", 1 << 20)] {
                for cap in [1usize, 2] {
                    let reqs: Vec<Req> = (0..n).map(|i| Req { ranges: if shape[i] { big(i as u64) } else { small(i as u64) }, prio: pr[i] }).collect();
                    out.push(Root {
                        label: format!("shape={} prio={pn} io_buffer={bn}({buf}) capacity={cap}", shape.iter().map(|b| if *b { 'B' } else { 's' }).collect::<String>()),
                        reqs,
                        io_buffer: buf,
                        capacity: cap,
                    });
                }
            }
        }
    }
    out
}

// ---------------------------------------------------------------------------------------------
// driver glue
// ---------------------------------------------------------------------------------------------

pub struct BReport {
    pub rep: Report,
    pub roots: usize,
    pub children: Vec<Value>,
    pub violations: Vec<Violation>,
}

impl BReport {
    pub fn fill(&self, out: &mut Outcome) {
        self.rep.fill(out);
        out.set("liveness_roots", self.roots as u64);
        out.set("liveness_children", json!(self.children));
        out.assume("part B: finished responses are eventually consumed (fairness); requests use disjoint 16-byte windows of the file so every read identifies its request; block size 1 so ranges of one request are not coalesced; states are de-duplicated on (per-request status, issued/completed reads, scheduler alive) – the scheduler's internal budget counters are a function of that abstraction for a fixed root");
        out.assume("part B explores sequentially consistent interleavings at the instrumented points (submit / read completion / consume / drops) on a single-thread runtime; lock-level interleavings inside IoQueue (loom, part C) are not built");
    }
}

/// explore in this process (its LANCE_PROCESS_IO_THREADS_LIMIT)
pub fn explore(ctx: &Ctx, env_tag: &str) -> BReport {
    let thorough = !ctx.quick();
    let limit_one = std::env::var("LANCE_PROCESS_IO_THREADS_LIMIT").ok().as_deref() == Some("1");
    let mut rs = roots(thorough);
    if limit_one {
        // the IOPS quota is process-wide: explore single-threaded and on fewer roots
        rs.retain(|r| r.capacity == 2);
        if !thorough {
            rs.retain(|r| !r.label.contains("io_buffer=half") && (r.label.contains("shape=sss") || r.label.contains("shape=Bss")));
        }
    }
    let sut = LiveSut { roots: rs, env_tag: env_tag.to_string() };
    let caps = Caps {
        max_depth: 24,
        max_states: ctx.tier.pick(60_000, 2_000_000),
        wall_s: if limit_one { ctx.tier.pick(14.0, 250.0) } else { ctx.tier.pick(22.0, 500.0) },
    };
    let workers = if limit_one { 1 } else { ctx.workers };
    let rep = vcore::seqx::explore(&sut, &caps, workers);
    let mut violations = rep.violations.clone();
    for v in &mut violations {
        v.case["part"] = json!("B");
        v.case["env"] = json!(env_tag);
        v.case["root_spec"] = json!(sut.roots.iter().find(|r| Some(r.label.as_str()) == v.case["root"].as_str()));
    }
    BReport { roots: sut.roots.len(), rep, children: vec![], violations }
}

pub fn report_json(r: &BReport) -> Value {
    json!({
        "states": r.rep.states, "transitions": r.rep.transitions, "max_depth": r.rep.max_depth, "roots": r.roots,
        "outcomes": r.rep.outcomes, "cap_hit": r.rep.cap_hit, "level_sizes": r.rep.level_sizes,
        "violations": r.violations.iter().take(200).map(|v| json!({"oracle": v.oracle, "key": v.key, "what": v.what, "case": v.case})).collect::<Vec<_>>(),
    })
}

/// parent: this process (limit 128) + a child with LANCE_PROCESS_IO_THREADS_LIMIT=1
pub fn run_all(ctx: &Ctx, env_tag: &str, skip: bool) -> BReport {
    if skip {
        let mut rep = Report::default();
        rep.states = 1;
        rep.transitions = 1;
        rep.samples.push(json!("part B skipped (--opt only=A)"));
        return BReport { rep, roots: 0, children: vec![], violations: vec![] };
    }
    // the io-threads-limit-1 child is a separate process: run it concurrently
    let ctx2 = ctx.clone();
    let secs = ctx.tier.pick(50, 600);
    let child = std::thread::spawn(move || crate::sub::run_child(&ctx2, &[("LANCE_PROCESS_IO_THREADS_LIMIT", "1".to_string())], &[("child", "B")], secs));
    let mut r = explore(ctx, env_tag);
    match child.join().unwrap_or_else(|_| Err("child thread panicked".into())) {
        Ok(v) => {
            r.rep.states += v["states"].as_u64().unwrap_or(0);
            r.rep.transitions += v["transitions"].as_u64().unwrap_or(0);
            for (k, n) in v["outcomes"].as_object().cloned().unwrap_or_default() {
                *r.rep.outcomes.entry(format!("io_threads=1/{k}")).or_insert(0) += n.as_u64().unwrap_or(0);
            }
            if r.rep.cap_hit.is_none() {
                if let Some(c) = v["cap_hit"].as_str() {
                    r.rep.cap_hit = Some(format!("child io_threads=1: {c}"));
                }
            }
            for x in v["violations"].as_array().cloned().unwrap_or_default() {
                r.violations.push(Violation::new(
                    x["oracle"].as_str().unwrap_or(""),
                    x["key"].as_str().unwrap_or(""),
                    x["what"].as_str().unwrap_or("").to_string(),
                    x["case"].clone(),
                ));
            }
            r.children.push(json!({"env": "LANCE_PROCESS_IO_THREADS_LIMIT=1", "states": v["states"], "transitions": v["transitions"], "roots": v["roots"], "cap_hit": v["cap_hit"]}));
        }
        Err(e) => vcore::machinery_error(&format!("C30 part B child failed: {e}")),
    }
    // shortest trace first per key
    r.violations.sort_by_key(|v| (v.key.clone(), v.case["ops"].as_array().map(|a| a.len()).unwrap_or(0)));
    r
}

pub fn replay(_ctx: &Ctx, art: &Value) -> Outcome {
    let mut out = Outcome::new("model_checking");
    let c = &art["case"];
    let root: Root = serde_json::from_value(c["root_spec"].clone()).unwrap_or_else(|e| vcore::machinery_error(&format!("replay: bad root_spec: {e}")));
    let ops: Vec<Op> = serde_json::from_value(c["ops"].clone()).unwrap_or_else(|e| vcore::machinery_error(&format!("replay: bad ops: {e}")));
    let r = exec(&root, &ops, "replay (this process's env)");
    let key = art["key"].as_str().unwrap_or("").to_string();
    out.violations = r.violations.into_iter().filter(|v| v.key == key).map(|mut v| {
        v.key = art["key"].as_str().unwrap_or("").to_string();
        v
    }).collect();
    out.set("states", 1u64);
    out.set("transitions", ops.len() as u64);
    out.set("traces_validated_against_impl", 1u64);
    out.set("samples", json!([{"root": root.label, "ops": c["ops"]}]));
    out.assume("replay runs in this process's environment (set LANCE_PROCESS_IO_THREADS_LIMIT=1 to reproduce a finding of the io-threads-limit-1 child)");
    out
}
