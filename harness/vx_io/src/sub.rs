//! Re-execute this binary as a child process with extra environment variables (process-global
//! LazyLock/OnceLock knobs of Lance can only be varied per process). The child computes a slice of
//! the work and hands its result back as JSON through a temp file.

use serde_json::Value;
use std::process::{Command, Stdio};
use std::time::{Duration, Instant};
use vcore::Ctx;

pub fn run_child(ctx: &Ctx, envs: &[(&str, String)], opts: &[(&str, &str)], timeout_s: u64) -> Result<Value, String> {
    let exe = std::env::current_exe().map_err(|e| e.to_string())?;
    let out = std::env::temp_dir().join(format!(
        "vx_io-child-{}-{}-{}.json",
        ctx.id,
        std::process::id(),
        vcore::hash64(format!("{envs:?}{opts:?}").as_bytes())
    ));
    let _ = std::fs::remove_file(&out);
    let mut cmd = Command::new(exe);
    cmd.arg(&ctx.id).arg("--tier").arg(ctx.tier.name()).arg("--workers").arg(ctx.workers.to_string());
    cmd.arg("--opt").arg(format!("out={}", out.display()));
    for (k, v) in opts {
        cmd.arg("--opt").arg(format!("{k}={v}"));
    }
    for (k, v) in envs {
        cmd.env(k, v);
    }
    cmd.env("VERIF_DIR", &ctx.verif_dir);
    cmd.stdout(Stdio::null()).stderr(Stdio::inherit());
    let mut child = cmd.spawn().map_err(|e| format!("spawn: {e}"))?;
    let t0 = Instant::now();
    loop {
        match child.try_wait() {
            Ok(Some(st)) => {
                if !st.success() {
                    return Err(format!("child exited with {st}"));
                }
                break;
            }
            Ok(None) => {
                if t0.elapsed() > Duration::from_secs(timeout_s) {
                    let _ = child.kill();
                    return Err(format!("child exceeded {timeout_s}s"));
                }
                std::thread::sleep(Duration::from_millis(20));
            }
            Err(e) => return Err(e.to_string()),
        }
    }
    let txt = std::fs::read_to_string(&out).map_err(|e| format!("child wrote no result: {e}"))?;
    let _ = std::fs::remove_file(&out);
    serde_json::from_str(&txt).map_err(|e| format!("bad child json: {e}"))
}

/// In the child: hand the result to the parent and exit (never writes evidence).
pub fn child_finish(ctx: &Ctx, res: Value) -> ! {
    let out = ctx.opts.get("out").unwrap_or_else(|| vcore::machinery_error("child mode without --opt out="));
    if let Err(e) = std::fs::write(out, serde_json::to_string(&res).unwrap()) {
        vcore::machinery_error(&format!("child cannot write {out}: {e}"));
    }
    std::process::exit(0);
}
