//! C40 – Arrow helper transformations preserve values (K5).
//!
//! Inputs: every array of a small family of nested types (int, struct, nested struct, list, list of
//! struct, struct of list, fixed-size list) with n <= 3 rows, every validity pattern at every level
//! (values hidden under null parents / garbage list items under null list entries are generated on
//! purpose – Arrow allows them), unsliced and sliced (`slice(1, n)` of an (n+1)-row array).
//! Model: plain Rust value trees (`V`) read off an array by `logical()` (written here; parent nulls
//! mask children). Each helper is compared with the obvious tree transformation.

use arrow_array::cast::AsArray;
use arrow_array::types::Int32Type;
use arrow_array::{
    Array, ArrayRef, FixedSizeListArray, Int32Array, ListArray, RecordBatch, StructArray, UInt32Array,
};
use arrow_buffer::{NullBuffer, OffsetBuffer, ScalarBuffer};
use arrow_schema::{DataType, Field, Fields, Schema};
use lance_arrow::deepcopy::{deep_copy_array, deep_copy_array_sliced, deep_copy_batch, deep_copy_batch_sliced};
use lance_arrow::list::ListArrayExt;
use lance_arrow::r#struct::StructArrayExt;
use lance_arrow::RecordBatchExt;
use serde_json::{json, Value};
use std::sync::Arc;
use vcore::{Cov, Ctx, Outcome, Violation};

// ---------------------------------------------------------------------------------------------
// model
// ---------------------------------------------------------------------------------------------

#[derive(Clone, Debug, PartialEq)]
pub enum V {
    Null,
    I(i32),
    S(Vec<(String, V)>),
    L(Vec<V>),
}

impl V {
    fn show(&self) -> String {
        match self {
            V::Null => "null".into(),
            V::I(i) => i.to_string(),
            V::S(f) => format!(
                "{{{}}}",
                f.iter().map(|(k, v)| format!("{k}:{}", v.show())).collect::<Vec<_>>().join(",")
            ),
            V::L(v) => format!("[{}]", v.iter().map(|x| x.show()).collect::<Vec<_>>().join(",")),
        }
    }
}

fn show_rows(r: &[V]) -> String {
    r.iter().map(|v| v.show()).collect::<Vec<_>>().join(" | ")
}

/// logical rows of an array (parent nulls mask children)
pub fn logical(a: &dyn Array) -> Vec<V> {
    match a.data_type() {
        DataType::Int32 => {
            let p = a.as_primitive::<Int32Type>();
            (0..p.len()).map(|i| if p.is_null(i) { V::Null } else { V::I(p.value(i)) }).collect()
        }
        DataType::Struct(fields) => {
            let s = a.as_struct();
            let cols: Vec<Vec<V>> = s.columns().iter().map(|c| logical(c.as_ref())).collect();
            (0..s.len())
                .map(|i| {
                    if s.is_null(i) {
                        V::Null
                    } else {
                        V::S(fields.iter().zip(cols.iter()).map(|(f, c)| (f.name().clone(), c[i].clone())).collect())
                    }
                })
                .collect()
        }
        DataType::List(_) => {
            let l = a.as_list::<i32>();
            (0..l.len()).map(|i| if l.is_null(i) { V::Null } else { V::L(logical(l.value(i).as_ref())) }).collect()
        }
        DataType::FixedSizeList(_, _) => {
            let l = a.as_fixed_size_list();
            (0..l.len()).map(|i| if l.is_null(i) { V::Null } else { V::L(logical(l.value(i).as_ref())) }).collect()
        }
        other => panic!("logical: unsupported type {other}"),
    }
}

#[derive(Clone, Debug, PartialEq)]
pub enum Ty {
    Int,
    Struct(Vec<(String, Ty)>),
    List(Box<Ty>),
    Fsl(Box<Ty>),
}

fn st(fields: &[(&str, Ty)]) -> Ty {
    Ty::Struct(fields.iter().map(|(n, t)| (n.to_string(), t.clone())).collect())
}

impl Ty {
    fn dt(&self) -> DataType {
        match self {
            Ty::Int => DataType::Int32,
            Ty::Struct(f) => DataType::Struct(Fields::from(
                f.iter().map(|(n, t)| Field::new(n, t.dt(), true)).collect::<Vec<_>>(),
            )),
            Ty::List(c) => DataType::List(Arc::new(Field::new("item", c.dt(), true))),
            Ty::Fsl(c) => DataType::FixedSizeList(Arc::new(Field::new("item", c.dt(), true)), 2),
        }
    }
    fn name(&self) -> String {
        match self {
            Ty::Int => "int".into(),
            Ty::Struct(f) => format!("struct<{}>", f.iter().map(|(n, t)| format!("{n}:{}", t.name())).collect::<Vec<_>>().join(",")),
            Ty::List(c) => format!("list<{}>", c.name()),
            Ty::Fsl(c) => format!("fsl<{}>", c.name()),
        }
    }
}

// ---------------------------------------------------------------------------------------------
// enumeration of arrays
// ---------------------------------------------------------------------------------------------

/// validity patterns for n slots: all 2^n when n <= full_upto, otherwise {none, all-null, TF.., FT..}
fn pats(n: usize, full_upto: usize) -> Vec<Option<Vec<bool>>> {
    if n == 0 {
        return vec![None];
    }
    if n <= full_upto {
        vcore::smallx::validity_patterns(n)
            .into_iter()
            .map(|p| if p.iter().all(|b| *b) { None } else { Some(p) })
            .collect()
    } else {
        vec![
            None,
            Some(vec![false; n]),
            Some((0..n).map(|i| i % 2 == 0).collect()),
            Some((0..n).map(|i| i % 2 == 1).collect()),
        ]
    }
}

fn nb(p: &Option<Vec<bool>>) -> Option<NullBuffer> {
    p.as_ref().map(|v| NullBuffer::from(v.clone()))
}

/// every array of type `ty` with `n` slots; `base` makes leaf values distinct between columns;
/// `full` = largest n for which all validity patterns are enumerated at this level.
/// `list_pad` = (pre, post) junk value slots around the referenced range of a *top-level* list.
fn enumerate(ty: &Ty, n: usize, base: i32, full: usize, list_pad: (usize, usize)) -> Vec<ArrayRef> {
    let mut out: Vec<ArrayRef> = vec![];
    match ty {
        Ty::Int => {
            for p in pats(n, full) {
                let vals: Vec<i32> = (0..n).map(|i| base + i as i32).collect();
                out.push(Arc::new(Int32Array::new(ScalarBuffer::from(vals), nb(&p))));
            }
        }
        Ty::Struct(fields) => {
            let mut child_sets: Vec<Vec<ArrayRef>> = vec![];
            for (k, (_, t)) in fields.iter().enumerate() {
                child_sets.push(enumerate(t, n, base + 100 * (k as i32 + 1), full, (0, 0)));
            }
            let dims: Vec<usize> = child_sets.iter().map(|c| c.len()).collect();
            let flds = match ty.dt() {
                DataType::Struct(f) => f,
                _ => unreachable!(),
            };
            for p in pats(n, full) {
                if fields.is_empty() {
                    out.push(Arc::new(StructArray::new_empty_fields(n, nb(&p))));
                    continue;
                }
                vcore::smallx::product(&dims, |ix| {
                    let cols: Vec<ArrayRef> = ix.iter().enumerate().map(|(k, i)| child_sets[k][*i].clone()).collect();
                    out.push(Arc::new(StructArray::new(flds.clone(), cols, nb(&p))));
                    true
                });
            }
        }
        Ty::List(child) => {
            let (pre, post) = list_pad;
            let lens_all = vcore::smallx::sequences(3, n, n);
            for lens in lens_all {
                let total: usize = lens.iter().sum();
                let kids = enumerate(child, pre + total + post, base + 1000, 2, (0, 0));
                let mut offs: Vec<i32> = vec![pre as i32];
                for l in &lens {
                    offs.push(offs.last().unwrap() + *l as i32);
                }
                let field = Arc::new(Field::new("item", child.dt(), true));
                for p in pats(n, full) {
                    for k in &kids {
                        out.push(Arc::new(ListArray::new(
                            field.clone(),
                            OffsetBuffer::new(ScalarBuffer::from(offs.clone())),
                            k.clone(),
                            nb(&p),
                        )));
                    }
                }
            }
        }
        Ty::Fsl(child) => {
            let kids = enumerate(child, 2 * n, base + 1000, 2, (0, 0));
            let field = Arc::new(Field::new("item", child.dt(), true));
            for p in pats(n, full) {
                for k in &kids {
                    out.push(Arc::new(FixedSizeListArray::new(field.clone(), 2, k.clone(), nb(&p))));
                }
            }
        }
    }
    out
}

/// all (array, sliced?) inputs with n logical rows
fn inputs(ty: &Ty, n: usize, base: i32, list_pad: (usize, usize), with_sliced: bool) -> Vec<(ArrayRef, bool)> {
    let mut v: Vec<(ArrayRef, bool)> = enumerate(ty, n, base, 4, list_pad).into_iter().map(|a| (a, false)).collect();
    if !with_sliced {
        return v;
    }
    v.extend(enumerate(ty, n + 1, base, 4, list_pad).into_iter().map(|a| (a.slice(1, n), true)));
    v
}

fn batch_of(cols: Vec<(&str, ArrayRef)>) -> RecordBatch {
    let fields: Vec<Field> = cols.iter().map(|(n, a)| Field::new(*n, a.data_type().clone(), true)).collect();
    RecordBatch::try_new(Arc::new(Schema::new(fields)), cols.into_iter().map(|(_, a)| a).collect()).unwrap()
}

fn batch_logical(b: &RecordBatch) -> Vec<(String, Vec<V>)> {
    b.schema().fields().iter().zip(b.columns()).map(|(f, c)| (f.name().clone(), logical(c.as_ref()))).collect()
}

// ---------------------------------------------------------------------------------------------
// sink
// ---------------------------------------------------------------------------------------------

struct Sink {
    cov: Cov,
    viol: Vec<Violation>,
    per_key: std::collections::BTreeMap<String, u64>,
}

impl Sink {
    fn new() -> Self {
        Self { cov: Cov::new(), viol: vec![], per_key: Default::default() }
    }
    /// every violation is counted (`violation_counts` in evidence); only the first few artefacts per
    /// key and work item are materialised (building them is the expensive part)
    fn bad(&mut self, helper: &str, shape: &str, what: String, case: Value) {
        let key = format!("{helper}/{shape}");
        let n = self.per_key.entry(key.clone()).or_insert(0);
        *n += 1;
        if *n <= 3 {
            self.viol.push(Violation::new("value-preserving", &key, what, case));
        }
    }
}

fn physical(a: &dyn Array) -> String {
    let nulls = match a.nulls() {
        None => "-".to_string(),
        Some(n) => n.iter().map(|b| if b { 'T' } else { 'F' }).collect(),
    };
    match a.data_type() {
        DataType::Int32 => format!("int(nulls={nulls} values={:?})", a.as_primitive::<Int32Type>().values()),
        DataType::Struct(f) => format!("struct(nulls={nulls} {})", f.iter().zip(a.as_struct().columns()).map(|(f, c)| format!("{}={}", f.name(), physical(c.as_ref()))).collect::<Vec<_>>().join(" ")),
        DataType::List(_) => format!("list(nulls={nulls} offsets={:?} values={})", a.as_list::<i32>().value_offsets(), physical(a.as_list::<i32>().values().as_ref())),
        DataType::FixedSizeList(_, _) => format!("fsl(nulls={nulls} values={})", physical(a.as_fixed_size_list().values().as_ref())),
        _ => "?".into(),
    }
}

fn describe(a: &dyn Array, sliced: bool) -> Value {
    json!({"physical": physical(a), "type": format!("{}", a.data_type()), "sliced": sliced, "rows": show_rows(&logical(a))})
}

// ---------------------------------------------------------------------------------------------
// single-array helpers
// ---------------------------------------------------------------------------------------------

fn projections(ty: &Ty) -> Vec<Ty> {
    match ty {
        Ty::Struct(fields) => {
            let mut out = vec![];
            let subs: Vec<Vec<Ty>> = fields.iter().map(|(_, t)| projections(t)).collect();
            for mask in vcore::smallx::subsets(fields.len()) {
                let idx = vcore::smallx::mask_to_vec(mask, fields.len());
                let dims: Vec<usize> = idx.iter().map(|i| subs[*i].len()).collect();
                vcore::smallx::product(&dims, |ix| {
                    let f: Vec<(String, Ty)> = idx.iter().zip(ix).map(|(i, j)| (fields[*i].0.clone(), subs[*i][*j].clone())).collect();
                    if f.len() == 2 {
                        out.push(Ty::Struct(vec![f[1].clone(), f[0].clone()]));
                    }
                    out.push(Ty::Struct(f));
                    true
                });
                if idx.is_empty() {
                    out.push(Ty::Struct(vec![]));
                }
            }
            out.sort_by_key(|t| t.name());
            out.dedup();
            out
        }
        other => vec![other.clone()],
    }
}

fn project_model(v: &V, from: &Ty, to: &Ty) -> V {
    match (v, from, to) {
        (V::Null, _, _) => V::Null,
        (V::S(fs), Ty::Struct(ff), Ty::Struct(tf)) => V::S(
            tf.iter()
                .map(|(n, t)| {
                    let k = ff.iter().position(|(fnm, _)| fnm == n).unwrap();
                    (n.clone(), project_model(&fs[k].1, &ff[k].1, t))
                })
                .collect(),
        ),
        (other, _, _) => other.clone(),
    }
}

fn single_helpers(s: &mut Sink, ty: &Ty, arr: &ArrayRef, sliced: bool, take_max: usize, case_id: u64) {
    let n = arr.len();
    let rows = logical(arr.as_ref());
    let tyname = ty.name();
    let shape = |extra: &str| format!("{}{}{}", tyname, if sliced { "/sliced" } else { "" }, extra);
    let nontrivial = rows.iter().any(|r| *r == V::Null) && rows.iter().any(|r| *r != V::Null) || contains_inner_null(&rows);
    s.cov.eval(if nontrivial { Some(case_id) } else { None });

    // deep copies
    for (name, f) in [
        ("deep_copy_array", deep_copy_array as fn(&dyn Array) -> ArrayRef),
        ("deep_copy_array_sliced", deep_copy_array_sliced as fn(&dyn Array) -> ArrayRef),
    ] {
        s.cov.evaluations += 1;
        match vcore::catch(|| f(arr.as_ref())) {
            Ok(c) => {
                let got = vcore::catch(|| logical(c.as_ref()));
                if c.data_type() != arr.data_type() || got.as_ref().ok() != Some(&rows) {
                    s.bad(name, &shape(""), format!("{name} changed logical values: input [{}] output {:?}", show_rows(&rows), got.map(|g| show_rows(&g))), json!({"helper": name, "input": describe(arr.as_ref(), sliced)}));
                }
            }
            Err(m) => s.bad(name, &shape("/panic"), format!("{name} panicked: {m}"), json!({"helper": name, "input": describe(arr.as_ref(), sliced)})),
        }
    }
    let ids: ArrayRef = Arc::new(Int32Array::from((0..n as i32).collect::<Vec<_>>()));
    let batch = batch_of(vec![("c", arr.clone()), ("id", ids)]);
    for (name, f) in [
        ("deep_copy_batch", deep_copy_batch as fn(&RecordBatch) -> std::result::Result<RecordBatch, arrow_schema::ArrowError>),
        ("deep_copy_batch_sliced", deep_copy_batch_sliced as fn(&RecordBatch) -> std::result::Result<RecordBatch, arrow_schema::ArrowError>),
        ("shrink_to_fit", (|b: &RecordBatch| b.shrink_to_fit()) as fn(&RecordBatch) -> std::result::Result<RecordBatch, arrow_schema::ArrowError>),
    ] {
        s.cov.evaluations += 1;
        match vcore::catch(|| f(&batch)) {
            Ok(Ok(c)) => {
                if batch_logical(&c) != batch_logical(&batch) {
                    s.bad(name, &shape(""), format!("{name} changed logical values of [{}]", show_rows(&rows)), json!({"helper": name, "input": describe(arr.as_ref(), sliced)}));
                }
            }
            Ok(Err(e)) => s.bad(name, &shape("/error"), format!("{name} failed: {e}"), json!({"helper": name, "input": describe(arr.as_ref(), sliced)})),
            Err(m) => s.bad(name, &shape("/panic"), format!("{name} panicked: {m}"), json!({"helper": name, "input": describe(arr.as_ref(), sliced)})),
        }
    }

    // take: every index list of length <= take_max
    if n > 0 {
        for idx in vcore::smallx::sequences(n, 0, take_max) {
            s.cov.evaluations += 1;
            let ia = UInt32Array::from(idx.iter().map(|i| *i as u32).collect::<Vec<_>>());
            let want: Vec<V> = idx.iter().map(|i| rows[*i].clone()).collect();
            match vcore::catch(|| batch.take(&ia)) {
                Ok(Ok(t)) => {
                    let got = logical(t.column(0).as_ref());
                    let got_ids = logical(t.column(1).as_ref());
                    let want_ids: Vec<V> = idx.iter().map(|i| V::I(*i as i32)).collect();
                    if got != want || got_ids != want_ids {
                        s.bad("take", &shape(""), format!("take({idx:?}) of [{}] gave [{}]", show_rows(&rows), show_rows(&got)), json!({"helper": "take", "indices": idx, "input": describe(arr.as_ref(), sliced)}));
                    }
                }
                Ok(Err(e)) => s.bad("take", &shape("/error"), format!("take({idx:?}) failed: {e}"), json!({"helper": "take", "indices": idx, "input": describe(arr.as_ref(), sliced)})),
                Err(m) => s.bad("take", &shape("/panic"), format!("take({idx:?}) panicked: {m}"), json!({"helper": "take", "indices": idx, "input": describe(arr.as_ref(), sliced)})),
            }
        }
    }

    // project_by_schema
    if let Ty::Struct(_) = ty {
        for p in projections(ty) {
            s.cov.evaluations += 1;
            let schema = Schema::new(vec![Field::new("c", p.dt(), true)]);
            let want: Vec<V> = rows.iter().map(|r| project_model(r, ty, &p)).collect();
            match vcore::catch(|| batch.project_by_schema(&schema)) {
                Ok(Ok(t)) => {
                    s.cov.outcome("project:ok");
                    let got = logical(t.column(0).as_ref());
                    if got != want || t.num_columns() != 1 {
                        s.bad("project_by_schema", &shape(""), format!("project to {} of [{}] gave [{}], model [{}]", p.name(), show_rows(&rows), show_rows(&got), show_rows(&want)), json!({"helper": "project_by_schema", "to": p.name(), "input": describe(arr.as_ref(), sliced)}));
                    }
                }
                Ok(Err(_)) => s.cov.outcome("project:rejected"),
                Err(m) => s.bad("project_by_schema", &shape("/panic"), format!("project to {} panicked: {m}", p.name()), json!({"helper": "project_by_schema", "to": p.name(), "input": describe(arr.as_ref(), sliced)})),
            }
        }
        // pushdown_nulls is not one of the helpers the property names: observed, not judged
        let sa = arr.as_struct();
        let obs = match vcore::catch(|| sa.pushdown_nulls()) {
            Ok(Ok(p)) => {
                let pushed = p.columns().iter().all(|c| matches!(c.data_type(), DataType::Struct(_)) || (0..p.len()).all(|i| p.is_valid(i) || c.is_null(i)));
                if logical(&p) != rows {
                    "values-changed"
                } else if !pushed {
                    "not-pushed"
                } else {
                    "ok"
                }
            }
            Ok(Err(_)) => "error",
            Err(_) => "panic",
        };
        s.cov.outcome(&format!("not-judged:pushdown_nulls/{obs}"));
    }

    // list helpers
    if let Ty::List(_) = ty {
        let la = arr.as_list::<i32>();
        s.cov.evaluations += 2;
        match vcore::catch(|| la.filter_garbage_nulls()) {
            Ok(f) => {
                let got = logical(&f);
                let valid_total: usize = (0..la.len()).filter(|i| la.is_valid(*i)).map(|i| la.value_length(i) as usize).sum();
                let zero_len_nulls = (0..f.len()).all(|i| f.is_valid(i) || f.value_length(i) == 0);
                if got != rows {
                    s.bad("filter_garbage_nulls", &shape(""), format!("filter_garbage_nulls changed [{}] into [{}]", show_rows(&rows), show_rows(&got)), json!({"helper": "filter_garbage_nulls", "input": describe(arr.as_ref(), sliced)}));
                } else if la.nulls().is_some() && !la.is_empty() && (!zero_len_nulls || f.values().len() != valid_total) {
                    s.bad("filter_garbage_nulls", &shape("/garbage-left"), format!("filter_garbage_nulls left garbage: values len {} (valid items {valid_total}), zero-length nulls {zero_len_nulls}", f.values().len()), json!({"helper": "filter_garbage_nulls", "input": describe(arr.as_ref(), sliced)}));
                }
            }
            Err(m) => s.bad("filter_garbage_nulls", &shape("/panic"), format!("filter_garbage_nulls panicked: {m}"), json!({"helper": "filter_garbage_nulls", "input": describe(arr.as_ref(), sliced)})),
        }
        match vcore::catch(|| la.trimmed_values()) {
            Ok(t) => {
                let offs = la.value_offsets();
                let (first, last) = (offs[0] as usize, offs[offs.len() - 1] as usize);
                let all = logical(la.values().as_ref());
                let got = logical(t.as_ref());
                if got != all[first..last] {
                    s.bad("trimmed_values", &shape(""), format!("trimmed_values gave [{}], values[{first}..{last}] are [{}]", show_rows(&got), show_rows(&all[first..last])), json!({"helper": "trimmed_values", "input": describe(arr.as_ref(), sliced)}));
                }
            }
            Err(m) => s.bad("trimmed_values", &shape("/panic"), format!("trimmed_values panicked: {m}"), json!({"helper": "trimmed_values", "input": describe(arr.as_ref(), sliced)})),
        }
    }
}

fn contains_inner_null(rows: &[V]) -> bool {
    fn inner(v: &V, top: bool) -> bool {
        match v {
            V::Null => !top,
            V::I(_) => false,
            V::S(f) => f.iter().any(|(_, x)| inner(x, false)),
            V::L(l) => l.iter().any(|x| inner(x, false)),
        }
    }
    rows.iter().any(|r| inner(r, true))
}

// ---------------------------------------------------------------------------------------------
// merge
// ---------------------------------------------------------------------------------------------

/// null value of a type under a *valid* parent: structs/lists/ints are all simply Null
/// `plain_merge`: `merge()` (as opposed to `merge_with_schema()`) uses the left column as is when
/// both sides have a List<Struct> column of identical type ("nothing to merge, use left")
fn merge_model(l: &V, r: &V, lt: &Ty, rt: &Ty, plain_merge: bool) -> V {
    match (lt, rt) {
        (Ty::Struct(lf), Ty::Struct(rf)) => {
            let (ls, rs) = (matches!(l, V::S(_)), matches!(r, V::S(_)));
            if !ls && !rs {
                return V::Null;
            }
            let lv = |k: usize| -> V {
                match l {
                    V::S(f) => f[k].1.clone(),
                    _ => V::Null,
                }
            };
            let rv = |k: usize| -> V {
                match r {
                    V::S(f) => f[k].1.clone(),
                    _ => V::Null,
                }
            };
            let mut out = vec![];
            for (k, (n, t)) in lf.iter().enumerate() {
                match rf.iter().position(|(rn, _)| rn == n) {
                    Some(j) => out.push((n.clone(), merge_model(&lv(k), &rv(j), t, &rf[j].1, plain_merge))),
                    None => out.push((n.clone(), lv(k))),
                }
            }
            for (j, (n, _)) in rf.iter().enumerate() {
                if !lf.iter().any(|(ln, _)| ln == n) {
                    out.push((n.clone(), rv(j)));
                }
            }
            V::S(out)
        }
        (Ty::List(lc), Ty::List(rc)) if plain_merge && lc == rc => l.clone(),
        (Ty::List(lc), Ty::List(rc)) if matches!(**lc, Ty::Struct(_)) && matches!(**rc, Ty::Struct(_)) => match (l, r) {
            (V::L(li), V::L(ri)) if li.len() == ri.len() => V::L(li.iter().zip(ri).map(|(a, b)| merge_model(a, b, lc, rc, plain_merge)).collect()),
            (V::Null, V::Null) => V::Null,
            _ => unreachable!("list merge inputs are generated consistent"),
        },
        _ => l.clone(),
    }
}

fn merged_ty(lt: &Ty, rt: &Ty) -> Ty {
    match (lt, rt) {
        (Ty::Struct(lf), Ty::Struct(rf)) => {
            let mut out = vec![];
            for (n, t) in lf {
                match rf.iter().find(|(rn, _)| rn == n) {
                    Some((_, rt2)) => out.push((n.clone(), merged_ty(t, rt2))),
                    None => out.push((n.clone(), t.clone())),
                }
            }
            for (n, t) in rf {
                if !lf.iter().any(|(ln, _)| ln == n) {
                    out.push((n.clone(), t.clone()));
                }
            }
            Ty::Struct(out)
        }
        (Ty::List(lc), Ty::List(rc)) => Ty::List(Box::new(merged_ty(lc, rc))),
        _ => lt.clone(),
    }
}

struct MergeScn {
    name: &'static str,
    left: Ty,
    right: Ty,
    n_max: usize,
    /// largest n for which sliced inputs (slice(1,n) of n+1 rows) are enumerated too
    n_max_sliced: usize,
    /// lists: right must share offsets and list validity with left
    list: bool,
}

fn merge_scenarios(thorough: bool) -> Vec<MergeScn> {
    vec![
        MergeScn { name: "struct-split", left: st(&[("a", Ty::Int)]), right: st(&[("b", Ty::Int)]), n_max: 3, n_max_sliced: 2, list: false },
        MergeScn { name: "struct-overlap", left: st(&[("a", Ty::Int), ("b", Ty::Int)]), right: st(&[("b", Ty::Int), ("c", Ty::Int)]), n_max: if thorough { 3 } else { 2 }, n_max_sliced: if thorough { 2 } else { 1 }, list: false },
        MergeScn { name: "nested-struct-split", left: st(&[("a", Ty::Int), ("t", st(&[("x", Ty::Int)]))]), right: st(&[("t", st(&[("y", Ty::Int)]))]), n_max: 2, n_max_sliced: 1, list: false },
        MergeScn { name: "list-struct-split", left: Ty::List(Box::new(st(&[("x", Ty::Int)]))), right: Ty::List(Box::new(st(&[("y", Ty::Int)]))), n_max: 2, n_max_sliced: 1, list: true },
        MergeScn { name: "list-struct-same", left: Ty::List(Box::new(st(&[("x", Ty::Int)]))), right: Ty::List(Box::new(st(&[("x", Ty::Int)]))), n_max: 2, n_max_sliced: 1, list: true },
    ]
}

fn list_shape(a: &ArrayRef) -> (Vec<i32>, Vec<bool>) {
    let l = a.as_list::<i32>();
    let o = l.value_offsets();
    ((0..l.len()).map(|i| o[i + 1] - o[i]).collect(), (0..l.len()).map(|i| l.is_valid(i)).collect())
}

fn validity_class(l: &[V], r: &[V]) -> &'static str {
    let ln: Vec<bool> = l.iter().map(|v| *v == V::Null).collect();
    let rn: Vec<bool> = r.iter().map(|v| *v == V::Null).collect();
    if ln.is_empty() {
        return "empty";
    }
    let all_l = ln.iter().all(|b| *b);
    let all_r = rn.iter().all(|b| *b);
    if all_l && all_r {
        "both-all-null"
    } else if all_l || all_r {
        "one-side-all-null"
    } else if ln.iter().zip(&rn).any(|(a, b)| *a && *b) {
        "some-row-both-null"
    } else if ln.iter().any(|b| *b) || rn.iter().any(|b| *b) {
        "some-null"
    } else {
        "no-top-null"
    }
}

/// visit every pair of struct / list arrays that merge()/merge_with_schema() match up, together with
/// per-slot masks "all ancestors valid" for either side
#[allow(clippy::too_many_arguments)]
fn matched_levels(l: &dyn Array, r: &dyn Array, lt: &Ty, rt: &Ty, lmask: &[bool], rmask: &[bool], depth: usize, untrimmed: bool, f: &mut dyn FnMut(&dyn Array, &dyn Array, &[bool], &[bool], usize)) {
    let below = |a: &dyn Array, m: &[bool]| -> Vec<bool> { (0..a.len()).map(|i| m[i] && a.is_valid(i)).collect() };
    match (lt, rt) {
        (Ty::Struct(lf), Ty::Struct(rf)) => {
            let (ls, rs) = (l.as_struct(), r.as_struct());
            f(l, r, lmask, rmask, depth);
            let (lm, rm) = (below(l, lmask), below(r, rmask));
            for (k, (n, t)) in lf.iter().enumerate() {
                if let Some(j) = rf.iter().position(|(rn, _)| rn == n) {
                    matched_levels(ls.column(k).as_ref(), rs.column(j).as_ref(), t, &rf[j].1, &lm, &rm, depth + 1, untrimmed, f);
                }
            }
        }
        (Ty::List(lc), Ty::List(rc)) => {
            let (ll, rl) = (l.as_list::<i32>(), r.as_list::<i32>());
            f(l, r, lmask, rmask, depth);
            // merge() hands the whole values arrays of both lists to the struct merge (items outside a
            // slice included); merge_with_schema() trims them first
            let (lv, rv) = if untrimmed { (ll.values().clone(), rl.values().clone()) } else { (ll.trimmed_values(), rl.trimmed_values()) };
            if untrimmed && lv.len() == rv.len() {
                let all = vec![true; lv.len()];
                matched_levels(lv.as_ref(), rv.as_ref(), lc, rc, &all, &all, depth + 1, untrimmed, f);
            } else if lv.len() == rv.len() {
                let item_mask = |a: &ListArray, m: &[bool]| -> Vec<bool> {
                    let mut out = vec![];
                    for i in 0..a.len() {
                        for _ in 0..a.value_length(i) {
                            out.push(m[i] && a.is_valid(i));
                        }
                    }
                    out
                };
                matched_levels(lv.as_ref(), rv.as_ref(), lc, rc, &item_mask(ll, lmask), &item_mask(rl, rmask), depth + 1, untrimmed, f);
            }
        }
        _ => {}
    }
}

/// structural root-cause class of a failing merge input (used as classification key); evaluated on
/// the unsliced twin of the input
fn merge_cause(la: &ArrayRef, ra: &ArrayRef, lt: &Ty, rt: &Ty, untrimmed: bool) -> &'static str {
    let mut both_all_null = false;
    let mut absent_vs_nulls = false;
    let mut valid_under_null_parent = false;
    let (lm, rm) = (vec![true; la.len()], vec![true; ra.len()]);
    matched_levels(la.as_ref(), ra.as_ref(), lt, rt, &lm, &rm, 0, untrimmed, &mut |l, r, lmask, rmask, depth| {
        let n = l.len();
        if n == 0 {
            return;
        }
        if l.null_count() == n && r.null_count() == n {
            both_all_null = true;
        }
        let partial = |x: &dyn Array| x.null_count() > 0 && x.null_count() < n;
        if (l.nulls().is_none() && partial(r)) || (r.nulls().is_none() && partial(l)) {
            absent_vs_nulls = true;
        }
        if depth > 0 && ((0..n).any(|i| !lmask[i] && l.is_valid(i)) || (0..n).any(|i| !rmask[i] && r.is_valid(i))) {
            valid_under_null_parent = true;
        }
    });
    if both_all_null {
        "struct-null-on-both-sides-in-every-row-becomes-valid"
    } else if absent_vs_nulls {
        "side-without-null-buffer-loses-to-partly-null-side"
    } else if valid_under_null_parent {
        "nested-struct-valid-under-null-parent-not-masked"
    } else {
        "other"
    }
}

/// the same array re-built at offset 0 with zero-based list offsets, keeping at every level whether a
/// null buffer is present (so only the *slicing* of the representation changes)
fn rebuild(a: &dyn Array) -> ArrayRef {
    let nulls = a.nulls().map(|n| NullBuffer::from(n.iter().collect::<Vec<bool>>()));
    match a.data_type() {
        DataType::Int32 => {
            let p = a.as_primitive::<Int32Type>();
            Arc::new(Int32Array::new(ScalarBuffer::from(p.values().to_vec()), nulls))
        }
        DataType::Struct(f) => {
            let s = a.as_struct();
            if f.is_empty() {
                return Arc::new(StructArray::new_empty_fields(s.len(), nulls));
            }
            Arc::new(StructArray::new(f.clone(), s.columns().iter().map(|c| rebuild(c.as_ref())).collect(), nulls))
        }
        DataType::List(f) => {
            let l = a.as_list::<i32>();
            let o = l.value_offsets();
            let offs: Vec<i32> = o.iter().map(|x| x - o[0]).collect();
            Arc::new(ListArray::new(f.clone(), OffsetBuffer::new(ScalarBuffer::from(offs)), rebuild(l.trimmed_values().as_ref()), nulls))
        }
        DataType::FixedSizeList(f, sz) => {
            let l = a.as_fixed_size_list();
            Arc::new(FixedSizeListArray::new(f.clone(), *sz, rebuild(l.values().as_ref()), nulls))
        }
        other => panic!("rebuild: unsupported {other}"),
    }
}

/// run one helper on one pair; Ok(None) = agrees with the model
#[allow(clippy::too_many_arguments)]
fn merge_once(helper: &str, scn: &MergeScn, schema: &Schema, la: &ArrayRef, ra: &ArrayRef, p: &ArrayRef, q: &ArrayRef, want: &[V]) -> Option<(String, String)> {
    let lb = batch_of(vec![("c", la.clone()), ("p", p.clone())]);
    let rb = batch_of(vec![("c", ra.clone()), ("q", q.clone())]);
    let res = vcore::catch(|| if helper == "merge" { lb.merge(&rb) } else { lb.merge_with_schema(&rb, schema) });
    match res {
        Ok(Ok(m)) => {
            let names: Vec<String> = m.schema().fields().iter().map(|f| f.name().clone()).collect();
            if names != ["c", "p", "q"] {
                return Some(("columns".into(), format!("{helper} produced columns {names:?}, expected [c, p, q]")));
            }
            let got = vcore::catch(|| logical(m.column(0).as_ref()));
            let pq_ok = logical(m.column(1).as_ref()) == logical(p.as_ref()) && logical(m.column(2).as_ref()) == logical(q.as_ref());
            if got.as_ref().ok().map(|g| g.as_slice()) != Some(want) || !pq_ok {
                return Some((
                    "values".into(),
                    format!("gave [{}], model [{}]", got.map(|g| show_rows(&g)).unwrap_or_else(|e| format!("unreadable: {e}")), show_rows(want)),
                ));
            }
            None
        }
        Ok(Err(e)) => Some(("error".into(), format!("{helper} failed on mergeable input ({}): {e}", scn.name))),
        Err(m) => Some(("panic".into(), format!("{helper} panicked: {m}"))),
    }
}

#[allow(clippy::too_many_arguments)]
fn run_merge(s: &mut Sink, scn: &MergeScn, si: usize, n: usize, lefts: &[(usize, ArrayRef, bool)], rights: &[(ArrayRef, bool)], deadline: &dyn Fn() -> bool) -> bool {
    let mt = merged_ty(&scn.left, &scn.right);
    let schema = Schema::new(vec![Field::new("c", mt.dt(), true), Field::new("p", DataType::Int32, true), Field::new("q", DataType::Int32, true)]);
    let p: ArrayRef = Arc::new(Int32Array::from((0..n as i32).map(|i| 7000 + i).collect::<Vec<_>>()));
    let q: ArrayRef = Arc::new(Int32Array::from((0..n as i32).map(|i| 8000 + i).collect::<Vec<_>>()));
    let rshapes: Vec<Option<(Vec<i32>, Vec<bool>, Vec<i32>)>> = rights
        .iter()
        .map(|(ra, _)| if scn.list { let (a, b) = list_shape(ra); Some((a, b, ra.as_list::<i32>().value_offsets().to_vec())) } else { None })
        .collect();
    let rrows_all: Vec<Vec<V>> = rights.iter().map(|(ra, _)| logical(ra.as_ref())).collect();
    for (li, la, lsl) in lefts {
        if deadline() {
            return false;
        }
        let lrows = logical(la.as_ref());
        let lshape = if scn.list { let (a, b) = list_shape(la); Some((a, b, la.as_list::<i32>().value_offsets().to_vec())) } else { None };
        for (ri, (ra, rsl)) in rights.iter().enumerate() {
            // lists: consistent projections of one logical list (same lengths and validity) and, for
            // the offsets-must-match contract of merge(), the same physical offsets
            if scn.list && rshapes[ri] != lshape {
                continue;
            }
            let rrows = &rrows_all[ri];
            let want_schema: Vec<V> = lrows.iter().zip(rrows).map(|(a, b)| merge_model(a, b, &scn.left, &scn.right, false)).collect();
            let want_plain: Vec<V> = lrows.iter().zip(rrows).map(|(a, b)| merge_model(a, b, &scn.left, &scn.right, true)).collect();
            let vclass = validity_class(&lrows, rrows);
            let nontrivial = vclass != "no-top-null" && vclass != "empty";
            let h = ((si as u64) << 56) | ((n as u64) << 48) | ((*li as u64) << 24) | ri as u64;
            s.cov.eval(if nontrivial { Some(h) } else { None });
            s.cov.outcome(&format!("merge-input:{vclass}"));
            for helper in ["merge", "merge_with_schema"] {
                let want = if helper == "merge" { &want_plain } else { &want_schema };
                s.cov.evaluations += 1;
                let Some((kind, detail)) = merge_once(helper, scn, &schema, la, ra, &p, &q, want) else { continue };
                // ---- root cause, derived from the input shape that is necessary for the failure ----
                // the unsliced twin has the same values and null-buffer presence at offset 0 with
                // zero-based list offsets: if it merges correctly, slicing is what breaks the input
                let (lt2, rt2) = (rebuild(la.as_ref()), rebuild(ra.as_ref()));
                let sliced = *lsl || *rsl;
                let twin_ok = sliced && merge_once(helper, scn, &schema, &lt2, &rt2, &p, &q, want).is_none();
                let cause = if kind == "columns" {
                    "identical-list-struct-column-emitted-twice"
                } else if twin_ok {
                    if !scn.list {
                        "sliced-struct-child-validity-misaligned"
                    } else if helper == "merge_with_schema" {
                        "sliced-list-offsets-not-rebased"
                    } else {
                        // merge() sees the items outside the slice too: classify on the whole values arrays
                        match merge_cause(la, ra, &scn.left, &scn.right, true) {
                            "other" => "sliced-list-of-struct",
                            c => c,
                        }
                    }
                } else {
                    merge_cause(&lt2, &rt2, &scn.left, &scn.right, false)
                };
                let key_shape = cause.to_string();
                let detail = format!("{detail} [{kind}; {} columns, scenario {}]", if scn.list { "list-of-struct" } else { "struct" }, scn.name);
                s.cov.outcome(&format!("merge-failure:{cause}:{helper}:{kind}"));
                s.bad(
                    "merge",
                    &key_shape,
                    format!("{helper}: left [{}] right [{}] {detail}", show_rows(&lrows), show_rows(rrows)),
                    json!({"helper": helper, "scenario": scn.name, "n": n, "left_index": li, "right_index": ri, "left": describe(la.as_ref(), *lsl), "right": describe(ra.as_ref(), *rsl)}),
                );
            }
        }
    }
    true
}

// ---------------------------------------------------------------------------------------------

fn single_types() -> Vec<(Ty, usize, usize)> {
    // (type, max n, max take-list length)
    vec![
        (Ty::Int, 3, 3),
        (st(&[("a", Ty::Int), ("b", Ty::Int)]), 3, 3),
        (st(&[("a", Ty::Int), ("s", st(&[("x", Ty::Int)]))]), 2, 2),
        (Ty::List(Box::new(Ty::Int)), 3, 2),
        (Ty::Fsl(Box::new(Ty::Int)), 2, 2),
        (Ty::List(Box::new(st(&[("x", Ty::Int), ("y", Ty::Int)]))), 2, 2),
        (st(&[("l", Ty::List(Box::new(Ty::Int)))]), 2, 2),
    ]
}

pub fn run(ctx: &Ctx) -> Outcome {
    let mut out = Outcome::new("exploration");
    let thorough = !ctx.quick();
    let start = std::time::Instant::now();
    let wall_cap = ctx.tier.pick(40.0, 800.0);
    let capped = std::sync::atomic::AtomicBool::new(false);
    let replay_key: Option<String> = ctx.replay_case().and_then(|a| a["key"].as_str().map(|s| s.to_string()));

    // work items
    enum Item {
        Single(usize, Ty, usize, usize, (usize, usize)),
        Merge(usize, usize, Vec<(usize, ArrayRef, bool)>, Arc<Vec<(ArrayRef, bool)>>),
    }
    let mut items: Vec<Item> = vec![];
    for (ti, (ty, nmax, tk)) in single_types().into_iter().enumerate() {
        let nmax = if thorough { nmax } else { nmax.min(if matches!(ty, Ty::Int) { 3 } else { 2 }) };
        for n in 0..=nmax {
            items.push(Item::Single(ti, ty.clone(), n, tk, (0, 0)));
            if let Ty::List(_) = ty {
                for pad in [(1, 0), (0, 1), (1, 1)] {
                    items.push(Item::Single(ti, ty.clone(), n, 1, pad));
                }
            }
        }
    }
    let scns = merge_scenarios(thorough);
    for (si, scn) in scns.iter().enumerate() {
        for n in 0..=scn.n_max {
            let lefts: Vec<(usize, ArrayRef, bool)> = inputs(&scn.left, n, 0, (0, 0), n <= scn.n_max_sliced).into_iter().enumerate().map(|(i, (a, b))| (i, a, b)).collect();
            let rights = Arc::new(inputs(&scn.right, n, 50, (0, 0), n <= scn.n_max_sliced));
            for ch in lefts.chunks(lefts.len().div_ceil(ctx.workers * 2).max(1)) {
                items.push(Item::Merge(si, n, ch.to_vec(), rights.clone()));
            }
        }
    }

    let deadline = || start.elapsed().as_secs_f64() > wall_cap;
    let results = vcore::par_map(items, ctx.workers, |_, item| {
        let mut s = Sink::new();
        if deadline() {
            capped.store(true, std::sync::atomic::Ordering::SeqCst);
            return s;
        }
        match item {
            Item::Single(ti, ty, n, tk, pad) => {
                let sliced_too = thorough || n <= 2;
                let ins = inputs(&ty, n, 0, pad, sliced_too);
                *s.cov.outcomes.entry(format!("single-inputs:{}", ty.name())).or_insert(0) += ins.len() as u64;
                for (k, (a, sl)) in ins.iter().enumerate() {
                    if k % 64 == 0 && deadline() {
                        capped.store(true, std::sync::atomic::Ordering::SeqCst);
                        break;
                    }
                    let id = ((ti as u64) << 56) | ((n as u64) << 48) | ((pad.0 as u64) << 44) | ((pad.1 as u64) << 40) | k as u64;
                    single_helpers(&mut s, &ty, a, *sl, tk, id);
                    if k == ins.len() / 2 {
                        s.cov.sample(json!({"helper-family": "single", "input": describe(a.as_ref(), *sl)}));
                    }
                }
            }
            Item::Merge(si, n, lefts, rights) => {
                if !run_merge(&mut s, &scns[si], si, n, &lefts, &rights, &deadline) {
                    capped.store(true, std::sync::atomic::Ordering::SeqCst);
                }
                if let (Some(l), Some(r)) = (lefts.last(), rights.last()) {
                    s.cov.sample(json!({"helper-family": "merge", "scenario": scns[si].name, "left": describe(l.1.as_ref(), l.2), "right": describe(r.0.as_ref(), r.1)}));
                }
            }
        }
        s
    });
    let mut cov = Cov::new();
    let mut viol = vec![];
    let mut counts: std::collections::BTreeMap<String, u64> = Default::default();
    // ---- JSON helpers (one sequential pass, cheap) ----
    {
        let before = cov.evaluations;
        crate::c40_json::run(&mut cov, &mut viol);
        out.set("json_evaluations", cov.evaluations - before);
        out.set("json_documents", crate::c40_json::documents().len() as u64);
        for v in &viol {
            *counts.entry(v.key.clone()).or_insert(0) += 1;
        }
    }
    for s in results {
        cov.merge(s.cov);
        viol.extend(s.viol);
        for (k, v) in s.per_key {
            *counts.entry(k).or_insert(0) += v;
        }
    }
    // smallest inputs first per key
    viol.sort_by_key(|v| (v.key.clone(), v.case["n"].as_u64().unwrap_or(0), v.case.to_string().len()));
    if let Some(key) = replay_key {
        // replay = re-run the (cheap, deterministic) tier and keep the recorded key
        viol.retain(|v| v.key == key);
    }
    let capped = capped.load(std::sync::atomic::Ordering::SeqCst);
    cov.fill(
        &mut out,
        "one case = one input array (single-array helpers) or one (left,right) array pair (merge); arrays are all nested arrays of the type family with n<=3 rows (2 for nested), every validity pattern per level (4 patterns below lists when >2 slots), unsliced and slice(1,n); non-trivial = the input has a null row and a non-null row or a null below the top level (single) / some top-level struct or list null on either side (merge)",
        !capped,
    );
    out.set("violation_counts", json!(counts));
    if capped {
        out.set("cap_hit", "wall cap reached; remaining work items skipped");
    }
    out.assume("model: value trees read by the harness's own `logical()`; struct merge semantics taken from lance-arrow's documentation/tests: a merged struct row is null iff it is null on both sides, children coming from a null side are null, left wins for same-named non-struct fields; a missing null buffer means all-valid (Arrow semantics)");
    out.assume("list<struct> merge inputs are restricted to the consistent case (same offsets and list validity on both sides) which is the documented contract of merge(); project_by_schema returning Err (list-of-struct sub-projection is a documented TODO) is counted, not judged");
    out.assume("leaf type is Int32 only; LargeList / Utf8 / dictionary children are not enumerated; arrow's own `take` is trusted to compact a sliced input when classifying a failure as slice-specific");
    out.violations = viol;
    out
}
