//! C17 - change data feed and version columns (tables with stable row ids).
//! Per state: for every visible row, _row_created_at_version == the version in which its row id was
//! first observed (ledger over all versions of the path) and _row_last_updated_at_version == the
//! last version in which the model's update / upsert / column rewrite targeted the uid; for ALL
//! pairs b < e (e = the new version) `delta(b, e)` inserted == rows created in (b, e], updated ==
//! rows created <= b and last updated in (b, e]. A wrong column is reported once per (uid, column);
//! deltas are judged only in states whose version columns agree with the model.

use crate::engine::*;
use crate::profile::*;
use vcore::{Ctx, Outcome};

fn alphabet() -> Vec<Gen> {
    vec![
        one(Op::Append { n: 1, mrpf: 1000 }),
        one(Op::Update { s: S::VZ, p: P::UidGe(3) }),
        one(Op::Update { s: S::KInc, p: P::K0 }),
        one(Op::MergeFull { hit: 1, new: 1, sel: Sel::Hi }),
        one(Op::MergePartial { hit: 2, sel: Sel::Lo }),
        one(Op::Delete { p: P::UidEven }),
        compact(1_000_000, true, false),
    ]
}

pub fn run(ctx: &Ctx) -> Outcome {
    let q = ctx.quick();
    let specs = vec![Spec {
        name: "histories",
        roots: if q { vec![("L2", true), ("L3", true)] } else { vec![("L1", true), ("L2", true), ("L3", true)] },
        alphabet: alphabet(),
        depth: if q { 3 } else { 5 },
    }];
    run_check(ctx, "C17", Oracles { cdf: true, structure: true, ..Default::default() }, specs, &[
        "a row counts as updated when the op's predicate / merge key selects it, whether or not the written value differs",
        "delta(b, e) is evaluated on a handle checked out at e",
    ])
}
