//! C05 - every committed version is internally well formed.
//! Oracle O-struct (vds::structure::check_struct) on every version committed by every step; a panic
//! of a public API on accepted input and a latest version that cannot be opened / scanned are owned
//! here too. A problem class is reported once, at the op that introduces it.

use crate::engine::*;
use crate::profile::*;
use vcore::{Ctx, Outcome};

/// wide-shallow: the whole write alphabet of the engine
pub fn wide() -> Vec<Gen> {
    vec![
        one(Op::Append { n: 1, mrpf: 1000 }),
        one(Op::Append { n: 3, mrpf: 2 }),
        one(Op::Overwrite { n: 2 }),
        one(Op::Delete { p: P::K0 }),
        one(Op::Delete { p: P::UidLt(2) }),
        one(Op::Delete { p: P::True }),
        one(Op::Update { s: S::KInc, p: P::KGe1 }),
        one(Op::Update { s: S::VZ, p: P::UidEven }),
        one(Op::MergeFull { hit: 1, new: 1, sel: Sel::Hi }),
        one(Op::MergePartial { hit: 2, sel: Sel::Lo }),
        compact(1_000_000, true, false),
        compact(2, false, false),
        compact(1_000_000, true, true),
        one(Op::CreateIndexK),
        one(Op::Optimize),
        Gen::RestoreAny,
    ]
}

/// narrow-deep
pub fn narrow() -> Vec<Gen> {
    vec![
        one(Op::Append { n: 2, mrpf: 1000 }),
        one(Op::Delete { p: P::UidEven }),
        one(Op::Update { s: S::KInc, p: P::KGe1 }),
        compact(1_000_000, true, false),
        one(Op::MergePartial { hit: 2, sel: Sel::Hi }),
    ]
}

/// index creation after row rewrites (stable row id sequences with holes)
pub fn index_after_rewrite() -> Vec<Gen> {
    vec![
        one(Op::Update { s: S::KInc, p: P::KGe1 }),
        one(Op::Delete { p: P::K0 }),
        compact(1_000_000, true, false),
        one(Op::CreateIndexK),
    ]
}

pub fn run(ctx: &Ctx) -> Outcome {
    let q = ctx.quick();
    let specs = vec![
        Spec {
            name: "wide-shallow",
            roots: if q { vec![("L2", false), ("L2", true)] } else { vec![("L1", false), ("L2", false), ("L2", true)] },
            alphabet: wide(),
            depth: if q { 2 } else { 3 },
        },
        Spec {
            name: "narrow-deep",
            roots: if q { vec![("L2", true)] } else { vec![("L2", false), ("L2", true)] },
            alphabet: narrow(),
            depth: if q { 4 } else { 6 },
        },
    ];
    let mut specs = specs;
    specs.insert(0, Spec {
        name: "index-after-rewrite",
        roots: vec![("L2", true)],
        alphabet: index_after_rewrite(),
        depth: if q { 3 } else { 5 },
    });
    run_check(ctx, "C05", Oracles { structure: true, ..Default::default() }, specs, &[
        "O-struct = vds::structure::check_struct (schema ids, data-file field ids, physical rows, deletion vectors, fragment ids, row id sequences, index fields, Dataset::validate, count_rows)",
        "concurrent histories of C05 are explored by the K2 engine (vx_txn), not here",
    ])
}
