//! C06 - time travel is immutable.
//! O-snap: a value snapshot (schema, ordered rows, deleted count, config, index list; with stable
//! ids also _rowid and the version columns) of every version is taken right after its commit; after
//! every later op every version that should still exist is opened through a fresh session and
//! compared, tags must resolve to their target's snapshot, versions removed by cleanup must fail to
//! open or still return the same data (never different data).

use crate::engine::*;
use crate::profile::*;
use vcore::{Ctx, Outcome};

fn wide() -> Vec<Gen> {
    vec![
        one(Op::Append { n: 1, mrpf: 1000 }),
        one(Op::Delete { p: P::K0 }),
        one(Op::Update { s: S::KInc, p: P::KGe1 }),
        compact(1_000_000, true, false),
        one(Op::Overwrite { n: 2 }),
        one(Op::CreateIndexK),
        Gen::RestoreAny,
        Gen::TagCreateAny(0),
        Gen::TagUpdateAny(0),
        one(Op::TagDelete { t: 0 }),
        Gen::CleanupAny { unverified: false },
    ]
}

/// tag / branch changes and a rebased (stale-handle) delete that rewrites a deletion file
fn refs() -> Vec<Gen> {
    vec![
        one(Op::Append { n: 1, mrpf: 1000 }),
        one(Op::Delete { p: P::K0 }),
        one(Op::StaleDelete { p: P::KGe1, back: 1 }),
        one(Op::StaleDelete { p: P::UidLt(2), back: 2 }),
        compact(1_000_000, true, false),
        Gen::BranchCreateAny,
        one(Op::BranchAppend { n: 1 }),
        one(Op::BranchDelete),
        Gen::CleanupAny { unverified: false },
    ]
}

fn narrow() -> Vec<Gen> {
    vec![
        one(Op::Append { n: 1, mrpf: 1000 }),
        one(Op::Delete { p: P::UidEven }),
        compact(1_000_000, true, false),
        Gen::RestoreAny,
        Gen::CleanupAny { unverified: true },
    ]
}

pub fn run(ctx: &Ctx) -> Outcome {
    let q = ctx.quick();
    let specs = vec![
        Spec {
            name: "refs-and-rebase",
            roots: if q { vec![("L2", false)] } else { vec![("L2", false), ("L2", true)] },
            alphabet: refs(),
            depth: if q { 3 } else { 4 },
        },
        Spec {
            name: "narrow-deep",
            roots: if q { vec![("L1", true)] } else { vec![("L1", true), ("L2", false)] },
            alphabet: narrow(),
            depth: if q { 4 } else { 6 },
        },
        Spec {
            name: "wide",
            roots: if q { vec![("L2", false)] } else { vec![("L2", false), ("L2", true)] },
            alphabet: wide(),
            depth: if q { 3 } else { 4 },
        },
    ];
    run_check(ctx, "C06", Oracles { snap: true, structure: true, ..Default::default() }, specs, &[
        "cleanup model: cleanup(before_version b) may remove exactly the versions < b that are neither tagged nor the latest; a version it keeps although the model allows removal is counted (cleaned_versions_still_intact), not judged (retention is C08's matter)",
        "one branch (b0) created from any main version, appended to and deleted; its versions are snapshotted and re-read like main's; stale-handle delete = K2 step whose predicate is evaluated on the read version (a conflict error is an accepted outcome)",
    ])
}
