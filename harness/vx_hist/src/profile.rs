//! Common driver of the five property checks: run the shared history engine with the property's
//! profiles (roots x alphabet x depth), collect own findings, foreign findings and counters.
//! `--opt depth=N`, `--opt only=<profile>`, `--opt wall=<seconds>` override the registered sizes
//! (development aid; the registered commands do not use them).

use crate::engine::*;
use vcore::seqx::Caps;
use vcore::{Ctx, Outcome};

pub struct Spec {
    pub name: &'static str,
    pub roots: Vec<(&'static str, bool)>,
    pub alphabet: Vec<Gen>,
    pub depth: usize,
}

pub fn one(op: Op) -> Gen {
    Gen::One(op)
}
pub fn compact(target: usize, mat: bool, defer: bool) -> Gen {
    Gen::One(Op::Compact { o: COpt { target, mat, defer } })
}

pub fn run_check(ctx: &Ctx, property: &'static str, oracles: Oracles, specs: Vec<Spec>, assumptions: &[&str]) -> Outcome {
    if let Some(art) = ctx.replay_case() {
        let h = Hist::new(property, all_roots(), vec![], oracles);
        return replay(&h, &art);
    }
    let mut out = Outcome::new("model_checking");
    let total_wall: f64 = ctx
        .opts
        .get("wall")
        .and_then(|s| s.parse().ok())
        .unwrap_or(ctx.tier.pick(42.0, 840.0));
    let only = ctx.opts.get("only").cloned();
    let depth_override: Option<usize> = ctx.opts.get("depth").and_then(|s| s.parse().ok());
    let specs: Vec<Spec> = specs
        .into_iter()
        .filter(|s| only.as_ref().map(|o| o == s.name).unwrap_or(true))
        .collect();
    let mut runs = vec![];
    let n = specs.len().max(1);
    for (i, s) in specs.into_iter().enumerate() {
        // profiles are listed smallest first; each gets an even share of what is left of the check's
        // wall budget, so what a small profile does not use rolls over to the bigger ones after it
        let left = (total_wall - ctx.elapsed_s()).max(1.0);
        let wall = left / (n - i) as f64;
        let h = Hist::new(property, roots(&s.roots), s.alphabet, oracles.clone());
        let caps = Caps {
            max_depth: depth_override.unwrap_or(s.depth),
            max_states: 3_000_000,
            wall_s: wall,
        };
        runs.push(run_profile(s.name, &h, &caps, ctx.workers));
    }
    finish_profiles(&mut out, runs);
    out.assume("MemStore implements the object_store contract Lance relies on (atomic put / put-if-absent / copy, strongly consistent list)");
    out.assume("reference model: rows keyed by the identity column uid, 3-valued predicate evaluator of vds::pred; states whose table differs from the model are reported as foreign finding C12:scan-model and not expanded");
    out.assume("sequential histories (one writer, fresh session per step); op arguments are the concrete small alphabets named in the profile");
    for a in assumptions {
        out.assume(a);
    }
    out
}
