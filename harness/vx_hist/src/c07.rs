//! C07 - restore reproduces the old version and keeps row identities unique.
//! Oracle 1: right after restore(v) the new latest version equals the snapshot of v (schema, ordered
//! rows, deletions, index list; with stable ids also _rowid and version columns).
//! Oracle 2: ledger row id -> uid over ALL versions ever committed on the path; a row id handed to a
//! second uid after a restore is a violation (uids are never reused by the harness).

use crate::engine::*;
use crate::profile::*;
use vcore::{Ctx, Outcome};

fn alphabet() -> Vec<Gen> {
    vec![
        one(Op::Append { n: 1, mrpf: 1000 }),
        one(Op::Append { n: 2, mrpf: 1 }),
        one(Op::Delete { p: P::UidLt(2) }),
        one(Op::Update { s: S::KInc, p: P::KGe1 }),
        one(Op::MergeFull { hit: 1, new: 1, sel: Sel::Hi }),
        compact(1_000_000, true, false),
        one(Op::CreateIndexK),
        Gen::RestoreAny,
    ]
}

fn narrow() -> Vec<Gen> {
    vec![
        one(Op::Append { n: 1, mrpf: 1000 }),
        one(Op::Update { s: S::VZ, p: P::UidEven }),
        compact(1_000_000, true, false),
        Gen::RestoreAny,
    ]
}

pub fn run(ctx: &Ctx) -> Outcome {
    let q = ctx.quick();
    let specs = vec![
        Spec {
            name: "narrow-deep",
            roots: vec![("L1", true)],
            alphabet: narrow(),
            depth: if q { 4 } else { 6 },
        },
        Spec {
            name: "wide",
            roots: if q { vec![("L2", true), ("L2", false)] } else { vec![("L2", true), ("L2", false), ("L3", true)] },
            alphabet: alphabet(),
            depth: if q { 3 } else { 4 },
        },
    ];
    run_check(ctx, "C07", Oracles { restore: true, structure: true, ..Default::default() }, specs, &[
        "row identity = the harness column uid (fresh uids are never reused, so a row id seen with two uids is a reuse)",
    ])
}
