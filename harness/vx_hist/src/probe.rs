//! Development aid (not a check): run one op list verbosely.
//! `vx_hist PROBE --opt root=L2+ids --opt oracles=struct,snap --opt ops='[{"Append":{"n":1,"mrpf":1000}}]'`

use crate::engine::*;
use serde_json::{json, Value};
use vcore::seqx::Sut;
use vcore::{Ctx, Outcome};

pub fn run(ctx: &Ctx) -> Outcome {
    let root = ctx.opts.get("root").cloned().unwrap_or("L2+ids".into());
    let ops: Value = serde_json::from_str(ctx.opts.get("ops").map(|s| s.as_str()).unwrap_or("[]")).expect("ops json");
    let o = ctx.opts.get("oracles").cloned().unwrap_or("all".into());
    let has = |n: &str| o == "all" || o.split(',').any(|x| x == n);
    let oracles = Oracles {
        structure: has("struct"),
        snap: has("snap"),
        restore: has("restore"),
        compaction: has("compaction"),
        index_queries: has("index"),
        cdf: has("cdf"),
    };
    let mut h = Hist::new("PROBE", all_roots(), vec![], oracles);
    h.verbose = true;
    let mut st = h.init().into_iter().find(|(l, _)| *l == root).expect("root").1;
    for o in ops.as_array().unwrap() {
        let op: Op = serde_json::from_value(o.clone()).expect("op");
        let t = std::time::Instant::now();
        let step = h.step(&st, &op);
        eprintln!("{op:?} => {} in {:?} (advanced: {})", step.outcome, t.elapsed(), step.next.is_some());
        if step.next.is_none() {
            // post-mortem: raw index metadata of the latest manifest the op left behind
            if let Some(snapshot) = h.last_store.lock().unwrap().clone() {
                let env = vds::Env::from_store(vstore::MemStore::from_snapshot(&snapshot));
                let r = vds::run_catch(async {
                    let ds = env.open(vds::URI).await?;
                    let idx = lance_table::io::manifest::read_manifest_indexes(ds.object_store(), ds.manifest_location(), ds.manifest()).await?;
                    let frags: Vec<u64> = ds.manifest().fragments.iter().map(|f| f.id).collect();
                    Ok::<_, lance::Error>(format!("version {} frags {:?} raw indices {:?}", ds.version().version, frags,
                        idx.iter().map(|i| (i.name.clone(), i.fragment_bitmap.as_ref().map(|b| b.iter().collect::<Vec<u32>>()), i.dataset_version)).collect::<Vec<_>>()))
                });
                eprintln!("  post-mortem: {r:?}");
            }
        }
        if let Some(n) = step.next {
            st = n;
        }
        let rec = &st.vers[&st.latest];
        eprintln!("  latest={} ids={:?}", st.latest, rec.ids);
        eprintln!("  model={:?}", rec.model.as_ref().map(|m| m.iter().map(|r| (r.row.uid, r.row.k, r.updated)).collect::<Vec<_>>()));
        if let Some(s) = &rec.summary {
            eprintln!("  frags={:?} next_row_id={} indices={:?}", s.frags.iter().map(|f| (f.id, f.files.iter().map(|x| x.0.clone()).collect::<Vec<_>>(), f.physical_rows, f.deleted.clone(), f.row_ids.clone())).collect::<Vec<_>>(), s.next_row_id, s.indices);
        }
    }
    eprintln!("counters: {}", h.counters_json());
    let mut out = Outcome::new("model_checking");
    out.set("states", 1u64).set("transitions", 1u64).set("traces_validated_against_impl", 1u64).set("samples", json!([ops]));
    out
}
