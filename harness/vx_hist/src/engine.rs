//! Shared history engine (K1): explicit-state search over operation sequences on the real `Dataset`.
//!
//! state  = MemStore snapshot + reference model (rows keyed by the never-rewritten identity column
//!          `uid`) + a value snapshot / structural summary / model table of every version ever
//!          committed + ledgers (row id -> uid and first version, tags, cleaned versions)
//! step   = restore the snapshot into a fresh MemStore -> open with a fresh session -> apply the op
//!          to the real dataset and to the model -> evaluate the enabled oracles -> fingerprint
//! oracle ownership: every finding carries the id of the property that owns the oracle; a check
//! reports only its own, the rest goes to evidence as `foreign_findings`.

use arrow_array::{Int32Array, RecordBatch, RecordBatchIterator};
use arrow_schema::{DataType, Field, Schema as ArrowSchema};
use futures::{FutureExt, TryStreamExt};
use lance::dataset::cleanup::CleanupPolicy;
use lance::dataset::optimize::{
    commit_compaction, compact_files, plan_compaction, CompactionOptions, RewriteResult,
};
use lance::dataset::{
    MergeInsertBuilder, UpdateBuilder, WhenMatched, WhenNotMatched, WriteMode,
};
use lance::Dataset;
use lance_index::optimize::OptimizeOptions;
use lance_index::scalar::ScalarIndexParams;
use lance_index::{DatasetIndexExt, IndexType};
use serde::{Deserialize, Serialize};
use serde_json::{json, Value};
use std::collections::{BTreeMap, BTreeSet};
use std::sync::{Arc, Mutex};
use vcore::seqx::{Step, Sut};
use vcore::Violation;
use vds::cells::Cell;
use vds::pred::{col, lit_i, CmpOp, Pred};
use vds::structure::{check_struct, StructSummary};
use vds::{
    base_batch, create_base, default_rows, layout, snap, Env, MRow, TableOpts, VersionSnap, URI,
};
use vstore::{MemStore, Snapshot};

// ------------------------------------------------------------------------------------------------
// alphabet

#[derive(Clone, Copy, Debug, PartialEq, Eq, Hash, PartialOrd, Ord, Serialize, Deserialize)]
pub enum P {
    K0,
    KNull,
    KGe1,
    NotK1,
    UidLt(i32),
    UidGe(i32),
    UidEven,
    True,
    False,
}

impl P {
    pub fn pred(&self) -> Pred {
        match self {
            P::K0 => Pred::Cmp(col("k"), CmpOp::Eq, lit_i(0)),
            P::KNull => Pred::IsNull(col("k")),
            P::KGe1 => Pred::Cmp(col("k"), CmpOp::Ge, lit_i(1)),
            P::NotK1 => Pred::Not(Box::new(Pred::Cmp(col("k"), CmpOp::Eq, lit_i(1)))),
            P::UidLt(n) => Pred::Cmp(col("uid"), CmpOp::Lt, lit_i(*n as i64)),
            P::UidGe(n) => Pred::Cmp(col("uid"), CmpOp::Ge, lit_i(*n as i64)),
            P::UidEven => Pred::In(
                col("uid"),
                (0..40).step_by(2).map(|i| Cell::I(i as i64)).collect(),
            ),
            P::True => Pred::True,
            P::False => Pred::False,
        }
    }
    pub fn matches(&self, r: &MRow) -> bool {
        self.pred().eval(&|c: &str| r.get(c)) == Some(true)
    }
}

#[derive(Clone, Copy, Debug, PartialEq, Eq, Hash, PartialOrd, Ord, Serialize, Deserialize)]
pub enum S {
    /// k = k + 1
    KInc,
    /// v = 'z'
    VZ,
    /// k = NULL
    KNull,
}

impl S {
    pub fn col(&self) -> &'static str {
        match self {
            S::KInc | S::KNull => "k",
            S::VZ => "v",
        }
    }
    pub fn expr(&self) -> &'static str {
        match self {
            S::KInc => "k + 1",
            S::VZ => "'z'",
            S::KNull => "NULL",
        }
    }
    pub fn apply(&self, r: &mut MRow) {
        match self {
            S::KInc => r.k = r.k.map(|x| x + 1),
            S::VZ => r.v = Some("z".into()),
            S::KNull => r.k = None,
        }
    }
}

/// which live uids a merge source hits
#[derive(Clone, Copy, Debug, PartialEq, Eq, Hash, PartialOrd, Ord, Serialize, Deserialize)]
pub enum Sel {
    Lo,
    Hi,
}

#[derive(Clone, Copy, Debug, PartialEq, Eq, Hash, PartialOrd, Ord, Serialize, Deserialize)]
pub struct COpt {
    pub target: usize,
    /// materialize deletions with threshold 0 (true) / never (false)
    pub mat: bool,
    pub defer: bool,
}

#[derive(Clone, Debug, PartialEq, Eq, Hash, Serialize, Deserialize)]
pub enum Op {
    Append { n: u8, mrpf: u32 },
    Overwrite { n: u8 },
    Delete { p: P },
    Update { s: S, p: P },
    /// merge_insert on uid, full schema, upsert: `hit` existing uids + `new` fresh uids
    MergeFull { hit: u8, new: u8, sel: Sel },
    /// merge_insert on uid, source schema (uid,k), when matched update all, not matched: nothing
    MergePartial { hit: u8, sel: Sel },
    Compact { o: COpt },
    /// plan_compaction -> execute every task -> commit_compaction(tasks chosen by `pick`, in that order)
    CompactDist { o: COpt, pick: Vec<u8> },
    CreateIndexK,
    Optimize,
    /// apply a pending deferred index remap through `remapping::remap_column_index`
    RemapIndexK,
    Restore { v: u64 },
    TagCreate { t: u8, v: u64 },
    TagUpdate { t: u8, v: u64 },
    TagDelete { t: u8 },
    Cleanup { before: u64, unverified: bool },
    /// K2 step: delete through a handle that is `back` versions stale (commits through the rebase
    /// path, which merges deletion vectors into a new deletion file)
    StaleDelete { p: P, back: u8 },
    /// create branch "b0" from main version v / append to it / delete it
    BranchCreate { v: u64 },
    BranchAppend { n: u8 },
    BranchDelete,
}

impl Op {
    pub fn kind(&self) -> &'static str {
        match self {
            Op::Append { .. } => "append",
            Op::Overwrite { .. } => "overwrite",
            Op::Delete { .. } => "delete",
            Op::Update { .. } => "update",
            Op::MergeFull { .. } => "merge_full",
            Op::MergePartial { .. } => "merge_partial",
            Op::Compact { .. } => "compact",
            Op::CompactDist { .. } => "compact_dist",
            Op::CreateIndexK => "create_index",
            Op::Optimize => "optimize",
            Op::RemapIndexK => "remap_index",
            Op::Restore { .. } => "restore",
            Op::TagCreate { .. } => "tag_create",
            Op::TagUpdate { .. } => "tag_update",
            Op::TagDelete { .. } => "tag_delete",
            Op::Cleanup { .. } => "cleanup",
            Op::StaleDelete { .. } => "stale_delete",
            Op::BranchCreate { .. } => "branch_create",
            Op::BranchAppend { .. } => "branch_append",
            Op::BranchDelete => "branch_delete",
        }
    }
}

/// Alphabet generators; `Restore`, tag ops and `Cleanup` expand over the versions of the state.
#[derive(Clone, Debug)]
pub enum Gen {
    One(Op),
    RestoreAny,
    TagCreateAny(u8),
    TagUpdateAny(u8),
    CleanupAny { unverified: bool },
    /// every non-empty ordered subset of the planned tasks (<= 3 tasks)
    CompactDistAll(COpt),
    BranchCreateAny,
}

// ------------------------------------------------------------------------------------------------
// model + state

#[derive(Clone, Debug, PartialEq, Eq, Hash, Serialize, Deserialize)]
pub struct MR {
    pub row: MRow,
    /// model: last version in which an update / upsert / column rewrite targeted this uid
    /// (the version that inserted it if none did)
    pub updated: u64,
}

/// (uid, _rowid, _row_created_at_version, _row_last_updated_at_version) in scan order
pub type IdRow = (i32, u64, u64, u64);

#[derive(Clone, Debug)]
pub struct VerRec {
    pub snap: VersionSnap,
    pub summary: Option<StructSummary>,
    /// model table of this version (None when an intermediate version matches neither table)
    pub model: Option<Vec<MR>>,
    /// model expectation: not removed by a cleanup
    pub exists: bool,
    pub ids: Option<Vec<IdRow>>,
    /// O-struct problem classes already reported for this version or an ancestor (reported once,
    /// at the op that introduces them)
    pub problems: BTreeSet<String>,
    /// (uid, 0 = created-at | 1 = updated-at) already reported wrong in this version or an ancestor
    pub bad_cols: BTreeSet<(i32, u8)>,
}

#[derive(Clone)]
pub struct HState {
    pub snap: Snapshot,
    pub root: String,
    pub ops: Vec<Op>,
    pub stable: bool,
    pub latest: u64,
    pub vers: BTreeMap<u64, VerRec>,
    pub tags: BTreeMap<u8, u64>,
    pub next_uid: i32,
    /// row id -> (uids it was observed with, first version in which the row id was observed)
    pub ledger: BTreeMap<u64, (Vec<i32>, u64)>,
    /// a compaction with deferred index remap happened and no optimize since
    pub deferred_pending: bool,
    /// snapshots of the versions of branch "b0" (None = branch does not exist)
    pub branch: Option<BTreeMap<u64, VersionSnap>>,
    /// main version the branch was created from and the data files that version references
    pub branch_src: Option<(u64, BTreeSet<String>)>,
    /// branch versions already reported unreadable (reported once, at the step that breaks them)
    pub branch_broken: BTreeSet<u64>,
    pub fp: u64,
}

impl HState {
    pub fn model(&self) -> &Vec<MR> {
        self.vers
            .get(&self.latest)
            .and_then(|v| v.model.as_ref())
            .expect("latest version has a model")
    }
    pub fn kinds(&self) -> Vec<&'static str> {
        self.ops.iter().map(|o| o.kind()).collect()
    }
    fn fingerprint(&mut self) {
        let vs: Vec<Value> = self
            .vers
            .iter()
            .map(|(v, r)| {
                json!([v, r.exists, r.snap.schema, r.snap.rows, r.snap.indices, r.snap.deleted_rows,
                       r.summary, r.model, r.ids])
            })
            .collect();
        let br: Option<Vec<Value>> = self
            .branch
            .as_ref()
            .map(|b| b.iter().map(|(v, s)| json!([v, s.rows, s.indices, s.deleted_rows])).collect());
        let j = json!([self.stable, self.latest, vs, self.tags, self.next_uid, self.deferred_pending, br]);
        self.fp = vcore::hash64(j.to_string().as_bytes());
    }
}

#[derive(Clone, Debug, Default)]
pub struct Oracles {
    /// C05 O-struct on every new version
    pub structure: bool,
    /// C06 O-snap: every older version re-read after every op
    pub snap: bool,
    /// C07 restore == snapshot(v)  (the row id ledger is always on for tables with stable ids)
    pub restore: bool,
    /// C13 before/after compaction
    pub compaction: bool,
    /// C13/C19 index queries (k btree) == unindexed == model in every state that has the index
    pub index_queries: bool,
    /// C17 version columns and deltas
    pub cdf: bool,
}

impl Oracles {
    pub fn all() -> Self {
        Self { structure: true, snap: true, restore: true, compaction: true, index_queries: true, cdf: true }
    }
}

pub struct Root {
    pub label: String,
    pub layout: &'static str,
    pub stable: bool,
}

/// A finding of an oracle, attributed to the property that owns the oracle. `fatal` = model and
/// implementation disagree about the table itself (or the table is unusable), so nothing below this
/// transition is explored; non-fatal findings are reported once and the search continues.
#[derive(Clone, Debug)]
pub struct Finding {
    pub owner: &'static str,
    pub fatal: bool,
    pub v: Violation,
}

pub struct Hist {
    pub property: &'static str,
    pub roots: Vec<Root>,
    pub alphabet: Vec<Gen>,
    pub oracles: Oracles,
    /// findings of the property's own oracles (with complete replay cases)
    pub own: Mutex<Vec<Violation>>,
    /// findings owned by other properties: key -> (count, first example)
    pub foreign: Mutex<BTreeMap<String, (u64, Value)>>,
    /// vacuity counters (what the oracles actually got to compare)
    pub counters: Mutex<BTreeMap<String, u64>>,
    pub verbose: bool,
    /// (verbose only) the store right after the last applied op, for post-mortems
    pub last_store: Mutex<Option<Snapshot>>,
}

impl Hist {
    pub fn new(property: &'static str, roots: Vec<Root>, alphabet: Vec<Gen>, oracles: Oracles) -> Self {
        Self {
            property,
            roots,
            alphabet,
            oracles,
            own: Mutex::new(vec![]),
            foreign: Mutex::new(BTreeMap::new()),
            counters: Mutex::new(BTreeMap::new()),
            verbose: false,
            last_store: Mutex::new(None),
        }
    }
    pub fn count(&self, k: &str, n: u64) {
        if n > 0 {
            *self.counters.lock().unwrap().entry(k.to_string()).or_insert(0) += n;
        }
    }
    pub fn counters_json(&self) -> Value {
        json!(*self.counters.lock().unwrap())
    }
    pub fn foreign_json(&self) -> Value {
        let g = self.foreign.lock().unwrap();
        Value::Array(
            g.iter()
                .map(|(k, (n, ex))| json!({"key": k, "occurrences": n, "example": ex}))
                .collect(),
        )
    }
    /// own violations, shortest history first (deterministic whatever the worker interleaving was)
    pub fn take_own(&self) -> Vec<Violation> {
        let mut v = std::mem::take(&mut *self.own.lock().unwrap());
        v.sort_by_key(|x| {
            let n = x.case.get("ops").and_then(|o| o.as_array()).map(|a| a.len()).unwrap_or(0);
            (n, x.case.to_string(), x.key.clone())
        });
        v
    }
}

pub fn roots(spec: &[(&'static str, bool)]) -> Vec<Root> {
    spec.iter()
        .map(|(l, s)| Root {
            label: format!("{}{}", l, if *s { "+ids" } else { "" }),
            layout: l,
            stable: *s,
        })
        .collect()
}

pub fn all_roots() -> Vec<Root> {
    roots(&[("L1", false), ("L1", true), ("L2", false), ("L2", true), ("L3", false), ("L3", true)])
}

// panics of the code under test: remember where the last panic of each thread happened
static PANIC_SITES: Mutex<BTreeMap<String, String>> = Mutex::new(BTreeMap::new());

pub fn install_panic_hook() {
    std::panic::set_hook(Box::new(|info| {
        let site = info
            .location()
            .map(|l| {
                let f = l.file();
                let f = f.rsplit("/rust/").next().unwrap_or(f);
                format!("{}:{}", f, l.line())
            })
            .unwrap_or_default();
        let t = format!("{:?}", std::thread::current().id());
        if let Ok(mut g) = PANIC_SITES.lock() {
            g.insert(t, site);
        }
    }));
}

fn last_panic_site() -> String {
    let t = format!("{:?}", std::thread::current().id());
    PANIC_SITES.lock().ok().and_then(|g| g.get(&t).cloned()).unwrap_or_default()
}

/// classification key of a panic: site (of the panic on the calling thread; `task` when the panic
/// happened in a spawned task and only its JoinError surfaced) + slug of the message
pub fn panic_key(site: &str, msg: &str) -> String {
    let words: Vec<String> = panic_slug(msg).split('-').take(7).map(|s| s.to_string()).collect();
    let site = if msg.contains("JoinError::Panic") { "task" } else { site };
    format!("panic/{}/{}", site, words.join("-"))
}

/// stable slug of a panic message: wrappers, numbers and paths removed, first words kept
pub fn panic_slug(msg: &str) -> String {
    let mut m = msg;
    if let Some(i) = m.find("JoinError::Panic(") {
        if let Some(j) = m[i..].find('"') {
            m = &m[i + j + 1..];
        }
    }
    let m = m.replace("called `Result::unwrap()` on an `Err` value:", " unwrap-err ");
    let words: Vec<String> = m
        .split(|c: char| !c.is_alphanumeric() && c != '-' && c != '_')
        .filter(|w| !w.is_empty() && !w.chars().all(|c| c.is_ascii_digit()))
        .take(9)
        .map(|w| w.to_lowercase())
        .collect();
    words.join("-")
}

// ------------------------------------------------------------------------------------------------
// reading helpers

fn sort_model(mut t: Vec<MR>) -> Vec<MR> {
    t.sort_by_key(|r| r.row.uid);
    t
}

async fn scan_ids(ds: &Dataset) -> lance::Result<Vec<IdRow>> {
    let mut sc = ds.scan();
    sc.scan_in_order(true);
    sc.project(&[
        "uid",
        lance_core::ROW_ID,
        lance_core::ROW_CREATED_AT_VERSION,
        lance_core::ROW_LAST_UPDATED_AT_VERSION,
    ])?;
    let batches: Vec<RecordBatch> = sc.try_into_stream().await?.try_collect().await?;
    let mut out = vec![];
    for b in &batches {
        let names = vds::cells::batch_cols(b);
        let ix = |n: &str| names.iter().position(|x| x == n);
        let (Some(iu), Some(ir), Some(ic), Some(il)) = (
            ix("uid"),
            ix(lance_core::ROW_ID),
            ix(lance_core::ROW_CREATED_AT_VERSION),
            ix(lance_core::ROW_LAST_UPDATED_AT_VERSION),
        ) else {
            return Err(lance::Error::Internal {
                message: format!("version-column scan returned columns {names:?}"),
                location: snafu::location!(),
            });
        };
        for r in vds::cells::batch_rows(b) {
            let g = |i: usize| match &r[i] {
                Cell::I(x) => *x as u64,
                Cell::U(x) => *x,
                _ => u64::MAX,
            };
            out.push((g(iu) as i32, g(ir), g(ic), g(il)));
        }
    }
    Ok(out)
}

async fn scan_filter_uids(ds: &Dataset, filter: &str, use_index: bool) -> lance::Result<Vec<i32>> {
    let mut sc = ds.scan();
    sc.filter(filter)?;
    sc.use_scalar_index(use_index);
    sc.project(&["uid"])?;
    let batches: Vec<RecordBatch> = sc.try_into_stream().await?.try_collect().await?;
    let mut v: Vec<i32> = vds::cells::batches_rows(&batches)
        .iter()
        .map(|r| r[0].as_i64().unwrap_or(-1) as i32)
        .collect();
    v.sort();
    Ok(v)
}

fn index_preds() -> Vec<Pred> {
    vec![
        Pred::Cmp(col("k"), CmpOp::Eq, lit_i(0)),
        Pred::Cmp(col("k"), CmpOp::Eq, lit_i(1)),
        Pred::Cmp(col("k"), CmpOp::Eq, lit_i(2)),
        Pred::IsNull(col("k")),
        Pred::Cmp(col("k"), CmpOp::Ge, lit_i(1)),
    ]
}

fn bag_rows(rows: &[Vec<Cell>]) -> Vec<Vec<Cell>> {
    vds::cells::bag(rows.to_vec())
}

fn model_bag(t: &[MR]) -> Vec<Vec<Cell>> {
    vds::cells::bag(t.iter().map(|r| r.row.cells()).collect())
}

fn has_index(s: &VersionSnap) -> bool {
    s.indices.iter().any(|i| i.starts_with("k_idx"))
}

// ------------------------------------------------------------------------------------------------
// the engine

struct StepOut {
    next: Option<HState>,
    outcome: String,
    findings: Vec<Finding>,
}

fn note(out: &mut Vec<Finding>, owner: &'static str, oracle: &str, key: String, what: String) {
    out.push(Finding { owner, fatal: false, v: Violation::new(oracle, &key, what, json!({})) });
}

fn fatal(out: &mut Vec<Finding>, owner: &'static str, oracle: &str, key: String, what: String) {
    out.push(Finding { owner, fatal: true, v: Violation::new(oracle, &key, what, json!({})) });
}

impl Hist {
    async fn make_root(&self, r: &Root) -> HState {
        let env = Env::new();
        let frags = layout(r.layout);
        let o = TableOpts {
            stable_row_ids: r.stable,
            ..Default::default()
        };
        create_base(&env, URI, &frags, &o).await.expect("create base");
        let mut st = HState {
            snap: env.store.snapshot(),
            root: r.label.clone(),
            ops: vec![],
            stable: r.stable,
            latest: 0,
            vers: BTreeMap::new(),
            tags: BTreeMap::new(),
            next_uid: frags.last().unwrap().end,
            ledger: BTreeMap::new(),
            deferred_pending: false,
            branch: None,
            branch_src: None,
            branch_broken: BTreeSet::new(),
            fp: 0,
        };
        let mut table: Vec<MR> = vec![];
        for (i, range) in frags.iter().enumerate() {
            let v = i as u64 + 1;
            for row in default_rows(range.clone()) {
                table.push(MR { row, updated: v });
            }
            let ds = env.open_version(URI, v).await.expect("open base version");
            let s = snap(&ds).await.expect("snap base");
            let (summary, problems) = check_struct(&ds).await;
            assert!(problems.is_empty(), "base table ill-formed: {problems:?}");
            let ids = if r.stable {
                let ids = scan_ids(&ds).await.expect("scan ids");
                for (uid, rid, _, _) in &ids {
                    st.ledger.entry(*rid).or_insert((vec![*uid], v));
                }
                Some(ids)
            } else {
                None
            };
            st.vers.insert(
                v,
                VerRec {
                    snap: s,
                    summary,
                    model: Some(sort_model(table.clone())),
                    exists: true,
                    ids,
                    problems: BTreeSet::new(),
                    bad_cols: BTreeSet::new(),
                },
            );
            st.latest = v;
        }
        st.fingerprint();
        st
    }

    /// expected table after `op`
    fn model_apply(&self, st: &HState, op: &Op, newv: u64) -> (Vec<MR>, i32) {
        let mut t = st.model().clone();
        let mut next_uid = st.next_uid;
        match op {
            Op::Append { n, .. } => {
                for row in default_rows(next_uid..next_uid + *n as i32) {
                    t.push(MR { row, updated: newv });
                }
                next_uid += *n as i32;
            }
            Op::Overwrite { n } => {
                t.clear();
                for row in default_rows(next_uid..next_uid + *n as i32) {
                    t.push(MR { row, updated: newv });
                }
                next_uid += *n as i32;
            }
            Op::Delete { p } => t.retain(|r| !p.matches(&r.row)),
            Op::Update { s, p } => {
                for r in t.iter_mut() {
                    if p.matches(&r.row) {
                        s.apply(&mut r.row);
                        r.updated = newv;
                    }
                }
            }
            Op::MergeFull { .. } | Op::MergePartial { .. } => {
                let (hits, news) = self.merge_source(st, op, newv);
                for h in hits {
                    if let Some(r) = t.iter_mut().find(|r| r.row.uid == h.uid) {
                        if matches!(op, Op::MergePartial { .. }) {
                            r.row.k = h.k;
                        } else {
                            r.row = h.clone();
                        }
                        r.updated = newv;
                    }
                }
                for row in news {
                    next_uid = next_uid.max(row.uid + 1);
                    t.push(MR { row, updated: newv });
                }
            }
            Op::Restore { v } => {
                t = st.vers[v].model.clone().expect("restore target has a model");
            }
            Op::StaleDelete { p, back } => {
                // the predicate is evaluated on the stale read version; the rows it selected there
                // are removed from the latest table
                let read = st.latest - *back as u64;
                let hit: BTreeSet<i32> = st.vers[&read]
                    .model
                    .as_ref()
                    .expect("stale read version has a model")
                    .iter()
                    .filter(|r| p.matches(&r.row))
                    .map(|r| r.row.uid)
                    .collect();
                t.retain(|r| !hit.contains(&r.row.uid));
            }
            Op::BranchAppend { n } => {
                next_uid += *n as i32;
            }
            Op::BranchCreate { .. } | Op::BranchDelete => {}
            Op::Compact { .. }
            | Op::CompactDist { .. }
            | Op::CreateIndexK
            | Op::Optimize
            | Op::RemapIndexK
            | Op::TagCreate { .. }
            | Op::TagUpdate { .. }
            | Op::TagDelete { .. }
            | Op::Cleanup { .. } => {}
        }
        (sort_model(t), next_uid)
    }

    /// source rows of a merge: (rows hitting live uids, rows with fresh uids)
    fn merge_source(&self, st: &HState, op: &Op, newv: u64) -> (Vec<MRow>, Vec<MRow>) {
        let (hit, new, sel) = match op {
            Op::MergeFull { hit, new, sel } => (*hit as usize, *new as usize, *sel),
            Op::MergePartial { hit, sel } => (*hit as usize, 0, *sel),
            _ => unreachable!(),
        };
        let mut live: Vec<i32> = st.model().iter().map(|r| r.row.uid).collect();
        live.sort();
        if sel == Sel::Hi {
            live.reverse();
        }
        let kval = Some(50 + newv as i32);
        let hits: Vec<MRow> = live
            .iter()
            .take(hit)
            .map(|u| MRow::new(*u, kval, Some("m")))
            .collect();
        let news: Vec<MRow> = (0..new as i32)
            .map(|i| MRow::new(st.next_uid + i, kval, Some("n")))
            .collect();
        (hits, news)
    }

    pub fn enabled_ops(&self, st: &HState) -> Vec<Op> {
        let mut out = vec![];
        let live: Vec<u64> = st
            .vers
            .iter()
            .filter(|(_, r)| r.exists)
            .map(|(v, _)| *v)
            .collect();
        let indexed = has_index(&st.vers[&st.latest].snap);
        for g in &self.alphabet {
            match g {
                Gen::BranchCreateAny => {
                    if st.branch.is_none() {
                        for v in &live {
                            out.push(Op::BranchCreate { v: *v });
                        }
                    }
                }
                Gen::One(op) => match op {
                    Op::BranchAppend { .. } | Op::BranchDelete if st.branch.is_none() => {}
                    Op::StaleDelete { back, .. }
                        if (*back as u64) >= st.latest
                            || !st.vers.get(&(st.latest - *back as u64)).map(|r| r.exists && r.model.is_some()).unwrap_or(false) => {}
                    Op::Optimize if !indexed => {}
                    Op::RemapIndexK if !indexed || !st.deferred_pending => {}
                    Op::Compact { o } if o.defer && !indexed => {}
                    Op::TagDelete { t } if !st.tags.contains_key(t) => {}
                    _ => out.push(op.clone()),
                },
                Gen::RestoreAny => {
                    for v in &live {
                        if *v < st.latest && st.vers[v].model.is_some() {
                            out.push(Op::Restore { v: *v });
                        }
                    }
                }
                Gen::TagCreateAny(t) => {
                    if !st.tags.contains_key(t) {
                        for v in &live {
                            out.push(Op::TagCreate { t: *t, v: *v });
                        }
                    }
                }
                Gen::TagUpdateAny(t) => {
                    if let Some(cur) = st.tags.get(t) {
                        for v in &live {
                            if v != cur {
                                out.push(Op::TagUpdate { t: *t, v: *v });
                            }
                        }
                    }
                }
                Gen::CleanupAny { unverified } => {
                    for b in 2..=st.latest {
                        if live.iter().any(|v| *v < b) {
                            out.push(Op::Cleanup {
                                before: b,
                                unverified: *unverified,
                            });
                        }
                    }
                }
                Gen::CompactDistAll(o) => {
                    if o.defer && !indexed {
                        continue;
                    }
                    // the number of tasks is only known after planning; enumerate picks over <= 3
                    // task slots, picks naming a missing task come back as "no-such-task"
                    for pick in task_picks(3) {
                        out.push(Op::CompactDist { o: *o, pick });
                    }
                }
            }
        }
        out
    }

    async fn apply(&self, env: &Env, st: &HState, op: &Op, newv: u64) -> lance::Result<String> {
        match op {
            Op::Append { n, mrpf } => {
                let rows = default_rows(st.next_uid..st.next_uid + *n as i32);
                let mut p = env.write_params(WriteMode::Append);
                p.max_rows_per_file = *mrpf as usize;
                env.write(URI, vec![base_batch(&rows)], p).await?;
                Ok("ok".into())
            }
            Op::Overwrite { n } => {
                let rows = default_rows(st.next_uid..st.next_uid + *n as i32);
                let mut p = env.write_params(WriteMode::Overwrite);
                p.enable_stable_row_ids = st.stable;
                env.write(URI, vec![base_batch(&rows)], p).await?;
                Ok("ok".into())
            }
            Op::Delete { p } => {
                let mut ds = env.open(URI).await?;
                ds.delete(&p.pred().sql()).await?;
                Ok("ok".into())
            }
            Op::Update { s, p } => {
                let ds = Arc::new(env.open(URI).await?);
                let r = UpdateBuilder::new(ds)
                    .update_where(&p.pred().sql())?
                    .set(s.col(), s.expr())?
                    .build()?
                    .execute()
                    .await?;
                Ok(if r.rows_updated == 0 { "ok-0rows".into() } else { "ok".into() })
            }
            Op::MergeFull { .. } => {
                let (hits, news) = self.merge_source(st, op, newv);
                let mut rows = hits;
                rows.extend(news);
                if rows.is_empty() {
                    return Ok("empty-source".into());
                }
                let ds = Arc::new(env.open(URI).await?);
                let mut b = MergeInsertBuilder::try_new(ds, vec!["uid".into()])?;
                b.when_matched(WhenMatched::UpdateAll)
                    .when_not_matched(WhenNotMatched::InsertAll);
                let job = b.try_build()?;
                let batch = base_batch(&rows);
                let schema = batch.schema();
                let reader = RecordBatchIterator::new(vec![Ok(batch)], schema);
                let (_, stats) = job.execute_reader(Box::new(reader)).await?;
                Ok(format!(
                    "ok-u{}i{}",
                    stats.num_updated_rows.min(1),
                    stats.num_inserted_rows.min(1)
                ))
            }
            Op::MergePartial { .. } => {
                let (hits, _) = self.merge_source(st, op, newv);
                if hits.is_empty() {
                    return Ok("empty-source".into());
                }
                let ds = Arc::new(env.open(URI).await?);
                let mut b = MergeInsertBuilder::try_new(ds, vec!["uid".into()])?;
                b.when_matched(WhenMatched::UpdateAll)
                    .when_not_matched(WhenNotMatched::DoNothing);
                let job = b.try_build()?;
                let schema = Arc::new(ArrowSchema::new(vec![
                    Field::new("uid", DataType::Int32, false),
                    Field::new("k", DataType::Int32, true),
                ]));
                let batch = RecordBatch::try_new(
                    schema.clone(),
                    vec![
                        Arc::new(Int32Array::from(hits.iter().map(|r| r.uid).collect::<Vec<_>>())),
                        Arc::new(Int32Array::from(hits.iter().map(|r| r.k).collect::<Vec<_>>())),
                    ],
                )
                .unwrap();
                let reader = RecordBatchIterator::new(vec![Ok(batch)], schema);
                let (_, stats) = job.execute_reader(Box::new(reader)).await?;
                Ok(format!("ok-u{}", stats.num_updated_rows.min(1)))
            }
            Op::Compact { o } => {
                let mut ds = env.open(URI).await?;
                let m = compact_files(&mut ds, copts(o), None).await?;
                Ok(if m.fragments_removed == 0 { "nothing-to-do".into() } else { "ok".into() })
            }
            Op::CompactDist { o, pick } => {
                let mut ds = env.open(URI).await?;
                let mut options = copts(o);
                options.validate();
                let plan = plan_compaction(&ds, &options).await?;
                let ntasks = plan.num_tasks();
                if pick.iter().any(|i| *i as usize >= ntasks) {
                    return Ok("no-such-task".into());
                }
                let mut results: Vec<Option<RewriteResult>> = vec![];
                for t in plan.compaction_tasks() {
                    results.push(Some(t.execute(&ds).await?));
                }
                let chosen: Vec<RewriteResult> = pick
                    .iter()
                    .map(|i| results[*i as usize].take().expect("pick has no duplicates"))
                    .collect();
                commit_compaction(
                    &mut ds,
                    chosen,
                    Arc::new(lance::dataset::index::DatasetIndexRemapperOptions::default()),
                    &options,
                )
                .await?;
                Ok(format!("ok-{}of{}", pick.len(), ntasks))
            }
            Op::CreateIndexK => {
                let mut ds = env.open(URI).await?;
                ds.create_index(
                    &["k"],
                    IndexType::BTree,
                    Some("k_idx".into()),
                    &ScalarIndexParams::default(),
                    true,
                )
                .await?;
                Ok("ok".into())
            }
            Op::Optimize => {
                let mut ds = env.open(URI).await?;
                ds.optimize_indices(&OptimizeOptions::default()).await?;
                Ok("ok".into())
            }
            Op::RemapIndexK => {
                let mut ds = env.open(URI).await?;
                lance::dataset::optimize::remapping::remap_column_index(&mut ds, &["k"], Some("k_idx".into())).await?;
                Ok("ok".into())
            }
            Op::Restore { v } => {
                let mut ds = env.open_version(URI, *v).await?;
                ds.restore().await?;
                Ok("ok".into())
            }
            Op::TagCreate { t, v } => {
                let ds = env.open(URI).await?;
                ds.tags().create(&tag_name(*t), *v).await?;
                Ok("ok".into())
            }
            Op::TagUpdate { t, v } => {
                let ds = env.open(URI).await?;
                ds.tags().update(&tag_name(*t), *v).await?;
                Ok("ok".into())
            }
            Op::TagDelete { t } => {
                let ds = env.open(URI).await?;
                ds.tags().delete(&tag_name(*t)).await?;
                Ok("ok".into())
            }
            Op::StaleDelete { p, back } => {
                let mut ds = env.open_version(URI, st.latest - *back as u64).await?;
                ds.delete(&p.pred().sql()).await?;
                Ok("ok".into())
            }
            Op::BranchCreate { v } => {
                let mut ds = env.open(URI).await?;
                ds.create_branch(BRANCH, *v, Some(env.store_params())).await?;
                Ok("ok".into())
            }
            Op::BranchAppend { n } => {
                let mut b = env.open(URI).await?.checkout_branch(BRANCH).await?;
                let rows = default_rows(st.next_uid..st.next_uid + *n as i32);
                let batch = base_batch(&rows);
                let schema = batch.schema();
                let reader = RecordBatchIterator::new(vec![Ok(batch)], schema);
                b.append(reader, Some(env.write_params(WriteMode::Append))).await?;
                Ok("ok".into())
            }
            Op::BranchDelete => {
                let mut ds = env.open(URI).await?;
                ds.delete_branch(BRANCH).await?;
                Ok("ok".into())
            }
            Op::Cleanup { before, unverified } => {
                let ds = env.open(URI).await?;
                let stats = ds
                    .cleanup_with_policy(CleanupPolicy {
                        before_timestamp: None,
                        before_version: Some(*before),
                        delete_unverified: *unverified,
                        error_if_tagged_old_versions: false,
                    })
                    .await?;
                Ok(if stats.old_versions == 0 { "ok-0removed".into() } else { "ok".into() })
            }
        }
    }

    async fn step_async(&self, st: &HState, op: &Op) -> StepOut {
        let mut f: Vec<Finding> = vec![];
        let env = Env::from_store(MemStore::from_snapshot(&st.snap));
        let newv = st.latest + 1;
        let kind = op.kind();
        let (expect, next_uid) = self.model_apply(st, op, newv);
        let parent = &st.vers[&st.latest];

        // ---- C13: observations before a compaction
        let is_compaction = matches!(op, Op::Compact { .. } | Op::CompactDist { .. });
        let before_idx = if (self.oracles.compaction && is_compaction) && has_index(&parent.snap) {
            match env.open(URI).await {
                Ok(ds) => Some(self.index_answers(&ds).await),
                Err(_) => None,
            }
        } else {
            None
        };

        // ---- apply
        let applied = std::panic::AssertUnwindSafe(self.apply(&env, st, op, newv))
            .catch_unwind()
            .await;
        let outcome = match applied {
            Ok(Ok(o)) => o,
            Ok(Err(e)) => {
                if self.verbose {
                    eprintln!("  {op:?} failed: {e}");
                }
                format!("err:{}", vds::err_class(&e))
            }
            Err(payload) => {
                // a public API panicked on accepted input: describe what is left behind
                let msg: String = vcore::panic_message(&payload).chars().take(500).collect();
                let site = last_panic_site();
                let post = std::panic::AssertUnwindSafe(async {
                    match env.open(URI).await {
                        Err(e) => format!("latest cannot be opened: {e}"),
                        Ok(d) => {
                            let v = d.version().version;
                            let committed = if v > st.latest { "a new version was committed" } else { "no version was committed" };
                            match snap(&d).await {
                                Ok(_) => format!("{committed}; latest version {v} opens and scans"),
                                Err(e) => format!("{committed}; latest version {v} opens but cannot be read: {e}"),
                            }
                        }
                    }
                })
                .catch_unwind()
                .await
                .unwrap_or_else(|p| format!("re-opening the table panics too: {}", vcore::panic_message(&p).chars().take(200).collect::<String>()));
                let owner = if matches!(op, Op::Compact { .. } | Op::CompactDist { .. }) { "C13" } else { "C05" };
                fatal(&mut f, owner, "panic", panic_key(&site, &msg),
                    format!("{op:?} panicked at {site}: {msg} -- afterwards: {post}"));
                return StepOut { next: None, outcome: "panic".into(), findings: f };
            }
        };
        if self.verbose {
            eprintln!("  {op:?} -> {outcome}");
        }
        let rejected = outcome.starts_with("err:");
        if self.verbose {
            *self.last_store.lock().unwrap() = Some(env.store.snapshot());
        }

        // ---- reopen with a fresh session
        let ds = match env.open(URI).await {
            Ok(d) => d,
            Err(e) => {
                fatal(&mut f, "C05", "open", format!("open-latest-fails/after-{kind}"),
                    format!("latest version cannot be opened after {op:?} ({outcome}): {e}"));
                return StepOut { next: None, outcome, findings: f };
            }
        };
        let new_latest = ds.version().version;
        if new_latest < st.latest {
            fatal(&mut f, "C01", "monotone", format!("latest-went-back/after-{kind}"),
                format!("latest version {} < previous latest {}", new_latest, st.latest));
            return StepOut { next: None, outcome, findings: f };
        }

        let mut n = st.clone();
        n.snap = env.store.snapshot();
        n.ops.push(op.clone());
        n.next_uid = if rejected { st.next_uid } else { next_uid };

        // ---- model bookkeeping for ops that do not commit versions
        match op {
            Op::TagCreate { t, v } | Op::TagUpdate { t, v } if !rejected => {
                n.tags.insert(*t, *v);
            }
            Op::TagDelete { t } if !rejected => {
                n.tags.remove(t);
            }
            Op::Cleanup { before, .. } if !rejected => {
                let tagged: BTreeSet<u64> = n.tags.values().copied().collect();
                for (v, r) in n.vers.iter_mut() {
                    if *v < *before && *v != st.latest && !tagged.contains(v) {
                        r.exists = false;
                    }
                }
            }
            _ => {}
        }

        // ---- branch bookkeeping: remember which main version (and which data files) the branch
        // was created from
        if let (Op::BranchCreate { v }, false) = (op, rejected) {
            let files: BTreeSet<String> = match env.open_version(URI, *v).await {
                Ok(d) => d
                    .manifest()
                    .fragments
                    .iter()
                    .flat_map(|fr| {
                        // data files and the deletion file of every fragment of that version
                        let mut v: Vec<String> = fr.files.iter().map(|df| format!("data/{}", df.path)).collect();
                        if let Some(del) = &fr.deletion_file {
                            let base = object_store::path::Path::from("");
                            let p = lance_table::io::deletion::deletion_file_path(&base, fr.id, del);
                            v.push(p.to_string());
                        }
                        v
                    })
                    .collect(),
                Err(_) => BTreeSet::new(),
            };
            n.branch_src = Some((*v, files));
            n.branch_broken.clear();
        }
        // ---- branch bookkeeping: snapshot the branch version the op created
        match op {
            Op::BranchCreate { .. } | Op::BranchAppend { .. } if !rejected => {
                let opened = match env.open(URI).await {
                    Ok(d) => d.checkout_branch(BRANCH).await,
                    Err(e) => Err(e),
                };
                match opened {
                    Ok(b) => match snap(&b).await {
                        Ok(s) => {
                            let prev_rows = st.branch.as_ref().and_then(|m| m.values().last()).map(|x| x.rows.len());
                            if let (Op::BranchAppend { n }, Some(pr)) = (op, prev_rows) {
                                if s.rows.len() != pr + *n as usize {
                                    note(&mut f, "C11", "branch-append", "branch-append-row-count".into(),
                                        format!("{op:?}: branch has {} rows, expected {}", s.rows.len(), pr + *n as usize));
                                }
                            }
                            n.branch.get_or_insert_with(BTreeMap::new).insert(s.version, s);
                        }
                        Err(e) => fatal(&mut f, "C09", "branch", format!("branch-unreadable/after-{kind}"),
                            format!("branch {BRANCH} cannot be read right after {op:?}: {e}")),
                    },
                    Err(e) => fatal(&mut f, "C09", "branch", format!("branch-unopenable/after-{kind}"),
                        format!("branch {BRANCH} cannot be checked out right after {op:?}: {e}")),
                }
            }
            Op::BranchDelete if !rejected => {
                n.branch = None;
                n.branch_src = None;
                n.branch_broken.clear();
            }
            _ => {}
        }

        // ---- new versions: snapshot, O-struct, model, ids
        let committed = new_latest > st.latest;
        if rejected && committed {
            note(&mut f, "C01", "atomic", format!("failed-op-committed/{kind}"),
                format!("{op:?} returned {outcome} but version {new_latest} was committed"));
        }
        // what the new versions inherit: the parent's reported problems (restore: the target's)
        let (inh_problems, inh_bad) = match op {
            Op::Restore { v } => (st.vers[v].problems.clone(), st.vers[v].bad_cols.clone()),
            _ => (parent.problems.clone(), parent.bad_cols.clone()),
        };
        for v in (st.latest + 1)..=new_latest {
            let dsv = if v == new_latest {
                ds.clone()
            } else {
                match env.open_version(URI, v).await {
                    Ok(d) => d,
                    Err(e) => {
                        note(&mut f, "C01", "dense", format!("version-gap/after-{kind}"),
                            format!("version {v} below new latest {new_latest} cannot be opened: {e}"));
                        continue;
                    }
                }
            };
            let (summary, problems) = if self.oracles.structure {
                self.count("struct.versions_checked", 1);
                check_struct(&dsv).await
            } else {
                (None, vec![])
            };
            let mut classes = inh_problems.clone();
            for p in &problems {
                let class = problem_class(p);
                if classes.insert(class.clone()) {
                    let short: String = p.chars().take(400).collect();
                    note(&mut f, "C05", "struct", format!("struct/{class}/after-{kind}"),
                        format!("version {v} after {op:?}: {short}"));
                }
            }
            if st.stable && !dsv.manifest().uses_stable_row_ids() {
                // the table was created with stable row ids; _rowid is an address from here on
                fatal(&mut f, "C18", "stable-flag", format!("stable-row-ids-flag-lost/after-{kind}"),
                    format!("version {v} after {op:?}: the manifest no longer carries the stable-row-id feature flag ({} fragments)", dsv.manifest().fragments.len()));
                return StepOut { next: None, outcome, findings: f };
            }
            let s = match snap(&dsv).await {
                Ok(s) => s,
                Err(e) => {
                    fatal(&mut f, "C05", "read", format!("scan-fails/after-{kind}"),
                        format!("version {v} after {op:?} cannot be scanned: {e}"));
                    return StepOut { next: None, outcome, findings: f };
                }
            };
            let ids = if st.stable {
                match scan_ids(&dsv).await {
                    Ok(i) => Some(i),
                    Err(e) => {
                        fatal(&mut f, "C17", "read", format!("version-columns-unreadable/after-{kind}"),
                            format!("version {v} after {op:?}: scan of _rowid/version columns fails: {e}"));
                        return StepOut { next: None, outcome, findings: f };
                    }
                }
            } else {
                None
            };
            // versions an op commits on the way (e.g. the fragment-id reservation of a compaction)
            // carry the old or the new table
            let inter_model = if bag_rows(&s.rows) == model_bag(st.model()) {
                Some(st.model().clone())
            } else if bag_rows(&s.rows) == model_bag(&expect) {
                Some(expect.clone())
            } else {
                None
            };
            n.vers.insert(
                v,
                VerRec {
                    snap: s,
                    summary,
                    model: if v == new_latest { Some(expect.clone()) } else { inter_model },
                    exists: true,
                    ids,
                    problems: classes,
                    bad_cols: inh_bad.clone(),
                },
            );
        }
        n.latest = new_latest;
        if new_latest > st.latest + 1 {
            self.count("ops_committing_several_versions", 1);
        }

        // ---- O-scan (model == implementation), owner C12 (write semantics); our own model must
        // agree before any other oracle is meaningful
        {
            let cur = if committed {
                n.vers[&new_latest].snap.rows.clone()
            } else {
                match vds::scan_cells(&ds, false, false).await {
                    Ok((_, r)) => r,
                    Err(e) => {
                        fatal(&mut f, "C05", "read", format!("scan-fails/after-{kind}"),
                            format!("latest after {op:?} cannot be scanned: {e}"));
                        return StepOut { next: None, outcome, findings: f };
                    }
                }
            };
            let want = if committed || !rejected { model_bag(&expect) } else { model_bag(st.model()) };
            if bag_rows(&cur) != want {
                fatal(&mut f, "C12", "scan-model", format!("scan-model/{kind}/{outcome}"),
                    format!("after {op:?} ({outcome}) table is {:?}, model expects {:?}", bag_rows(&cur), want));
                return StepOut { next: None, outcome, findings: f };
            }
            if !committed {
                n.next_uid = st.next_uid;
            }
        }

        // ---- row id ledger (C07 oracle 2 / C18)
        if st.stable && committed {
            let kinds = st.kinds();
            let restored_before = kinds.contains(&"restore") || kind == "restore";
            for v in (st.latest + 1)..=new_latest {
                let Some(ids) = n.vers[&v].ids.clone() else { continue };
                let mut seen_here: BTreeMap<u64, i32> = BTreeMap::new();
                for (uid, rid, _, _) in &ids {
                    if let Some(other) = seen_here.insert(*rid, *uid) {
                        note(&mut f, "C18", "rowid-unique", format!("rowid-duplicate-in-version/after-{kind}"),
                            format!("version {v}: row id {rid} carried by uids {other} and {uid}"));
                    }
                    match n.ledger.get_mut(rid) {
                        Some((uids, v0)) => {
                            if !uids.contains(uid) {
                                let rewound = {
                                    let hi = st.vers.values().filter_map(|r| r.summary.as_ref().map(|s| s.next_row_id)).max();
                                    let cur = st.vers[&st.latest].summary.as_ref().map(|s| s.next_row_id);
                                    matches!((hi, cur), (Some(h), Some(c)) if c < h && *rid >= c)
                                };
                                let (owner, key) = if restored_before && rewound {
                                    // the id was drawn from a next_row_id counter that restore set back
                                    ("C07", "rowid-reuse/after-restore/next_row_id-rewound".to_string())
                                } else if restored_before {
                                    ("C07", format!("rowid-reuse/after-restore/{kind}"))
                                } else {
                                    ("C18", format!("rowid-reuse/no-restore/{kind}"))
                                };
                                note(&mut f, owner, "rowid-ledger", key,
                                    format!("version {v} (after {op:?}): row id {rid} is handed to uid {uid}, but version {v0} already used it for uid {:?}", uids));
                                uids.push(*uid);
                            }
                        }
                        None => {
                            n.ledger.insert(*rid, (vec![*uid], v));
                        }
                    }
                }
                self.count("ledger.rows_checked", ids.len() as u64);
            }
            if restored_before && matches!(kind, "append" | "merge_full" | "overwrite" | "update" | "merge_partial") {
                self.count(&format!("ledger.{kind}_after_restore"), 1);
            }
        }

        // ---- C07 oracle 1: restore(v) == snapshot(v)
        if let Op::Restore { v } = op {
            if self.oracles.restore && committed {
                self.count("restore.compared", 1);
                let old = &st.vers[v].snap;
                let new = &n.vers[&new_latest].snap;
                if let Some((field, d)) = restore_diff(old, new) {
                    note(&mut f, "C07", "restore-equals", format!("restore-differs/{field}"),
                        format!("restore({v}) committed version {new_latest} which differs from version {v}: {d}"));
                }
                if st.stable {
                    let a = &st.vers[v].ids;
                    let b = &n.vers[&new_latest].ids;
                    if a != b {
                        note(&mut f, "C07", "restore-equals", "restore-differs/rowids-or-version-columns".into(),
                            format!("restore({v}): (uid,_rowid,created,updated) {b:?} differ from version {v}'s {a:?}"));
                    }
                }
            } else if !committed {
                self.count("restore.not_committed", 1);
            }
        }

        // ---- C06 O-snap: every version ever committed
        if self.oracles.snap {
            self.check_old_versions(&env, st, &n, op, &mut f).await;
            self.check_branch_versions(&env, st, &mut n, op, &mut f).await;
        }

        // ---- C13: compaction preserves contents
        if self.oracles.compaction && is_compaction && committed {
            self.count("compaction.committed", 1);
            let before = parent;
            let after = &n.vers[&new_latest];
            let shape = compaction_shape(op, st);
            if bag_rows(&before.snap.rows) != bag_rows(&after.snap.rows) {
                note(&mut f, "C13", "compaction-bag", format!("compaction-changes-rows/{shape}"),
                    format!("{op:?}: rows before {:?} after {:?}", before.snap.rows, after.snap.rows));
            } else if before.snap.rows != after.snap.rows {
                self.count("compaction.order_changed", 1);
            }
            if before.snap.schema != after.snap.schema {
                note(&mut f, "C13", "compaction-schema", format!("compaction-changes-schema/{shape}"),
                    format!("{op:?}: schema {} -> {}", before.snap.schema, after.snap.schema));
            }
            if after.snap.deleted_rows > 0 {
                self.count("compaction.deletions_kept", 1);
            }
            if let (Some(a), Some(b)) = (&before.ids, &after.ids) {
                let ma: BTreeMap<i32, (u64, u64, u64)> = a.iter().map(|r| (r.0, (r.1, r.2, r.3))).collect();
                let mb: BTreeMap<i32, (u64, u64, u64)> = b.iter().map(|r| (r.0, (r.1, r.2, r.3))).collect();
                self.count("compaction.id_rows_compared", ma.len() as u64);
                for (uid, x) in &ma {
                    if let Some(y) = mb.get(uid) {
                        if x.0 != y.0 {
                            note(&mut f, "C13", "compaction-rowid", format!("compaction-changes-rowid/{shape}"),
                                format!("{op:?}: uid {uid} row id {} -> {}", x.0, y.0));
                        }
                        if x.1 != y.1 {
                            note(&mut f, "C13", "compaction-created", format!("compaction-changes-created-version/{shape}"),
                                format!("{op:?}: uid {uid} _row_created_at_version {} -> {}", x.1, y.1));
                        }
                        if x.2 != y.2 {
                            note(&mut f, "C13", "compaction-updated", format!("compaction-changes-updated-version/{shape}"),
                                format!("{op:?}: uid {uid} _row_last_updated_at_version {} -> {}", x.2, y.2));
                        }
                    }
                }
            }
            if let Some(bi) = before_idx {
                let ai = self.index_answers(&ds).await;
                self.count("compaction.index_answers_compared", ai.len() as u64);
                for ((p, a_idx, _), (_, b_idx, _)) in ai.iter().zip(bi.iter()) {
                    if a_idx != b_idx {
                        note(&mut f, "C13", "compaction-index", format!("compaction-changes-index-answer/{}", remap_shape(op, st)),
                            format!("{op:?}: indexed query {p} before {b_idx:?} after {a_idx:?}"));
                    }
                }
            }
        } else if self.oracles.compaction && is_compaction {
            self.count("compaction.nothing_committed", 1);
        }
        if matches!(op, Op::Compact { o } | Op::CompactDist { o, .. } if o.defer) && committed {
            // pending only if the compaction really recorded a fragment reuse index (it does not
            // for tables with stable row ids, where nothing needs remapping)
            let recorded = n.vers[&new_latest]
                .summary
                .as_ref()
                .map(|s| s.indices.iter().any(|i| i.0 == "__lance_frag_reuse"));
            n.deferred_pending = recorded.unwrap_or(true);
        }
        if matches!(op, Op::Optimize | Op::RemapIndexK) && committed {
            n.deferred_pending = false;
        }

        // ---- index queries == unindexed == model in every state that has the index
        if self.oracles.index_queries && has_index(&n.vers[&n.latest].snap) {
            let answers = self.index_answers(&ds).await;
            let model = n.model();
            let mut wrong = false;
            for (i, (p, with, without)) in answers.iter().enumerate() {
                self.count("index_queries.compared", 1);
                let pr = &index_preds()[i];
                let mut want: Vec<i32> = model
                    .iter()
                    .filter(|r| pr.eval(&|c: &str| r.row.get(c)) == Some(true))
                    .map(|r| r.row.uid)
                    .collect();
                want.sort();
                if !want.is_empty() {
                    self.count("index_queries.nonempty", 1);
                }
                let want: Result<Vec<i32>, String> = Ok(want);
                if with != &want || without != &want {
                    // owned by C13 when compaction (or the deferred remap after it) is the step
                    // that broke a previously consistent index, else C19/C24
                    let panicked = [with, without].iter().find_map(|r| match r {
                        Err(e) if e.starts_with("panic at ") => Some(e.clone()),
                        _ => None,
                    });
                    let compacted = is_compaction || st.kinds().iter().any(|k| k.starts_with("compact"));
                    let (owner, key) = if let Some(pm) = panicked {
                        // a query that panics; compaction's re-chunked row id sequences are C13's
                        let site = pm.trim_start_matches("panic at ").split(':').take(2).collect::<Vec<_>>().join(":");
                        (if compacted { "C13" } else { "C19" }, format!("index-query-panics/{site}{}", if compacted { "/after-compaction" } else { "" }))
                    } else if is_compaction {
                        ("C13", format!("index-answer-wrong/after-compaction/{}", remap_shape(op, st)))
                    } else if st.deferred_pending {
                        ("C13", format!("index-answer-wrong/after-{kind}/deferred-remap-pending/{}", if st.stable { "stable-ids" } else { "addr-ids" }))
                    } else {
                        ("C19", format!("index-answer-wrong/after-{kind}"))
                    };
                    wrong = true;
                    // a wrong index stays wrong in the states below: stop here
                    fatal(&mut f, owner, "index-query", key,
                        format!("after {op:?}: `{p}` with index {with:?}, without {without:?}, model {want:?}"));
                }
            }
            let _ = wrong;
        }

        // ---- C17: version columns and deltas
        if self.oracles.cdf && st.stable && committed {
            self.check_cdf(&env, st, &mut n, op, &mut f).await;
        }

        n.fingerprint();
        let expand = !f.iter().any(|x| x.fatal);
        StepOut {
            next: if expand && (n.fp != st.fp) { Some(n) } else { None },
            outcome,
            findings: f,
        }
    }

    /// (predicate sql, answer with scalar index, answer without) for the fixed predicate list;
    /// a panic of a query is turned into an `Err("panic at <site>: ..")` answer
    async fn index_answers(&self, ds: &Dataset) -> Vec<(String, Result<Vec<i32>, String>, Result<Vec<i32>, String>)> {
        let mut out = vec![];
        for p in index_preds() {
            let sql = p.sql();
            let a = guarded(scan_filter_uids(ds, &sql, true)).await;
            let b = guarded(scan_filter_uids(ds, &sql, false)).await;
            out.push((sql, a, b));
        }
        out
    }

    async fn check_old_versions(&self, env: &Env, st: &HState, n: &HState, op: &Op, f: &mut Vec<Finding>) {
        let kind = op.kind();
        for (v, rec) in n.vers.iter() {
            if *v > st.latest {
                continue; // committed by this very step
            }
            let opened = env.open_version(URI, *v).await;
            if rec.exists {
                self.count("snap.versions_compared", 1);
                match opened {
                    Err(e) => note(f, "C06", "snap", format!("version-lost/after-{kind}"),
                        format!("version {v} can no longer be opened after {op:?}: {e}")),
                    Ok(d) => match snap(&d).await {
                        Err(e) => note(f, "C06", "snap", format!("version-unreadable/after-{kind}"),
                            format!("version {v} can no longer be read after {op:?}: {e}")),
                        Ok(s) => {
                            if let Some(d) = vds::snap_diff(&rec.snap, &s) {
                                let field = d.split_whitespace().next().unwrap_or("?").to_string();
                                note(f, "C06", "snap", format!("version-changed/{field}/after-{kind}"),
                                    format!("version {v} changed after {op:?}: {d}"));
                            }
                            if let (Some(ids), true) = (&rec.ids, st.stable) {
                                match scan_ids(&d).await {
                                    Ok(now) if &now != ids => note(f, "C06", "snap", format!("version-changed/rowids/after-{kind}"),
                                        format!("version {v} row ids / version columns changed after {op:?}: {ids:?} -> {now:?}")),
                                    Err(e) => note(f, "C06", "snap", format!("version-unreadable/after-{kind}"),
                                        format!("version {v} ids unreadable after {op:?}: {e}")),
                                    _ => {}
                                }
                            }
                        }
                    },
                }
            } else {
                self.count("snap.cleaned_versions_probed", 1);
                match opened {
                    Err(_) => self.count("snap.cleaned_versions_fail_to_open", 1),
                    Ok(d) => match snap(&d).await {
                        Ok(s) if vds::snap_diff(&rec.snap, &s).is_none() => {
                            self.count("snap.cleaned_versions_still_intact", 1)
                        }
                        Ok(s) => note(f, "C06", "snap", format!("cleaned-version-returns-different-data/after-{kind}"),
                            format!("version {v} (removed by cleanup) opens and returns {:?}, snapshot was {:?}", s.rows, rec.snap.rows)),
                        Err(e) => {
                            // manifest still present but files gone: an error, not different data
                            self.count("snap.cleaned_versions_open_but_unreadable", 1);
                            if self.verbose {
                                eprintln!("  cleaned version {v} opens but scan fails: {e}");
                            }
                        }
                    },
                }
            }
        }
        // tags resolve to the snapshot of their target
        for (t, v) in n.tags.iter() {
            let Some(rec) = n.vers.get(v) else { continue };
            self.count("snap.tags_resolved", 1);
            let d0 = match env.open(URI).await {
                Ok(d) => d,
                Err(_) => continue,
            };
            match d0.checkout_version(tag_name(*t).as_str()).await {
                Err(e) => note(f, "C06", "snap-tag", format!("tag-lost/after-{kind}"),
                    format!("tag {} -> version {v} cannot be checked out after {op:?}: {e}", tag_name(*t))),
                Ok(d) => match snap(&d).await {
                    Ok(s) => {
                        if s.version != *v {
                            note(f, "C06", "snap-tag", format!("tag-resolves-elsewhere/after-{kind}"),
                                format!("tag {} resolves to version {} instead of {v}", tag_name(*t), s.version));
                        } else if let Some(d) = vds::snap_diff(&rec.snap, &s) {
                            note(f, "C06", "snap-tag", format!("tagged-version-changed/after-{kind}"),
                                format!("tagged version {v} changed after {op:?}: {d}"));
                        }
                    }
                    Err(e) => note(f, "C06", "snap-tag", format!("tagged-version-unreadable/after-{kind}"),
                        format!("tagged version {v} unreadable after {op:?}: {e}")),
                },
            }
        }
    }

    /// O-snap on the versions of branch b0 that existed before this step
    async fn check_branch_versions(&self, env: &Env, st: &HState, n: &mut HState, op: &Op, f: &mut Vec<Finding>) {
        let kind = op.kind();
        let (Some(old), Some(_)) = (&st.branch, &n.branch) else { return };
        let main = match env.open(URI).await {
            Ok(d) => d,
            Err(_) => return,
        };
        for (v, want) in old.iter() {
            if n.branch_broken.contains(v) {
                // already reported at the step that broke it
                self.count("snap.branch_versions_known_broken", 1);
                continue;
            }
            self.count("snap.branch_versions_compared", 1);
            let failure: Option<(&str, String)> = match main.checkout_version((BRANCH, *v)).await {
                Err(e) => Some(("lost", e.to_string())),
                Ok(d) => match snap(&d).await {
                    Err(e) => Some(("unreadable", e.to_string())),
                    Ok(s) => {
                        if let Some(d) = vds::snap_diff(want, &s) {
                            note(f, "C06", "snap-branch", format!("branch-version-changed/after-{kind}"),
                                format!("version {v} of branch {BRANCH} changed after {op:?}: {d}"));
                        }
                        None
                    }
                },
            };
            let Some((how, msg)) = failure else { continue };
            n.branch_broken.insert(*v);
            // root cause: a cleanup on main (after the branch was created) selected the version the
            // branch was cloned from and removed a data file of that version which the branch
            // still references
            let root_cause = match &n.branch_src {
                Some((src, files)) => {
                    let cleaned = n.vers.get(src).map(|r| !r.exists).unwrap_or(false);
                    let missing_src_file = msg.contains("not found")
                        && files.iter().any(|name| msg.contains(&format!("tbl/{name}")));
                    cleaned && missing_src_file
                }
                None => false,
            };
            let short: String = msg.chars().take(400).collect();
            if root_cause {
                let src = n.branch_src.as_ref().map(|x| x.0).unwrap_or(0);
                note(f, "C06", "snap-branch", "branch-version-unreadable/main-cleanup-removed-files-referenced-by-branch".into(),
                    format!("version {v} of branch {BRANCH} (created from main version {src}) is {how} after {op:?}: a cleanup on main removed version {src} and a data / deletion file of it that the branch still references: {short}"));
            } else {
                note(f, "C06", "snap-branch", format!("branch-version-{how}/after-{kind}"),
                    format!("version {v} of branch {BRANCH} is {how} after {op:?}: {short}"));
            }
        }
    }

    async fn check_cdf(&self, env: &Env, st: &HState, n: &mut HState, op: &Op, f: &mut Vec<Finding>) {
        let kind = op.kind();
        let e = n.latest;
        let rec = n.vers[&e].clone();
        let (Some(ids), Some(model)) = (&rec.ids, &rec.model) else { return };
        // update and full-schema upsert both commit Operation::Update in RewriteRows mode; the
        // partial-schema upsert commits it in RewriteColumns mode
        let shape = match kind {
            "update" | "merge_full" => "rewrite-rows".to_string(),
            "merge_partial" => "rewrite-columns".to_string(),
            k => k.to_string(),
        };
        let by_uid: BTreeMap<i32, &MR> = model.iter().map(|r| (r.row.uid, r)).collect();
        let mut bad = rec.bad_cols.clone();
        // per-row version columns
        let mut created_of: BTreeMap<i32, u64> = BTreeMap::new();
        for (uid, rid, created, updated) in ids {
            let Some((uids, first)) = n.ledger.get(rid) else { continue };
            if uids.len() > 1 {
                // a reused row id (C07's finding) has no well-defined creation version
                self.count("cdf.rows_skipped_reused_rowid", 1);
                bad.insert((*uid, 0));
                continue;
            }
            self.count("cdf.rows_checked", 1);
            let want_created = *first;
            created_of.insert(*uid, want_created);
            if *created != want_created && bad.insert((*uid, 0)) {
                let which = if want_created == e { "row-inserted-by-this-op" } else { "row-that-existed-before" };
                note(f, "C17", "created-at", format!("created-at-wrong/{shape}/{which}"),
                    format!("version {e} after {op:?}: uid {uid} (row id {rid}, first seen in version {want_created}) has _row_created_at_version {created}"));
            }
            if let Some(m) = by_uid.get(uid) {
                // a row whose row id is new in this version cannot be older than its creation
                let want_updated = m.updated.max(want_created);
                if *updated != want_updated && bad.insert((*uid, 1)) {
                    note(f, "C17", "updated-at", format!("updated-at-wrong/{shape}"),
                        format!("version {e} after {op:?}: uid {uid} has _row_last_updated_at_version {updated}, model says {want_updated}"));
                }
            }
        }
        // rows that are gone no longer count
        bad.retain(|(u, _)| by_uid.contains_key(u));
        let clean = bad.is_empty();
        n.vers.get_mut(&e).unwrap().bad_cols = bad;
        if !clean {
            // the delta API filters on the very columns that are already known to be wrong here
            self.count("cdf.delta_skipped_version_columns_wrong", 1);
            return;
        }
        // deltas for every pair (b, e), b < e, through a fresh handle on version e
        let ds = match env.open_version(URI, e).await {
            Ok(d) => d,
            Err(_) => return,
        };
        for b in 0..e {
            self.count("cdf.delta_pairs", 1);
            let mut want_ins: Vec<i32> = vec![];
            let mut want_upd: Vec<i32> = vec![];
            for m in model.iter() {
                let c = created_of.get(&m.row.uid).copied().unwrap_or(e);
                let u = m.updated.max(c);
                if c > b && c <= e {
                    want_ins.push(m.row.uid);
                } else if c <= b && u > b && u <= e {
                    want_upd.push(m.row.uid);
                }
            }
            want_ins.sort();
            want_upd.sort();
            let delta = match ds.delta().with_begin_version(b).with_end_version(e).build() {
                Ok(d) => d,
                Err(err) => {
                    note(f, "C17", "delta", format!("delta-build-fails/{kind}"), format!("delta({b},{e}): {err}"));
                    continue;
                }
            };
            let got_ins = stream_uids(delta.get_inserted_rows().await).await;
            let got_upd = stream_uids(delta.get_updated_rows().await).await;
            if got_ins != Ok(want_ins.clone()) {
                note(f, "C17", "delta-inserted", format!("delta-inserted-wrong/{shape}"),
                    format!("after {op:?}: inserted rows in ({b},{e}] = {got_ins:?}, model {want_ins:?}"));
            }
            if got_upd != Ok(want_upd.clone()) {
                note(f, "C17", "delta-updated", format!("delta-updated-wrong/{shape}"),
                    format!("after {op:?}: updated rows in ({b},{e}] = {got_upd:?}, model {want_upd:?}"));
            }
            if !want_ins.is_empty() {
                self.count("cdf.delta_nonempty_inserted", 1);
            }
            if !want_upd.is_empty() {
                self.count("cdf.delta_nonempty_updated", 1);
            }
        }
    }

    /// dispatch the findings of one step: own -> `self.own` (with a complete case), others -> foreign
    fn dispatch(&self, st: &HState, op: &Op, findings: Vec<Finding>) {
        if findings.is_empty() {
            return;
        }
        let mut ops: Vec<Value> = st.ops.iter().map(|o| serde_json::to_value(o).unwrap()).collect();
        ops.push(serde_json::to_value(op).unwrap());
        for fd in findings {
            if fd.owner == self.property || self.property == "PROBE" {
                let mut v = fd.v;
                v.case = json!({"root": st.root, "ops": ops, "detail": {"owner": fd.owner}});
                if self.verbose {
                    eprintln!("  FINDING[{}] {} :: {}", fd.owner, v.key, v.what.chars().take(600).collect::<String>());
                }
                self.own.lock().unwrap().push(v);
            } else {
                let mut g = self.foreign.lock().unwrap();
                let key = format!("{}:{}", fd.owner, fd.v.key);
                let what: String = fd.v.what.chars().take(500).collect();
                g.entry(key)
                    .and_modify(|e| e.0 += 1)
                    .or_insert((1, json!({"what": what, "root": st.root, "ops": ops})));
            }
        }
    }

    /// `--replay`: re-execute one recorded op list; returns this property's findings on it
    pub fn replay_ops(&self, case: &Value) -> Result<Vec<Violation>, String> {
        let root = case.get("root").and_then(|r| r.as_str()).ok_or("replay case has no root")?;
        let ops = case.get("ops").and_then(|o| o.as_array()).ok_or("replay case has no ops")?;
        let mut st = self
            .init()
            .into_iter()
            .find(|(l, _)| l == root)
            .ok_or(format!("unknown root {root}"))?
            .1;
        for (i, o) in ops.iter().enumerate() {
            let op: Op = serde_json::from_value(o.clone()).map_err(|e| format!("bad op: {e}"))?;
            let step = self.step(&st, &op);
            match step.next {
                Some(nx) => st = nx,
                None if i + 1 < ops.len() => {
                    if self.own.lock().unwrap().is_empty() {
                        return Err(format!("op #{i} {op:?} ({}) does not lead to a new state", step.outcome));
                    }
                    break;
                }
                None => {}
            }
        }
        Ok(self.take_own())
    }
}

async fn guarded(fut: impl std::future::Future<Output = lance::Result<Vec<i32>>>) -> Result<Vec<i32>, String> {
    match std::panic::AssertUnwindSafe(fut).catch_unwind().await {
        Ok(r) => r.map_err(|e| e.to_string()),
        Err(p) => Err(format!(
            "panic at {}: {}",
            last_panic_site(),
            vcore::panic_message(&p).chars().take(200).collect::<String>()
        )),
    }
}

async fn stream_uids(s: lance::Result<lance::dataset::scanner::DatasetRecordBatchStream>) -> Result<Vec<i32>, String> {
    let s = s.map_err(|e| e.to_string())?;
    let batches: Vec<RecordBatch> = s.try_collect().await.map_err(|e| e.to_string())?;
    let mut out = vec![];
    for b in &batches {
        let names = vds::cells::batch_cols(b);
        let iu = names.iter().position(|x| x == "uid").ok_or("no uid column")?;
        for r in vds::cells::batch_rows(b) {
            out.push(r[iu].as_i64().unwrap_or(-1) as i32);
        }
    }
    out.sort();
    Ok(out)
}

fn copts(o: &COpt) -> CompactionOptions {
    CompactionOptions {
        target_rows_per_fragment: o.target,
        materialize_deletions: o.mat,
        materialize_deletions_threshold: 0.0,
        defer_index_remap: o.defer,
        num_threads: Some(1),
        ..Default::default()
    }
}

pub const BRANCH: &str = "b0";

fn tag_name(t: u8) -> String {
    format!("t{t}")
}

/// all non-empty sequences without repetition over `n` task slots
fn task_picks(n: u8) -> Vec<Vec<u8>> {
    let mut out: Vec<Vec<u8>> = vec![];
    fn go(n: u8, cur: &mut Vec<u8>, out: &mut Vec<Vec<u8>>) {
        if !cur.is_empty() {
            out.push(cur.clone());
        }
        for i in 0..n {
            if !cur.contains(&i) {
                cur.push(i);
                go(n, cur, out);
                cur.pop();
            }
        }
    }
    go(n, &mut vec![], &mut out);
    out.sort_by_key(|p| (p.len(), p.clone()));
    out
}

/// which id style the table uses and whether the index remap is done now or deferred
fn remap_shape(op: &Op, st: &HState) -> String {
    let defer = matches!(op, Op::Compact { o } | Op::CompactDist { o, .. } if o.defer);
    format!(
        "{}/{}{}",
        if st.stable { "stable-ids" } else { "addr-ids" },
        if defer { "remap-deferred" } else { "remap-now" },
        if st.deferred_pending { "/while-deferred-remap-pending" } else { "" }
    )
}

fn compaction_shape(op: &Op, st: &HState) -> String {
    let o = match op {
        Op::Compact { o } | Op::CompactDist { o, .. } => o,
        _ => unreachable!(),
    };
    let cur = &st.vers[&st.latest];
    format!(
        "{}{}{}{}{}",
        op.kind(),
        if st.stable { "/stable-ids" } else { "/addr-ids" },
        if cur.snap.deleted_rows > 0 { if o.mat { "/materialize-deletions" } else { "/keep-deletions" } } else { "/no-deletions" },
        if has_index(&cur.snap) { if o.defer { "/index-deferred" } else { "/index" } } else { "" },
        if st.kinds().iter().any(|k| matches!(*k, "update" | "merge_full" | "merge_partial")) { "/after-update" } else { "" },
    )
}

/// classify an O-struct problem text (as produced by vds::structure::check_struct) into a stable class
fn problem_class(p: &str) -> String {
    // validation errors carry the reason in Lance's own words
    if p.contains("fails validate()") || p.starts_with("validate() failed") {
        let reason = if p.contains("is not in increasing order") {
            // FileFragment::validate rejects every negative (tombstoned) field id
            if p.contains("Field id -2") { "tombstoned-field-id" } else { "field-id-order" }
        } else if p.contains("is duplicated in fragment") {
            "field-id-duplicated"
        } else if p.contains("incorrect length") {
            "data-file-length"
        } else if p.contains("mix of v1 and v2") {
            "mixed-file-versions"
        } else {
            "other"
        };
        return format!("validate/{reason}");
    }
    let table = [
        ("duplicate schema field id", "dup-field-id"),
        ("not strictly increasing", "fragment-order"),
        ("above recorded max_fragment_id", "max-fragment-id"),
        ("max_fragment_id is None", "max-fragment-id-none"),
        ("stored by two data files", "field-in-two-files"),
        ("stored by no data file", "field-in-no-file"),
        ("not retrievable", "fragment-not-retrievable"),
        ("no physical_rows", "no-physical-rows"),
        ("deletion vector names row", "deletion-out-of-range"),
        ("deletion file says", "deletion-count"),
        ("deletion file named but", "deletion-file-missing"),
        ("deletion vector unreadable", "deletion-unreadable"),
        ("row ids for", "rowid-count"),
        (">= next_row_id", "rowid-above-next"),
        ("live in two places", "rowid-in-two-fragments"),
        ("no row id sequence", "rowid-missing"),
        ("row id sequence unreadable", "rowid-unreadable"),
        ("names field id", "index-field"),
        ("load_indices failed", "load-indices"),
        ("count_rows", "count-rows"),
    ];
    for (needle, class) in table {
        if p.contains(needle) {
            return class.to_string();
        }
    }
    "other".into()
}

fn restore_diff(old: &VersionSnap, new: &VersionSnap) -> Option<(&'static str, String)> {
    if old.schema != new.schema {
        return Some(("schema", format!("schema {} vs {}", old.schema, new.schema)));
    }
    if old.rows != new.rows {
        return Some(("rows", format!("rows {:?} vs {:?}", old.rows, new.rows)));
    }
    if old.deleted_rows != new.deleted_rows {
        return Some(("deletions", format!("deleted {} vs {}", old.deleted_rows, new.deleted_rows)));
    }
    if old.indices != new.indices {
        return Some(("indices", format!("indices {:?} vs {:?}", old.indices, new.indices)));
    }
    None
}

impl Sut for Hist {
    type State = HState;
    type Op = Op;

    fn init(&self) -> Vec<(String, HState)> {
        self.roots
            .iter()
            .map(|r| (r.label.clone(), vds::block_on(self.make_root(r))))
            .collect()
    }

    fn ops(&self, st: &HState, _depth: usize) -> Vec<Op> {
        self.enabled_ops(st)
    }

    fn step(&self, st: &HState, op: &Op) -> Step<HState> {
        let out = match vds::run_catch(self.step_async(st, op)) {
            Ok(o) => o,
            Err(panic) => {
                let msg: String = panic.chars().take(500).collect();
                let site = last_panic_site();
                StepOut {
                    next: None,
                    outcome: "panic".into(),
                    findings: vec![Finding {
                        owner: if matches!(op, Op::Compact { .. } | Op::CompactDist { .. }) { "C13" } else { "C05" },
                        fatal: true,
                        v: Violation::new("panic", &panic_key(&site, &msg),
                            format!("{op:?} returned, but then reading the table (open / load_indices / scan of the version it left) panicked at {site}: {msg}"), json!({})),
                    }],
                }
            }
        };
        if out.findings.iter().any(|x| x.fatal) {
            self.count("pruned_below_fatal_finding", 1);
        }
        self.dispatch(st, op, out.findings);
        Step {
            next: out.next,
            outcome: out.outcome,
            violations: vec![],
        }
    }

    fn canon(&self, st: &HState) -> u64 {
        st.fp
    }

    fn op_kind(&self, op: &Op) -> String {
        op.kind().to_string()
    }
}

// ------------------------------------------------------------------------------------------------
// running a profile

pub struct ProfileRun {
    pub name: String,
    pub report: vcore::seqx::Report,
    pub own: Vec<Violation>,
    pub counters: Value,
    pub foreign: Value,
    pub wall_s: f64,
}

pub fn run_profile(name: &str, h: &Hist, caps: &vcore::seqx::Caps, workers: usize) -> ProfileRun {
    let t = std::time::Instant::now();
    let report = vcore::seqx::explore(h, caps, workers);
    ProfileRun {
        name: name.to_string(),
        report,
        own: h.take_own(),
        counters: h.counters_json(),
        foreign: h.foreign_json(),
        wall_s: t.elapsed().as_secs_f64(),
    }
}

/// Merge profile runs into one outcome (states/transitions are sums over the profiles).
pub fn finish_profiles(out: &mut vcore::Outcome, runs: Vec<ProfileRun>) {
    let mut total = vcore::seqx::Report::default();
    let mut profiles = vec![];
    let mut foreign = vec![];
    let mut own_keys: BTreeMap<String, u64> = BTreeMap::new();
    for r in runs {
        profiles.push(json!({
            "profile": r.name, "states": r.report.states, "transitions": r.report.transitions,
            "max_depth": r.report.max_depth, "level_sizes": r.report.level_sizes,
            "cap_hit": r.report.cap_hit, "wall_s": (r.wall_s * 10.0).round() / 10.0,
            "oracle_counters": r.counters, "distinct_outcomes": r.report.outcomes.len(),
        }));
        if let Value::Array(a) = r.foreign {
            for mut x in a {
                x["profile"] = json!(r.name);
                foreign.push(x);
            }
        }
        for v in &r.own {
            *own_keys.entry(v.key.clone()).or_insert(0) += 1;
        }
        out.violations.extend(r.own.into_iter());
        total.merge(r.report);
    }
    total.fill(out);
    out.set("profiles", Value::Array(profiles));
    out.set("foreign_findings", Value::Array(foreign));
    out.set("own_findings_by_key", json!(own_keys));
}

/// `--replay`: re-execute one recorded op list with the property's oracles.
pub fn replay(h: &Hist, art: &Value) -> vcore::Outcome {
    let mut out = vcore::Outcome::new("model_checking");
    let case = art.get("case").cloned().unwrap_or(Value::Null);
    match h.replay_ops(&case) {
        Ok(vs) => {
            let n = case.get("ops").and_then(|o| o.as_array()).map(|a| a.len()).unwrap_or(0) as u64;
            out.set("states", n + 1);
            out.set("transitions", n);
            out.set("traces_validated_against_impl", 1u64);
            out.set("samples", json!([case]));
            out.set("foreign_findings", h.foreign_json());
            // only the key named by the artefact decides the replay verdict
            let want = art.get("key").and_then(|k| k.as_str()).map(|s| s.to_string());
            out.violations = vs
                .into_iter()
                .filter(|v| want.as_ref().map(|w| &v.key == w).unwrap_or(true))
                .collect();
        }
        Err(e) => vcore::machinery_error(&format!("replay failed: {e}")),
    }
    out
}
