//! vx_hist: see /verif/harness/AGENTS-GUIDE.md; one module per property, dispatched on the property id.
//! All properties of this binary share one history engine (`engine.rs`, kernel K1).

mod c05;
mod c06;
mod c07;
mod c13;
mod c17;
mod engine;
mod probe;
mod profile;

use vcore::{machinery_error, Ctx};

fn main() {
    let ctx = Ctx::from_args();
    engine::install_panic_hook();
    let out: vcore::Outcome = match ctx.id.as_str() {
        "C05" => c05::run(&ctx),
        "C06" => c06::run(&ctx),
        "C07" => c07::run(&ctx),
        "C13" => c13::run(&ctx),
        "C17" => c17::run(&ctx),
        "PROBE" => probe::run(&ctx),
        other => machinery_error(&format!("vx_hist does not implement {other}")),
    };
    vcore::finish(&ctx, out);
}
