//! C13 - compaction and other rewrites never change table contents.
//! Before / after every committed compaction: bag of rows and schema equal; with stable row ids
//! uid -> _rowid, uid -> _row_created_at_version / _row_last_updated_at_version unchanged; answers
//! of the k-btree for a fixed predicate list equal before / after; in every state with the index:
//! indexed answer == unindexed answer == model (also while an index remap is deferred and after
//! optimize_indices). Thorough: distributed compaction (plan -> execute all tasks -> commit any
//! ordered subset of <= 3 tasks).

use crate::engine::*;
use crate::profile::*;
use vcore::{Ctx, Outcome};

fn base() -> Vec<Gen> {
    vec![
        one(Op::Append { n: 2, mrpf: 1 }),
        one(Op::Delete { p: P::UidEven }),
        one(Op::Update { s: S::KInc, p: P::KGe1 }),
        one(Op::CreateIndexK),
        compact(1_000_000, true, false),
        compact(2, false, false),
        compact(1_000_000, true, true),
        one(Op::Optimize),
    ]
}

fn more_options() -> Vec<Gen> {
    vec![
        one(Op::Append { n: 3, mrpf: 1 }),
        one(Op::Delete { p: P::K0 }),
        one(Op::CreateIndexK),
        compact(4, true, false),
        compact(4, false, true),
        compact(2, true, true),
        one(Op::Optimize),
        one(Op::RemapIndexK),
    ]
}

fn distributed() -> Vec<Gen> {
    vec![
        one(Op::Append { n: 3, mrpf: 1 }),
        one(Op::Delete { p: P::UidEven }),
        one(Op::CreateIndexK),
        Gen::CompactDistAll(COpt { target: 2, mat: true, defer: false }),
        Gen::CompactDistAll(COpt { target: 4, mat: true, defer: true }),
    ]
}

pub fn run(ctx: &Ctx) -> Outcome {
    let q = ctx.quick();
    let mut specs = vec![Spec {
        name: "histories",
        roots: if q { vec![("L2", false), ("L2", true)] } else { vec![("L2", false), ("L2", true), ("L3", false), ("L3", true)] },
        alphabet: base(),
        depth: if q { 3 } else { 4 },
    }];
    if !q {
        specs.push(Spec { name: "more-options", roots: vec![("L3", false), ("L3", true)], alphabet: more_options(), depth: 4 });
        specs.push(Spec { name: "distributed", roots: vec![("L3", false), ("L3", true)], alphabet: distributed(), depth: 3 });
    }
    specs.reverse(); // smallest profile first
    run_check(ctx, "C13", Oracles { compaction: true, index_queries: true, structure: true, ..Default::default() }, specs, &[
        "index = btree on k; queried predicates: k = 0, k = 1, k = 2, k IS NULL, k >= 1 (no negations: the NULL handling of NOT over a btree is C19's finding)",
    ])
}
