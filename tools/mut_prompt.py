#!/usr/bin/env python3
"""Print the prompt given to a fresh mutation sub-agent for property <ID> (nothing from /verif but the property text)."""
import json, sys
pid = sys.argv[1]
n = sys.argv[2] if len(sys.argv) > 2 else "two"
for l in open('/verif/properties.jsonl'):
    p = json.loads(l)
    if p['id'] == pid:
        break
else:
    sys.exit("unknown id")
wt = f"/tmp/mut/{pid}"
tgt = sys.argv[3] if len(sys.argv) > 3 else f"{wt}-target"
print(f"""You are helping test a verification tool. You get one *semantic property* of the Rust codebase lancedb/lance and a private scratch git worktree of that codebase at {wt} (detached HEAD). Work ONLY inside {wt} and {wt}-out (create it). Do not read or touch /verif, /repo, or any other /tmp/mut directory.

Property {p['id']}: {p['title']}
Statement: {p['statement']}
Quantified over: {p['quantifier']['text']}
Code it is anchored in: {', '.join(p['anchors']['files'])}

Task: produce {n} independent, realistic changes to the lancedb/lance sources (each a separate small patch, at different sites/mechanisms) that BREAK this property while the code still compiles and the repository's existing tests still pass. Think of a plausible regression a maintainer could introduce (an off-by-one in cursor/offset logic, a missing case in a match, a check dropped or done in the wrong order, a cache key missing a component, acknowledging before persisting, a rebase step skipped, ...), not sabotage that ordinary use or the existing tests expose at once. Prefer changes that need something specific to manifest: a particular interleaving, a crash or fault at a particular point, a multi-step sequence of operations, an unusual input, or two cooperating sites that each look fine alone.

For each change deliver in {wt}-out/<k>/ (k = 1, 2, ...):
  patch.diff   - `git diff` of the change against the worktree HEAD (sources only; no test edits in the patch)
  demo.rs (or demo.md with exact commands) - a demonstration: a Rust test (e.g. an extra #[test]/#[tokio::test] you temporarily add to the relevant crate's tests, or an example program) that FAILS with the change and PASSES without it, with the exact command to run it
  notes.md     - which part of the property it breaks, what it needs in order to manifest, which existing test targets you ran (with pass counts) to confirm the existing tests still pass with the change.
Leave the worktree clean at the end (`git checkout -- . && git clean -fd` inside {wt}, but keep {wt}-out).

Practicalities: the sandbox is offline; always pass `--offline` to cargo. Use your own build directory: `export CARGO_TARGET_DIR={tgt}` (your own private build directory) (first build of a crate's tests takes several minutes; the big `lance` crate test binary takes 10+ minutes to build, so prefer running only the test targets of the crates you touch and their closest dependents, e.g. `cargo test --offline -p lance-core`, `cargo test --offline -p lance-index --lib scalar::`, `cargo test --offline -p lance --lib dataset::write::` with a filter relevant to the code you changed; state exactly what you ran). Use at most 6 parallel build jobs (`-j 6`) because other work shares the machine. Keep command output short (pipe through `tail`). Set RUST_BACKTRACE=0.
Finish with a short summary of the changes and the verification you did.""")
