#!/bin/bash
# run every registered check's quick tier once; one status line per check
cd /verif
tier=${1:-quick}
out=${2:-/tmp/run_all.log}
: > $out
for id in $(python3 -c "
import json,glob
ids=[]
for f in glob.glob('/verif/checks.d/*.json'): ids+=list(json.load(open(f)).keys())
print(' '.join(sorted(ids)))"); do
  s=$(date +%s)
  nice -n 5 ./check $id --tier $tier ${WORKERS:+--workers $WORKERS} > /tmp/run_all.$tier.$id.log 2>&1
  rc=$?
  e=$(date +%s)
  kf=$(grep -c '^KNOWN-FINDING' /tmp/run_all.$tier.$id.log)
  vio=$(grep -c '^VIOLATION' /tmp/run_all.$tier.$id.log)
  echo "$id rc=$rc secs=$((e-s)) known=$kf violations=$vio $(grep -o 'MACHINERY-ERROR.*' /tmp/run_all.$tier.$id.log | head -1 | cut -c1-150)" >> $out
done
echo DONE >> $out
