#!/bin/bash
# usage: tools/seed_test.sh <seeded-dir-name> <tier> <check-id>...
# applies /verif/seeded/<name>/patch.diff to /repo, runs the checks, reverts. Result lines go to seeded/<name>/detection.txt
name=$1; tier=$2; shift 2
d=/verif/seeded/$name
cd /repo || exit 2
if [ -n "$(git status --porcelain --untracked-files=no)" ]; then echo "/repo not clean"; exit 2; fi
git apply $d/patch.diff || { echo "patch does not apply"; exit 2; }
: > $d/detection.txt
for id in "$@"; do
  (cd /verif && ./check $id --tier $tier > /tmp/seed.$name.$id.log 2>&1); rc=$?
  v=$(grep -m1 '^VIOLATION' /tmp/seed.$name.$id.log | cut -c1-300)
  echo "$id tier=$tier rc=$rc $v $(grep -o 'MACHINERY-ERROR.*' /tmp/seed.$name.$id.log | head -1 | cut -c1-200)" | tee -a $d/detection.txt
done
git -C /repo checkout -- .
git -C /repo status --porcelain --untracked-files=no | head -3
