#!/bin/bash
# usage: tools/seed_lab.sh <seeded-dir-name> <tier> <check-id>...
# Like seed_test.sh but in the decoupled lab: /tmp/seedlab/repo (worktree of /repo HEAD) + /tmp/seedlab/verif
# (copy of /verif whose harness path deps point at the lab repo). /repo itself is never touched.
name=$1; tier=$2; shift 2
d=/verif/seeded/$name
cd /tmp/seedlab/repo || exit 2
git checkout -q -- . ; git clean -fdq
git apply $d/patch.diff || { echo "patch does not apply"; exit 2; }
: > $d/detection.txt
for id in "$@"; do
  (cd /tmp/seedlab/verif && VERIF_DIR=/tmp/seedlab/verif ./check $id --tier $tier > /tmp/seed.$name.$id.log 2>&1); rc=$?
  v=$(grep -m1 '^VIOLATION' /tmp/seed.$name.$id.log | cut -c1-300)
  echo "$id tier=$tier rc=$rc $v $(grep -o 'MACHINERY-ERROR.*' /tmp/seed.$name.$id.log | head -1 | cut -c1-200)" | tee -a $d/detection.txt
done
git checkout -q -- .
