#!/usr/bin/env python3
"""Merge known_findings.d/*.json (per-engine staging files) into known_findings.json and empty the staging files."""
import json, os, glob
ROOT = os.path.dirname(os.path.dirname(os.path.abspath(__file__)))
main_p = os.path.join(ROOT, "known_findings.json")
main = json.load(open(main_p)) if os.path.exists(main_p) else {"findings": [], "fixed": []}
seen = {(f["property"], f["key"]) for f in main["findings"]}
fixed_seen = set(main["fixed"])
for p in sorted(glob.glob(os.path.join(ROOT, "known_findings.d", "*.json"))):
    d = json.load(open(p))
    for f in d.get("findings", []):
        k = (f["property"], f["key"])
        if k not in seen:
            seen.add(k); main["findings"].append({"property": f["property"], "key": f["key"], "what": f["what"]})
    for s in d.get("fixed", []):
        if s not in fixed_seen:
            fixed_seen.add(s); main["fixed"].append(s)
    os.remove(p)
main["findings"].sort(key=lambda f: (f["property"], f["key"]))
json.dump(main, open(main_p, "w"), indent=1, ensure_ascii=False)
from collections import Counter
print(Counter(f["property"] for f in main["findings"]), len(main["fixed"]), "fixed")
