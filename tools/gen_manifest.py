#!/usr/bin/env python3
"""Generate /verif/MANIFEST.json from /verif/checks.json (the single source of truth the driver also reads)."""
import json, os
ROOT = os.path.dirname(os.path.dirname(os.path.abspath(__file__)))
checks = {}
for name in sorted(os.listdir(os.path.join(ROOT, "checks.d"))):
    if name.endswith(".json"):
        checks.update(json.load(open(os.path.join(ROOT, "checks.d", name))))
props = [json.loads(l) for l in open(os.path.join(ROOT, "properties.jsonl")) if l.strip()]
meta = json.load(open(os.path.join(ROOT, "manifest_meta.json")))
out = {
    "version": 1,
    "setup_cmd": meta["setup_cmd"],
    "hooks": meta["hooks"],
    "engines": meta["engines"],
    "checks": [],
    "notes": meta.get("notes", ""),
    "not_applicable": [],
}
na = meta.get("not_applicable", {})
for p in props:
    pid = p["id"]
    if pid in checks:
        c = checks[pid]
        entry = {
            "property_id": pid,
            "quick_cmd": f"./check {pid} --tier quick",
            "thorough_cmd": f"./check {pid} --tier thorough",
            "evidence_file": f"/verif/evidence/{pid}.json",
            "replay_cmd_template": f"./check {pid} --replay {{path}}",
            "engine": c["bin"],
            "level_claimed": {"category": c["level"], "text": c["text"], "design_ref": c.get("design_ref", f"DESIGN.md §4 {pid}")},
            "level_note": c["note"],
            "technique": c["technique"],
        }
        out["checks"].append(entry)
    else:
        out["not_applicable"].append({"property_id": pid, "reason": na.get(pid, "no check built yet in this round; planned in DESIGN.md §4/§9 (not claimed until its engine exists)")})
json.dump(out, open(os.path.join(ROOT, "MANIFEST.json"), "w"), indent=1)
print(f"{len(out['checks'])} checks, {len(out['not_applicable'])} not claimed")
