#!/usr/bin/env python3
"""Write /verif/seeded/<name>/meta.json from notes.md, patch.diff, detection.txt and confirm.txt."""
import json, os, re, glob
for d in sorted(glob.glob('/verif/seeded/*/')):
    name = os.path.basename(d.rstrip('/'))
    prop = name.split('-')[0]
    notes = open(d + 'notes.md').read() if os.path.exists(d + 'notes.md') else ''
    patch = open(d + 'patch.diff').read() if os.path.exists(d + 'patch.diff') else ''
    files = sorted(set(re.findall(r'^\+\+\+ b/(\S+)', patch, re.M)))
    def section(rx):
        m = re.search(rx, notes, re.I | re.S)
        return re.sub(r'\s+', ' ', m.group(1)).strip()[:900] if m else ''
    needs = section(r'(?:what it needs[^\n]*|needs to manifest[^\n]*|\*\*needs:?\*\*|\*\*what it needs[^\n]*\*\*:?)\s*(.+?)(?:\n#|\n\*\*[A-Z]|\Z)')
    breaks = section(r'(?:which part[^\n]*|what (?:it )?breaks[^\n]*|\*\*breaks:?\*\*)\s*(.+?)(?:\n#|\n\*\*[A-Z]|\Z)')
    det = open(d + 'detection.txt').read().strip().splitlines() if os.path.exists(d + 'detection.txt') else []
    conf = open(d + 'confirm.txt').read().strip() if os.path.exists(d + 'confirm.txt') else ''
    caught = [l.split()[0] for l in det if ' rc=1 ' in l]
    meta = {
        "name": name,
        "property": prop,
        "origin": "fresh sub-agent that saw only the property text and a scratch git worktree of lancedb/lance (nothing from /verif)",
        "files_changed": files,
        "breaks": breaks or notes[:600],
        "needs_to_manifest": needs,
        "demonstration": "demo.rs (exact command in its header / notes.md): fails with patch.diff, passes without it",
        "author_verification": "see notes.md (existing test targets run with the change applied, with pass counts)",
        "lead_verification": {
            "patch_applies_to_repo_head": True,
            "checks_run_against_it": det,
            "caught_by": caught,
            "confirmation": conf or "demo / existing-test re-run by the lead: see DESIGN.md §12",
        },
    }
    json.dump(meta, open(d + 'meta.json', 'w'), indent=1, ensure_ascii=False)
print("ok")
