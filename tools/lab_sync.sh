#!/bin/bash
# refresh the seed lab's copy of the check sources from /verif (keeps the lab's own workspace Cargo.toml / target)
rsync -a --exclude target --exclude .git --exclude /harness/Cargo.toml --exclude /harness/Cargo.lock --exclude /evidence --exclude /replays /verif/ /tmp/seedlab/verif/
