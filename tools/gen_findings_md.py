#!/usr/bin/env python3
"""Emit the markdown tables of DESIGN.md §11 from known_findings.json."""
import json, re
def esc(s):
    return s.replace("|", "\\|")
d = json.load(open('/verif/known_findings.json'))
print("### 11.1 Repaired (`fix:` commits in /repo)\n")
print("| prop | commit | what failed |")
print("|---|---|---|")
seen = set()
for s in d['fixed']:
    m = re.match(r'fixed: property=(C\d+) (\S+) (.*)', s)
    if not m: continue
    p, c, w = m.groups()
    w = re.sub(r'^\[key=[^\]]*\]\s*', '', w)
    w = re.sub(r'\s*\[keys? [^\]]*\]\s*$', '', w)
    key = (p, c, w[:60])
    if key in seen: continue
    seen.add(key)
    print(f"| {p} | `{c}` | {esc(w[:260])} |")
print("\n### 11.2 Known findings (not repaired; the check prints KNOWN-FINDING and exits 0)\n")
print("| prop | key | what fails |")
print("|---|---|---|")
for f in d['findings']:
    print(f"| {f['property']} | `{f['key']}` | {esc(f['what'][:300])} |")
